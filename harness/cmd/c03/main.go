// c03: hostile stream through the whole pipeline (ParseAndValidate / Execute / Subscribe / ServeGraphQL)
// under recover + watchdog; the response is json.Marshal'ed.  Observed per case: outcome class.
package main

import (
	"bytes"
	"context"
	"encoding/json"
	"fmt"
	"math"
	"net/http/httptest"
	"reflect"
	"runtime"
	"strings"
	"time"

	apifu "github.com/ccbrown/api-fu"
	"github.com/ccbrown/api-fu/graphql"
	"github.com/ccbrown/api-fu/graphql/executor"
	"github.com/ccbrown/api-fu/graphql/parser"
	"github.com/ccbrown/api-fu/graphql/scanner"
	"github.com/ccbrown/api-fu/graphql/schema"
	"github.com/ccbrown/api-fu/graphql/token"
	"github.com/ccbrown/api-fu/graphql/validator"

	"verifharness/cmd/c03/vld"
	"verifharness/internal/hx"
	"verifharness/internal/rng"
	"verifharness/internal/sexp"
)

// ---------------------------------------------------------------------------------------------
// schema: every kind of type, arguments with defaults, required arguments, input objects, and
// "weird" fields whose resolver result is chosen by the case (the world)
// ---------------------------------------------------------------------------------------------

type objA struct{ depth int }
type objB struct{}
type myErr struct{}

func (*myErr) Error() string { return "typed nil error" }

type stringer struct{}

// error VALUES of every Go kind (a Go error is any value with an Error method: its dynamic type
// need not be a pointer); index = error mode % 100
type structErr struct{ n int }
type strErr string
type intErr int
type boolErr bool
type floatErr float64
type arrErr [1]int
type funcErr func()
type mapErr map[string]int
type sliceErr []int
type chanErr chan int
type ptrStructErr struct{ msg string }

func (structErr) Error() string     { return "struct error" }
func (e strErr) Error() string      { return string(e) }
func (intErr) Error() string        { return "int error" }
func (boolErr) Error() string       { return "bool error" }
func (floatErr) Error() string      { return "float error" }
func (arrErr) Error() string        { return "array error" }
func (funcErr) Error() string       { return "func error" }
func (mapErr) Error() string        { return "map error" }
func (sliceErr) Error() string      { return "slice error" }
func (chanErr) Error() string       { return "chan error" }
func (e *ptrStructErr) Error() string { return e.msg } // reads a field: calling it on a typed nil pointer panics

func errorValues() []error {
	var nilMyErr *myErr
	var nilPtrStruct *ptrStructErr
	return []error{
		nil, fmt.Errorf("resolver error"), nilMyErr, // the three modes of stage 1
		structErr{1}, strErr("string error"), intErr(3), boolErr(false), floatErr(1.5), arrErr{1},
		funcErr(nil), mapErr(nil), sliceErr(nil), chanErr(nil), // nil values of non-pointer kinds: still errors
		mapErr{"a": 1}, funcErr(func() {}), sliceErr{1}, &ptrStructErr{"p"}, nilPtrStruct,
		fmt.Errorf("wrapped: %w", structErr{2}),
	}
}

// the idle handler of the schema built last: fulfils the promises its resolvers handed out
var schemaIdle func()

// hostile resolver results; index = world
func weirdValues() []interface{} {
	var nilPtr *objA
	var nilMap map[string]interface{}
	var nilSlice []interface{}
	var nilErr *myErr
	return []interface{}{
		1, "str", 1.5, true, nil, // ordinary
		math.NaN(), math.Inf(1), math.Inf(-1), float32(math.NaN()),
		nilPtr, nilMap, nilSlice, error(nilErr),
		struct{}{}, stringer{}, &objA{}, objA{}, objB{},
		[]string{"a"}, []int{1, 2}, []interface{}{1, "x", nil, math.NaN()}, [2]int{1, 2},
		int64(1) << 40, -(int64(1) << 40), uint64(math.MaxUint64), int8(-3), uint8(200),
		make(chan int), func() {}, map[string]interface{}{"i": 1}, map[int]int{1: 2},
		"RED", "PURPLE", []byte("bytes"), json.Number("12"), complex(1, 2),
		time.Unix(0, 0), &nilPtr,
	}
}

func buildSchema(world int, weirdErr int) *graphql.Schema {
	weird := weirdValues()
	w := weird[world%len(weird)]
	// error mode: e + 100*delivery.  e indexes errorValues(); delivery 0: returned by the resolver,
	// 1: through a ResolvePromise the request's idle handler fulfils, 2: through a promise that is
	// already fulfilled when the resolver returns
	evs := errorValues()
	werr := evs[(weirdErr%100)%len(evs)]
	var pending []func()
	schemaIdle = func() {
		p := pending
		pending = nil
		for _, f := range p {
			f()
		}
	}
	resolveWeird := func(graphql.FieldContext) (interface{}, error) {
		switch weirdErr / 100 {
		case 1:
			ch := make(graphql.ResolvePromise, 1)
			pending = append(pending, func() { ch <- graphql.ResolveResult{Value: w, Error: werr} })
			return ch, nil
		case 2:
			ch := make(graphql.ResolvePromise, 1)
			ch <- graphql.ResolveResult{Value: w, Error: werr}
			return ch, nil
		}
		return w, werr
	}
	color := &graphql.EnumType{Name: "Color", Values: map[string]*graphql.EnumValueDefinition{"RED": {Value: "RED"}, "GREEN": {Value: 2}}}
	in := &graphql.InputObjectType{Name: "In"}
	in.Fields = map[string]*graphql.InputValueDefinition{
		"a": {Type: graphql.IntType},
		"b": {Type: graphql.StringType, DefaultValue: "x"},
		"c": {Type: in},
		"l": {Type: graphql.NewListType(graphql.NewNonNullType(graphql.IntType))},
		"e": {Type: color},
	}
	inReq := &graphql.InputObjectType{Name: "InReq", Fields: map[string]*graphql.InputValueDefinition{
		"r": {Type: graphql.NewNonNullType(graphql.IntType)},
		"o": {Type: graphql.BooleanType},
	}}
	iface := &graphql.InterfaceType{Name: "Iface", Fields: map[string]*graphql.FieldDefinition{"i": {Type: graphql.IntType}}}
	obj := &graphql.ObjectType{Name: "Obj", ImplementedInterfaces: []*graphql.InterfaceType{iface},
		IsTypeOf: func(v interface{}) bool { _, ok := v.(*objA); return ok }}
	obj2 := &graphql.ObjectType{Name: "Obj2", ImplementedInterfaces: []*graphql.InterfaceType{iface},
		IsTypeOf: func(v interface{}) bool { _, ok := v.(objB); return ok }}
	uni := &graphql.UnionType{Name: "Uni", MemberTypes: []*graphql.ObjectType{obj, obj2}}
	one := func(graphql.FieldContext) (interface{}, error) { return 1, nil }
	argEcho := func(ctx graphql.FieldContext) (interface{}, error) {
		// touch every argument the way an application would
		n := 0
		for _, v := range ctx.Arguments {
			if i, ok := v.(int); ok {
				n += i
			}
			if b, ok := v.(bool); ok && b {
				n++
			}
		}
		return n, nil
	}
	mkObj := func(ctx graphql.FieldContext) (interface{}, error) {
		d := 0
		if o, ok := ctx.Object.(*objA); ok {
			d = o.depth + 1
		}
		return &objA{depth: d}, nil
	}
	common := func() map[string]*graphql.FieldDefinition {
		return map[string]*graphql.FieldDefinition{
			"i":   {Type: graphql.IntType, Resolve: one},
			"s":   {Type: graphql.StringType, Resolve: func(graphql.FieldContext) (interface{}, error) { return "s", nil }},
			"f":   {Type: graphql.FloatType, Resolve: func(graphql.FieldContext) (interface{}, error) { return 1.5, nil }},
			"b":   {Type: graphql.BooleanType, Resolve: func(graphql.FieldContext) (interface{}, error) { return true, nil }},
			"id":  {Type: graphql.IDType, Resolve: func(graphql.FieldContext) (interface{}, error) { return "id1", nil }},
			"e":   {Type: color, Resolve: func(graphql.FieldContext) (interface{}, error) { return "RED", nil }},
			"nn":  {Type: graphql.NewNonNullType(graphql.IntType), Resolve: one},
			"li":  {Type: graphql.NewListType(graphql.IntType), Resolve: func(graphql.FieldContext) (interface{}, error) { return []interface{}{1, nil, 3}, nil }},
			"lnn": {Type: graphql.NewNonNullType(graphql.NewListType(graphql.NewNonNullType(graphql.IntType))), Resolve: func(graphql.FieldContext) (interface{}, error) { return []int{1, 2}, nil }},
			"o":   {Type: obj, Resolve: mkObj},
			"onn": {Type: graphql.NewNonNullType(obj), Resolve: mkObj},
			"lo":  {Type: graphql.NewListType(obj), Resolve: func(ctx graphql.FieldContext) (interface{}, error) { return []interface{}{&objA{}, nil, &objA{}}, nil }},
			"oa": {Type: obj, Resolve: mkObj, Arguments: map[string]*graphql.InputValueDefinition{"x": {Type: graphql.IntType}}},
			"arg": {Type: graphql.IntType, Resolve: argEcho, Arguments: map[string]*graphql.InputValueDefinition{
				"x": {Type: graphql.IntType}, "y": {Type: graphql.IntType}}},
			"req": {Type: graphql.IntType, Resolve: argEcho, Arguments: map[string]*graphql.InputValueDefinition{
				"r": {Type: graphql.NewNonNullType(graphql.IntType)}}},
			"def": {Type: graphql.IntType, Resolve: argEcho, Arguments: map[string]*graphql.InputValueDefinition{
				"x": {Type: graphql.IntType, DefaultValue: 5}, "b": {Type: graphql.NewNonNullType(graphql.BooleanType), DefaultValue: true}}},
			"inp": {Type: graphql.IntType, Resolve: argEcho, Arguments: map[string]*graphql.InputValueDefinition{
				"in": {Type: in}, "inr": {Type: inReq}, "l": {Type: graphql.NewListType(graphql.NewListType(graphql.IntType))},
				"e": {Type: color}, "f": {Type: graphql.FloatType}, "s": {Type: graphql.StringType}, "id": {Type: graphql.IDType},
				"bnn": {Type: graphql.NewNonNullType(graphql.BooleanType), DefaultValue: false},
				"dt": {Type: apifu.DateTimeType}, "long": {Type: apifu.LongIntType}}},
			"iface": {Type: iface, Resolve: func(graphql.FieldContext) (interface{}, error) { return objB{}, nil }},
			"uni":   {Type: uni, Resolve: func(graphql.FieldContext) (interface{}, error) { return &objA{}, nil }},
			"err":   {Type: graphql.IntType, Resolve: func(graphql.FieldContext) (interface{}, error) { return nil, fmt.Errorf("boom") }},
			"errnn": {Type: graphql.NewNonNullType(graphql.IntType), Resolve: func(graphql.FieldContext) (interface{}, error) { return nil, fmt.Errorf("boom") }},
			// weird results at every kind of position
			"wInt": {Type: graphql.IntType, Resolve: resolveWeird}, "wFloat": {Type: graphql.FloatType, Resolve: resolveWeird},
			"wStr": {Type: graphql.StringType, Resolve: resolveWeird}, "wBool": {Type: graphql.BooleanType, Resolve: resolveWeird},
			"wID": {Type: graphql.IDType, Resolve: resolveWeird}, "wEnum": {Type: color, Resolve: resolveWeird},
			"wList": {Type: graphql.NewListType(graphql.IntType), Resolve: resolveWeird},
			"wListF": {Type: graphql.NewListType(graphql.FloatType), Resolve: resolveWeird},
			"wObj": {Type: obj, Resolve: resolveWeird}, "wIface": {Type: iface, Resolve: resolveWeird}, "wUni": {Type: uni, Resolve: resolveWeird},
			"wNN": {Type: graphql.NewNonNullType(graphql.FloatType), Resolve: resolveWeird},
			"wDT": {Type: apifu.DateTimeType, Resolve: resolveWeird}, "wLong": {Type: apifu.LongIntType, Resolve: resolveWeird},
		}
	}
	obj.Fields = common()
	obj2.Fields = map[string]*graphql.FieldDefinition{"i": {Type: graphql.IntType, Resolve: one}, "s2": {Type: graphql.StringType, Resolve: resolveWeird}}
	query := &graphql.ObjectType{Name: "Query", Fields: common()}
	mutation := &graphql.ObjectType{Name: "Mutation", Fields: map[string]*graphql.FieldDefinition{
		"m": {Type: graphql.IntType, Resolve: argEcho, Arguments: map[string]*graphql.InputValueDefinition{"x": {Type: graphql.IntType}}},
		"mo": {Type: obj, Resolve: mkObj}}}
	subscription := &graphql.ObjectType{Name: "Subscription", Fields: map[string]*graphql.FieldDefinition{
		"sub": {Type: graphql.IntType, Resolve: func(ctx graphql.FieldContext) (interface{}, error) {
			if ctx.IsSubscribe {
				// the source stream, together with the error value of the case's error mode (returned
				// directly: a typed nil pointer is "no error" here as on every other resolver path)
				return w, werr
			}
			return 1, nil
		}, Arguments: map[string]*graphql.InputValueDefinition{"x": {Type: graphql.IntType}}},
		"subo": {Type: obj, Resolve: mkObj}}}
	custom := &graphql.DirectiveDefinition{
		Arguments: map[string]*graphql.InputValueDefinition{"n": {Type: graphql.NewNonNullType(graphql.IntType), DefaultValue: 1}},
		Locations: []schema.DirectiveLocation{schema.DirectiveLocationField, schema.DirectiveLocationQuery, schema.DirectiveLocationFragmentSpread, schema.DirectiveLocationInlineFragment},
	}
	s, err := graphql.NewSchema(&graphql.SchemaDefinition{
		Query: query, Mutation: mutation, Subscription: subscription,
		Directives: map[string]*graphql.DirectiveDefinition{"include": graphql.IncludeDirective, "skip": graphql.SkipDirective, "custom": custom},
		AdditionalTypes: []graphql.NamedType{obj2, in, inReq},
	})
	if err != nil {
		panic(err)
	}
	return s
}

// ---------------------------------------------------------------------------------------------
// documents
// ---------------------------------------------------------------------------------------------

var seeds = []string{
	`{i}`, `{i s f b id e nn li lnn}`, `{o{i o{i o{i}}}}`, `query Q($x:Int){arg(x:$x,y:2)}`,
	`query Q($x:Int=3,$b:Boolean=true){arg(x:$x) i @skip(if:$b) s @include(if:$b)}`,
	`{req(r:1) def def2:def(x:null) inp(in:{a:1,c:{a:2,l:[1,2]},e:RED},l:[[1],[2,3]],f:1.5,s:"x",id:7)}`,
	`query Q($in:In,$l:[Int!]){inp(in:$in) a:inp(in:{a:1,l:$l})}`,
	`{iface{i ... on Obj{s} ... on Obj2{s2}} uni{__typename ... on Obj{i} ...F}} fragment F on Obj2{i}`,
	`{...A ...A} fragment A on Query{i o{...B}} fragment B on Obj{i s}`,
	`mutation M{m(x:1) b:m(x:2) mo{i}}`, `subscription S{sub(x:1)}`, `subscription S{subo{i}}`,
	`{__typename __schema{types{name}} __type(name:"Obj"){name fields{name}}}`,
	`query A{i} query B{s}`, `{lo{i o{i}} li err errnn}`, `{o{errnn} onn{errnn i}}`,
	`{wInt wFloat wStr wBool wID wEnum wList wListF wNN wDT wLong}`, `{wObj{i} wIface{i ... on Obj{s}} wUni{__typename}}`,
	`{o @custom(n:2){i @custom} ... @include(if:true){s}}`, `{inp(inr:{r:1},bnn:true,dt:"2020-01-01T00:00:00Z",long:9007199254740991)}`,
	"{ s # comment\n i }", `{s(` + `)}`, `{"""block"""}`, "\ufeff{i}",
}

// hand-written combinations from DESIGN.md C03
func crossProducts() []struct{ q, vars string } {
	var out []struct{ q, vars string }
	add := func(q, v string) { out = append(out, struct{ q, vars string }{q, v}) }
	for _, a := range []string{"x:1", "y:1", "x:1,y:1", "", "x:$v", "z:1"} {
		for _, b := range []string{"x:1", "y:1", "x:2", "", "y:$v"} {
			f := func(args string) string {
				if args == "" {
					return "arg"
				}
				return "arg(" + args + ")"
			}
			add("query($v:Int){"+f(a)+" "+f(b)+"}", `{"v":1}`)
			add("query($v:Int){o{"+f(a)+"} o{"+f(b)+"}}", `{}`)
			add("query($v:Int){...F "+f(a)+"} fragment F on Query{"+f(b)+"}", `{"v":null}`)
		}
	}
	for _, decl := range []string{"$s:Boolean=true", "$s:Boolean", "$s:Boolean!", "$s:Boolean!=true", "$s:Int=1", "$s:[Boolean]=[true]"} {
		for _, use := range []string{"i @skip(if:$s)", "i @include(if:$s)", "def(b:$s)", "inp(bnn:$s)", "inp(inr:{r:1,o:$s})", "inp(l:[[$s]])", "req(r:$s)", "o @custom(n:$s){i}"} {
			for _, vars := range []string{`{}`, `{"s":null}`, `{"s":true}`, `{"s":1}`, `{"s":"x"}`, `{"s":[null]}`} {
				add("query("+decl+"){"+use+"}", vars)
			}
		}
	}
	for _, leaf := range []string{"i", "s", "e", "li", "id", "nn"} {
		for _, inner := range []string{"i", "... on Obj{i}", "...F", "... {i}", "__typename", "... on Iface{i}", "... on Uni{__typename}"} {
			add("{"+leaf+"{"+inner+"}} fragment F on Obj{i}", `{}`)
			add("{o{"+leaf+"{"+inner+"}}} fragment F on Query{i}", `{}`)
		}
	}
	for _, comp := range []string{"o", "iface", "uni", "lo", "onn"} {
		add("{"+comp+"}", `{}`)
		add("{"+comp+"{}}", `{}`)
		add("{"+comp+"{...F}} fragment F on Int{i}", `{}`)
		add("{"+comp+"{... on Color{i}}}", `{}`)
		add("{"+comp+"{... on In{a}}}", `{}`)
	}
	// rule 5.3.2 (fields in a set can merge): two fields of the SAME shape under one response key,
	// selecting the same field or different fields, written in selection sets whose parent types
	// are the same type, an interface and an object type, or two different object types (the only
	// case in which different fields may share a key); directly, through fragments, and one
	// level down (the merged sub-selections)
	for _, pair := range [][2]string{{"i", "i"}, {"i", "err"}, {"i", "arg"}, {"arg(x:1)", "arg(x:1)"}, {"s", "wStr"}, {"li", "wList"}} {
		a, b := "k:"+pair[0], "k:"+pair[1]
		add("{"+a+" "+b+"}", `{}`)
		add("{o{"+a+"} o{"+b+"}}", `{}`)
		add("{o{o{"+a+"}} o{o{"+b+"}}}", `{}`)
		add("{...A ...B} fragment A on Query{"+a+"} fragment B on Query{"+b+"}", `{}`)
		add("{o{...A} o{... on Obj{"+b+"}}} fragment A on Obj{"+a+"}", `{}`)
		add("{uni{... on Obj{"+a+"} ... on Obj{"+b+"}}}", `{}`)
		add("{iface{... on Obj{"+a+"} ... on Iface{"+b+"}}}", `{}`)
	}
	for _, q := range []string{
		"{iface{k:i ... on Obj{k:err}}}", "{iface{k:i ... on Obj{k:i}}}", "{iface{... on Obj{k:err} k:i}}",
		"{uni{... on Obj{k:i} ... on Obj2{k:i}}}", "{uni{... on Obj{k:err} ... on Obj2{k:i}}}", "{uni{... on Obj2{k:i} ... on Obj{k:err}}}",
		"{wUni{... on Obj{k:err} ... on Obj2{k:i}}}", "{iface{... on Obj{k:err} ... on Obj2{k:i}}}", "{wIface{... on Obj{k:nn} ... on Obj2{k:i}}}",
		"{uni{... on Obj{k:o{i}} ... on Obj{k:wObj{i}}}}", "{k:o{i} k:wObj{i}}", "{k:o{i} k:o{s}}", "{k:o{x:i} k:o{x:err}}", "{k:o{x:i} k:wObj{x:err}}",
		"{uni{... on Obj{k:o{x:i}} ... on Obj2{k:i}}}", "{o{k:iface{i}} o{k:wIface{i}}}", "{o{k:iface{x:i}} o{k:iface{... on Obj{x:err}}}}",
	} {
		add(q, `{}`)
	}
	// fragment cycles, unknown things, duplicates
	add(`{...A} fragment A on Query{...B} fragment B on Query{...A}`, `{}`)
	add(`{...A} fragment A on Query{...A}`, `{}`)
	add(`{...Nope}`, `{}`)
	add(`fragment A on Nope{i} {i}`, `{}`)
	add(`query($a:Nope){i}`, `{}`)
	add(`query($a:Obj){i}`, `{}`)
	add(`query($a:Int,$a:Int){arg(x:$a)}`, `{}`)
	add(`{i i:s}`, `{}`)
	add(`{o{i} o:onn{i}}`, `{}`)
	add(`{inp(in:{a:1,a:2})}`, `{}`)
	add(`{inp(in:{c:{c:{c:{a:"x"}}}})}`, `{}`)
	add(`{inp(e:PURPLE)} `, `{}`)
	add(`{inp(e:"RED")}`, `{}`)
	add(`{inp(long:9007199254740993)}`, `{}`)
	add(`{inp(f:1e400)}`, `{}`)
	add(`{inp(id:1.5)}`, `{}`)
	add(`{arg(x:99999999999)}`, `{}`)
	add(`{arg(x:-2147483649)}`, `{}`)
	add(`query($x:Int){arg(x:$x)}`, `{"x":2147483648}`)
	add(`query($x:Int){arg(x:$x)}`, `{"x":1.5}`)
	add(`query($x:Int){arg(x:$x)}`, `{"x":1e400}`)
	add(`query($x:Float){inp(f:$x)}`, `{"x":"NaN"}`)
	add(`query($x:In){inp(in:$x)}`, `{"x":{"c":{"c":{"l":[1,null]}}}}`)
	add(`query($x:In){inp(in:$x)}`, `{"x":[1]}`)
	add(`query($x:[[Int]]){inp(l:$x)}`, `{"x":1}`)
	add(`query($x:[[Int]]){inp(l:$x)}`, `{"x":[1,[2]]}`)
	add(`query($x:DateTime){inp(dt:$x)}`, `{"x":"not a date"}`)
	add(`query($x:DateTime){inp(dt:$x)}`, `{"x":12}`)
	add(`{__type(name:1){name}}`, `{}`)
	add(`{__type{name}}`, `{}`)
	add(`{__schema{types{fields{type{ofType{ofType{ofType{name}}}}}}}}`, `{}`)
	add(`subscription{sub sub2:sub}`, `{}`)
	add(`subscription{...F} fragment F on Subscription{sub}`, `{}`)
	add(`subscription{__typename}`, `{}`)
	add(`mutation{__typename}`, `{}`)
	return out
}

// an explicit null — a null literal, a variable given null, a variable whose default is null, and
// (for comparison) the variable left out — for EVERY nullable argument of every field of the
// hostile schema and of the introspection fields: a valid document in which the argument's default
// is NOT applied, so the resolver finds nil in its arguments map
func nullArgProducts() []struct{ q, vars string } {
	var out []struct{ q, vars string }
	add := func(q, v string) { out = append(out, struct{ q, vars string }{q, v}) }
	type na struct{ path, field, arg, ty, rest, sub string }
	var sites []na
	for _, parent := range []string{"", "o", "mutation"} {
		for _, a := range []na{
			{field: "arg", arg: "x", ty: "Int"}, {field: "arg", arg: "y", ty: "Int", rest: "x:1,"}, {field: "oa", arg: "x", ty: "Int", sub: "{i}"},
			{field: "def", arg: "x", ty: "Int"}, {field: "def", arg: "b", ty: "Boolean"}, // b: Boolean! = true: an explicit null is refused
			{field: "inp", arg: "in", ty: "In"}, {field: "inp", arg: "inr", ty: "InReq"}, {field: "inp", arg: "l", ty: "[[Int]]"},
			{field: "inp", arg: "e", ty: "Color"}, {field: "inp", arg: "f", ty: "Float"}, {field: "inp", arg: "s", ty: "String"},
			{field: "inp", arg: "id", ty: "ID"}, {field: "inp", arg: "dt", ty: "DateTime"}, {field: "inp", arg: "long", ty: "LongInt"},
			{field: "inp", arg: "bnn", ty: "Boolean"}, {field: "req", arg: "r", ty: "Int"},
		} {
			a.path = parent
			if parent == "mutation" {
				if a.field != "arg" || a.arg != "x" {
					continue
				}
				a.field = "m"
			}
			sites = append(sites, a)
		}
	}
	for _, a := range sites {
		wrap := func(head, sel string) string {
			switch a.path {
			case "":
				return head + "{" + sel + "}"
			case "mutation":
				return "mutation" + strings.TrimPrefix(head, "query") + "{" + sel + "}"
			}
			return head + "{" + a.path + "{" + sel + "}}"
		}
		add(wrap("", a.field+"("+a.rest+a.arg+":null)"+a.sub), `{}`)
		h := "query($v:" + a.ty + ")"
		add(wrap(h, a.field+"("+a.rest+a.arg+":$v)"+a.sub), `{"v":null}`)
		add(wrap(h, a.field+"("+a.rest+a.arg+":$v)"+a.sub), `{}`)
		add(wrap("query($v:"+a.ty+"=null)", a.field+"("+a.rest+a.arg+":$v)"+a.sub), `{}`)
	}
	// nested nulls inside input objects and lists
	for _, lit := range []string{"in:{a:null}", "in:{c:null}", "in:{c:{l:null}}", "in:{l:[null]}", "in:{b:null}", "in:{e:null}", "inr:{r:null}", "inr:{r:1,o:null}", "l:[null]", "l:[[null]]", "l:[null,[1]]"} {
		add("{inp("+lit+")}", `{}`)
	}
	// the introspection fields: the only ones with arguments are __type(name: String!),
	// __Type.fields(includeDeprecated: Boolean = false) and __Type.enumValues(includeDeprecated: Boolean = false)
	for _, f := range []string{"fields", "enumValues"} {
		for _, tn := range []string{"Query", "Obj", "Iface", "Color", "Uni", "Int", "In"} {
			add(`{__type(name:"`+tn+`"){`+f+`(includeDeprecated:null){name}}}`, `{}`)
		}
		add(`query($d:Boolean){__type(name:"Obj"){`+f+`(includeDeprecated:$d){name}} t:__type(name:"Color"){`+f+`(includeDeprecated:$d){name}}}`, `{"d":null}`)
		add(`query($d:Boolean){__type(name:"Obj"){`+f+`(includeDeprecated:$d){name}} t:__type(name:"Color"){`+f+`(includeDeprecated:$d){name}}}`, `{}`)
		add(`query($d:Boolean=null){__type(name:"Obj"){`+f+`(includeDeprecated:$d){name}} t:__type(name:"Color"){`+f+`(includeDeprecated:$d){name}}}`, `{}`)
		add(`query($d:Boolean=true){__type(name:"Obj"){`+f+`(includeDeprecated:$d){name}} t:__type(name:"Color"){`+f+`(includeDeprecated:$d){name}}}`, `{"d":null}`)
		add(`{__schema{types{`+f+`(includeDeprecated:null){name}} queryType{`+f+`(includeDeprecated:null){name type{`+f+`(includeDeprecated:null){name}}}}}}`, `{}`)
		add(`{__type(name:"Obj"){`+f+`(includeDeprecated:true){name} x:`+f+`(includeDeprecated:false){name}}}`, `{}`)
	}
	add(`{__type(name:null){name}}`, `{}`)
	add(`query($n:String){__type(name:$n){name}}`, `{"n":null}`)
	add(`query($n:String!){__type(name:$n){name}}`, `{"n":null}`)
	add(`query($n:String="Obj"){__type(name:$n){name}}`, `{"n":null}`)
	add(`{i @custom(n:null)}`, `{}`)
	add(`query($n:Int){i @custom(n:$n)}`, `{"n":null}`)
	add(`query($n:Int=null){i @custom(n:$n)}`, `{}`)
	add(`query($b:Boolean){i @skip(if:$b)}`, `{"b":null}`)
	return out
}

// 2-3 operations that share a fragment (directly or through a chain of fragments) in which a
// variable is used, and that declare this variable with DIFFERENT types: rule 5.8.5 has to hold
// for every operation that reaches the fragment, not only for the first one.  Each operation is
// selected in turn, with values of each of the types; on the code as it is every such document is
// refused whichever operation is asked for.
func multiOpProducts() []struct{ q, vars, op string } {
	var out []struct{ q, vars, op string }
	uses := []struct{ use, ty string }{
		{"i @skip(if:$v)", "Boolean!"}, {"i @include(if:$v)", "Boolean!"}, {"arg(x:$v)", "Int"}, {"inp(s:$v)", "String"},
		{"inp(in:{a:$v})", "Int"}, {"inp(l:[[$v]])", "Int"}, {"def(b:$v)", "Boolean!"}, {"o{i @skip(if:$v)}", "Boolean!"}, {"inp(in:$v)", "In"},
	}
	// the other operation's type, with a use of the variable at that type written in the operation
	// itself (otherwise the variable would be unused there, which is refused for another reason)
	others := []struct{ ty, direct string }{{"String!", "d:inp(s:$v) "}, {"Int", "d:arg(x:$v) "}, {"Boolean", "d:def(b:$v) "}, {"In", "d:inp(in:$v) "}, {"[Boolean!]", ""}}
	vals := []string{`{"v":true}`, `{"v":"yes"}`, `{"v":1}`, `{"v":[true]}`, `{}`}
	for ui, u := range uses {
		for oi, o := range others {
			other := o.ty
			if other == u.ty || strings.TrimSuffix(u.ty, "!") == other {
				continue
			}
			frag := " fragment F on Query{" + u.use + "}"
			docs := []string{
				"query A($v:" + u.ty + "){...F} query B($v:" + other + "){" + o.direct + "...F}" + frag,
				"query B($v:" + other + "){" + o.direct + "...F} query A($v:" + u.ty + "){...F}" + frag,
			}
			if (ui+oi)%3 == 0 {
				docs = append(docs, "query A($v:"+u.ty+"){...F} query B($v:"+other+"){"+o.direct+"s ...G} query C($v:"+u.ty+"){...G}"+
					" fragment F on Query{...G i} fragment G on Query{x:"+strings.Replace(u.use, "{i ", "{x:i ", 1)+"}")
			}
			for di, d := range docs {
				for vi, v := range vals {
					if di > 0 && (ui+oi+di+vi)%3 != 0 || di == 0 && ui > 3 && (ui+oi+vi)%2 == 1 {
						continue // a third of the cross product for the reordered and the three-operation documents, half for the rarer usages
					}
					for _, op := range []string{"A", "B"} {
						out = append(out, struct{ q, vars, op string }{d, v, op})
					}
					if di == 2 {
						out = append(out, struct{ q, vars, op string }{d, v, "C"})
					}
				}
			}
		}
	}
	// the same variable name at the same type everywhere (accepted), and a fragment only one operation reaches
	for _, v := range vals {
		for _, op := range []string{"A", "B"} {
			out = append(out, struct{ q, vars, op string }{"query A($v:Boolean!){...F} query B($v:Boolean!){inp(s:\"x\") ...F} fragment F on Query{i @skip(if:$v)}", v, op})
			out = append(out, struct{ q, vars, op string }{"query A($v:Boolean!){...F} query B($v:String!){inp(s:$v)} fragment F on Query{i @skip(if:$v)}", v, op})
		}
	}
	return out
}

// the same through API.ServeGraphQL, against apifu's own fields: connections (first / last / after /
// before, atOrAfterTime / beforeTime are all nullable), node(id: ID!), nodes(ids: [ID!]!)
func serveNullProducts() []struct{ q, vars string } {
	var out []struct{ q, vars string }
	add := func(q, v string) { out = append(out, struct{ q, vars string }{q, v}) }
	sel := "{edges{cursor node} pageInfo{hasNextPage hasPreviousPage startCursor endCursor}}"
	for _, c := range []string{"conn", "tconn"} {
		for _, args := range []string{"first:null", "last:null", "first:null,last:null", "first:2,last:null", "first:null,last:2", "first:2,after:null", "last:2,before:null",
			"first:2,after:null,before:null", "first:null,after:null", "after:null", "before:null", "first:2", "last:2"} {
			add("{"+c+"("+args+")"+sel+"}", `{}`)
		}
		add("query($n:Int,$c:String){"+c+"(first:$n,after:$c)"+sel+"}", `{"n":null,"c":null}`)
		add("query($n:Int,$c:String){"+c+"(first:$n,after:$c)"+sel+"}", `{"n":2,"c":null}`)
		add("query($n:Int,$c:String){"+c+"(last:$n,before:$c)"+sel+"}", `{"n":null}`)
		add("query($n:Int=null,$c:String=null){"+c+"(last:2,first:$n,before:$c)"+sel+"}", `{}`)
		add("query($n:Int){"+c+"(first:$n){totalCount}}", `{"n":null}`)
	}
	for _, args := range []string{"first:2,atOrAfterTime:null", "first:2,beforeTime:null", "last:2,atOrAfterTime:null,beforeTime:null", "atOrAfterTime:null"} {
		add("{tconn("+args+")"+sel+"}", `{}`)
	}
	add("query($t:DateTime){tconn(first:2,atOrAfterTime:$t,beforeTime:$t)"+sel+"}", `{"t":null}`)
	add(`{node(id:null){id}}`, `{}`)
	add(`query($i:ID){node(id:$i){id}}`, `{"i":null}`)
	add(`query($i:ID!){node(id:$i){id}}`, `{"i":null}`)
	add(`{node(id:"x"){id}}`, `{}`)
	add(`{nodes(ids:null){id}}`, `{}`)
	add(`{nodes(ids:[null]){id}}`, `{}`)
	add(`{nodes(ids:[]){id}}`, `{}`)
	add(`query($i:[ID!]){nodes(ids:$i){id}}`, `{"i":null}`)
	add(`query($i:[ID!]!){nodes(ids:$i){id}}`, `{"i":[null]}`)
	add(`{arg(x:null,y:null)}`, `{}`)
	add(`{arg(b:null)}`, `{}`)
	add(`query($x:Int){arg(x:$x)}`, `{"x":null}`)
	for _, f := range []string{"fields", "enumValues"} {
		add(`{__type(name:"Query"){`+f+`(includeDeprecated:null){name}}}`, `{}`)
		add(`query($d:Boolean){__schema{types{`+f+`(includeDeprecated:$d){name}}}}`, `{"d":null}`)
	}
	return out
}

// subscription documents x directives on the root field / on a root fragment: field collection
// evaluates @skip/@include, the single-root-field rule of validation does not, so the set of root
// fields that executor.subscribe sees can be empty (or have two entries)
func subscriptionProducts() []struct{ q, vars string } {
	var out []struct{ q, vars string }
	add := func(q, v string) { out = append(out, struct{ q, vars string }{q, v}) }
	for _, d := range []string{"@skip(if:true)", "@skip(if:false)", "@include(if:false)", "@include(if:true)", "@skip(if:$on)", "@include(if:$on)",
		"@skip(if:true) @include(if:true)", "@custom", "@custom(n:$on)"} {
		for _, vars := range []string{`{"on":true}`, `{"on":false}`, `{}`, `{"on":null}`} {
			for _, decl := range []string{"$on:Boolean!", "$on:Boolean=true", "$on:Boolean"} {
				if !strings.Contains(d, "$on") && (decl != "$on:Boolean!" || vars != `{"on":true}`) {
					continue
				}
				h := "subscription(" + decl + ")"
				if !strings.Contains(d, "$on") {
					h = "subscription"
				}
				add(h+"{sub "+d+"}", vars)
				add(h+"{sub(x:1) "+d+"}", vars)
				add(h+"{subo "+d+"{i}}", vars)
				add(h+"{...F "+d+"} fragment F on Subscription{sub}", vars)
				add(h+"{... "+d+"{sub}}", vars)
				add(h+"{... on Subscription "+d+"{sub}}", vars)
				add(h+"{a:sub "+d+" b:sub}", vars)
				add(h+"{sub "+d+" sub}", vars)
				add(h+"{__typename "+d+"}", vars)
			}
		}
	}
	return out
}

// value literals nested n deep.  The parser's recursion limit must bound them whatever surrounds
// the nested value: a completed sibling before it (a list item, an object field), lists, objects,
// both alternating; as an argument of a field or of a directive, as a variable's default value.
func deepValue(kind string, n int) string {
	var open, shut string
	switch kind {
	case "list":
		open, shut = "[", "]"
	case "list-sibling":
		open, shut = "[0 ", "]"
	case "obj":
		open, shut = "{c:", "}"
	case "obj-sibling":
		open, shut = "{a:0 c:", "}"
	}
	if kind == "mixed" || kind == "mixed-sibling" {
		var b strings.Builder
		for i := 0; i < n; i++ {
			if i%2 == 0 {
				if kind == "mixed" {
					b.WriteString("{l:")
				} else {
					b.WriteString("{a:0 l:")
				}
			} else {
				if kind == "mixed" {
					b.WriteString("[")
				} else {
					b.WriteString("[0 ")
				}
			}
		}
		b.WriteString("1")
		for i := n - 1; i >= 0; i-- {
			if i%2 == 0 {
				b.WriteString("}")
			} else {
				b.WriteString("]")
			}
		}
		return b.String()
	}
	return strings.Repeat(open, n) + "1" + strings.Repeat(shut, n)
}

func deepValueDoc(place, kind string, n int) string {
	v := deepValue(kind, n)
	switch place {
	case "argument":
		if strings.HasPrefix(kind, "list") {
			return "{inp(l:" + v + ")}"
		}
		return "{inp(in:" + v + ")}"
	case "default":
		return "query($x:In=" + v + "){inp(in:$x)}"
	case "directive":
		return "{i @custom(n:" + v + ")}"
	case "unclosed":
		return "{inp(in:" + v[:len(v)/2]
	}
	return "{i}"
}

func deep(kind string, n int) string {
	switch kind {
	case "sel":
		return strings.Repeat("{o", n) + "{i}" + strings.Repeat("}", n)
	case "list":
		return "{inp(l:" + strings.Repeat("[", n) + "1" + strings.Repeat("]", n) + ")}"
	case "obj":
		return "{inp(in:" + strings.Repeat("{c:", n) + "{a:1}" + strings.Repeat("}", n) + ")}"
	case "type":
		return "query($x:" + strings.Repeat("[", n) + "Int" + strings.Repeat("]", n) + "){i}"
	case "wide":
		return "{" + strings.Repeat("i ", n) + "}"
	case "wideargs":
		return "{inp(l:[" + strings.Repeat("[1],", n) + "[2]])}"
	case "inline":
		return "{" + strings.Repeat("...{", n) + "i" + strings.Repeat("}", n) + "}"
	case "ladder", "ladder-leaf":
		// n fragments, each spreading the next one TWICE beneath the same response key (plus a third
		// field of that key, with a selection set or — refused by 5.3.3, but the overlapping-fields
		// pass still runs — without): 2^n paths, polynomial only because the pass remembers the
		// pairs of fields it has compared
		third := "o{i}"
		if kind == "ladder-leaf" {
			third = "o"
		}
		var b strings.Builder
		b.WriteString("{...F0}")
		for i := 0; i < n; i++ {
			on := "Obj"
			if i == 0 {
				on = "Query"
			}
			fmt.Fprintf(&b, " fragment F%d on %s{o{...F%d} o{...F%d} %s}", i, on, i+1, i+1, third)
		}
		fmt.Fprintf(&b, " fragment F%d on Obj{i}", n)
		return b.String()
	case "unclosed":
		return strings.Repeat("{o", n)
	case "unclosedlist":
		return "{inp(l:" + strings.Repeat("[", n)
	}
	return "{i}"
}

func tokens(src string) []string {
	s := scanner.New([]byte(src), 0)
	var out []string
	for s.Scan() {
		if s.Token() == token.STRING_VALUE || true {
			out = append(out, s.Literal())
		}
	}
	return out
}

var junkTokens = []string{"{", "}", "(", ")", "[", "]", ":", "!", "$", "@", "=", "...", "|", "&", "on", "fragment", "query", "mutation",
	"subscription", "null", "true", "false", "1", "-0", "1.5", "1e", "0x1", `"s"`, `"""b"""`, `"é"`, `"\ud800"`, `"unterminated`, "#c\n", ",", "\ufeff", "i", "o", "arg", "x", "$v", "Obj", "Int", "__typename", "\x00", "\x80", "\xff", "é", "\U0001F600", "-", ".", "..", "1.", ".5", "1e+", "00"}

func mutate(r *rng.R, src string) string {
	toks := tokens(src)
	if len(toks) == 0 {
		return rng.Pick(r, junkTokens)
	}
	n := r.Range(1, 3)
	for k := 0; k < n; k++ {
		i := r.Intn(len(toks))
		switch r.Intn(5) {
		case 0:
			toks = append(toks[:i], toks[i+1:]...)
		case 1:
			toks = append(toks[:i], append([]string{rng.Pick(r, junkTokens)}, toks[i:]...)...)
		case 2:
			toks[i] = rng.Pick(r, junkTokens)
		case 3:
			j := r.Intn(len(toks))
			toks[i], toks[j] = toks[j], toks[i]
		case 4:
			toks = append(toks[:i], append([]string{toks[i]}, toks[i:]...)...)
		}
		if len(toks) == 0 {
			break
		}
	}
	sep := rng.Pick(r, []string{" ", "\n", ",", "\r\n", "\t", " #x\n"})
	return strings.Join(toks, sep)
}

var vocabulary = []string{"i", "s", "f", "b", "id", "e", "nn", "li", "lnn", "o", "onn", "lo", "oa", "arg", "req", "def", "inp", "iface", "uni", "err", "errnn",
	"wInt", "wFloat", "wList", "wObj", "wIface", "wUni", "wNN", "s2", "m", "mo", "sub", "subo", "x", "y", "r", "in", "inr", "l", "bnn", "dt", "long", "a", "c",
	"Query", "Mutation", "Subscription", "Obj", "Obj2", "Iface", "Uni", "Color", "In", "InReq", "Int", "Float", "String", "Boolean", "ID", "DateTime", "LongInt",
	"RED", "GREEN", "include", "skip", "custom", "if", "n", "__typename", "__schema", "__type", "name", "fields", "types", "F", "A", "B", "Q", "on", "null", "true", "false",
	"1", "0", "-1", "1.5", `"x"`, "$x", "$b", "$s", "$v", "$in", "$l", "[1]", "{a:1}", "[]", "{}"}

// semantic mutation: names and values are replaced by other words of the schema's vocabulary, so
// that most results still parse and reach the validator (and many the executor)
func mutateNames(r *rng.R, src string) string {
	toks := tokens(src)
	n := r.Range(1, 3)
	for k := 0; k < n && len(toks) > 0; k++ {
		i := r.Intn(len(toks))
		c := toks[i][0]
		if c >= 'a' && c <= 'z' || c >= 'A' && c <= 'Z' || c == '_' || c >= '0' && c <= '9' || c == '"' || c == '-' {
			toks[i] = rng.Pick(r, vocabulary)
		} else if toks[i] == "$" && i+1 < len(toks) {
			toks[i+1] = rng.Pick(r, []string{"x", "b", "s", "v", "in", "l", "zz"})
		}
	}
	return strings.Join(toks, " ")
}

func rawBytes(r *rng.R) string {
	n := r.Range(0, 24)
	b := make([]byte, n)
	alpha := []byte("{}()[]:!$@=.|\"\\#, \n\r\tabinox01e-+_\xef\xbb\xbf\xc3\xa9\x00\x80\xf0\x9f\x98\x80u")
	for i := range b {
		if r.Chance(1, 5) {
			b[i] = byte(r.Intn(256))
		} else {
			b[i] = alpha[r.Intn(len(alpha))]
		}
	}
	return string(b)
}

func randomJSON(r *rng.R, depth int) interface{} {
	switch k := r.Intn(10); {
	case k == 0:
		return nil
	case k == 1:
		return r.Bool()
	case k == 2:
		return float64(r.Range(-3, 3))
	case k == 3:
		return rng.Pick(r, []float64{1.5, 2147483647, 2147483648, -2147483649, 9007199254740993, 1e300, 1e-300, -0.0})
	case k == 4:
		return rng.Pick(r, []string{"", "x", "RED", "1", "true", "2020-01-01T00:00:00Z", "\x00", "é"})
	case k <= 6 && depth < 3:
		n := r.Intn(3)
		l := make([]interface{}, n)
		for i := range l {
			l[i] = randomJSON(r, depth+1)
		}
		return l
	case depth < 3:
		m := map[string]interface{}{}
		for i, n := 0, r.Intn(3); i < n; i++ {
			m[rng.Pick(r, []string{"a", "b", "c", "l", "e", "r", "o", "zz"})] = randomJSON(r, depth+1)
		}
		return m
	}
	return 1.0
}

func randomVars(r *rng.R) string {
	m := map[string]interface{}{}
	for i, n := 0, r.Intn(4); i < n; i++ {
		m[rng.Pick(r, []string{"x", "b", "s", "v", "in", "l", "a"})] = randomJSON(r, 0)
	}
	b, _ := json.Marshal(m)
	return string(b)
}

// ---------------------------------------------------------------------------------------------
// running one case
// ---------------------------------------------------------------------------------------------

type outcome struct {
	class  string // ok | errors | panic | timeout | marshal-error | nodata-noerrors | bad-status
	detail string
	resp   *graphql.Response // the response judged, if any
}

func site() string {
	// first frame inside api-fu
	pcs := make([]uintptr, 40)
	n := runtime.Callers(3, pcs)
	frames := runtime.CallersFrames(pcs[:n])
	for {
		f, more := frames.Next()
		if strings.Contains(f.File, "api-fu") || strings.Contains(f.Function, "ccbrown/api-fu") {
			if !strings.Contains(f.Function, "verifharness") {
				fn := f.Function
				if i := strings.LastIndex(fn, "/"); i >= 0 {
					fn = fn[i+1:]
				}
				return fn
			}
		}
		if !more {
			return "?"
		}
	}
}

// the watchdog: 20 s, except for the one family whose cost is known to be quadratic (see main)
var watchdog = 20 * time.Second

func guarded(f func() outcome) outcome {
	ch := make(chan outcome, 1)
	go func() {
		defer func() {
			if e := recover(); e != nil {
				ch <- outcome{class: "panic", detail: site() + ": " + fmt.Sprint(e)}
			}
		}()
		ch <- f()
	}()
	select {
	case o := <-ch:
		return o
	case <-time.After(watchdog):
		return outcome{class: "timeout"}
	}
}

func judge(resp *graphql.Response) (o outcome) {
	defer func() { o.resp = resp }()
	b, err := json.Marshal(resp)
	if err != nil {
		return outcome{class: "marshal-error", detail: err.Error()}
	}
	var back struct {
		Data   json.RawMessage
		Errors []json.RawMessage
	}
	if err := json.Unmarshal(b, &back); err != nil {
		return outcome{class: "marshal-error", detail: "does not parse back: " + err.Error()}
	}
	noData := back.Data == nil || bytes.Equal(bytes.TrimSpace(back.Data), []byte("null"))
	if noData && len(back.Errors) == 0 {
		return outcome{class: "nodata-noerrors", detail: string(b)}
	}
	if len(back.Errors) > 0 {
		return outcome{class: "errors"}
	}
	return outcome{class: "ok"}
}

func parseVars(vars string) (map[string]interface{}, bool) {
	var m map[string]interface{}
	if err := json.Unmarshal([]byte(vars), &m); err != nil {
		return nil, false
	}
	return m, true
}

func runCase(api string, q, vars, op string, world, weirdErr int) outcome {
	s := buildSchema(world, weirdErr)
	idle := schemaIdle
	vm, ok := parseVars(vars)
	if !ok {
		vm = nil
	}
	switch api {
	case "validate":
		return guarded(func() outcome {
			var actual int
			_, errs := graphql.ParseAndValidate(q, s, graphql.FeatureSet{}, graphql.ValidateCost(op, vm, 1000, &actual, graphql.FieldCost{Resolver: 1}))
			return judge(&graphql.Response{Errors: errs, Data: func() *interface{} {
				if len(errs) == 0 {
					var x interface{} = true
					return &x
				}
				return nil
			}()})
		})
	case "execute":
		return guarded(func() outcome {
			return judge(graphql.Execute(&graphql.Request{Context: context.Background(), Query: q, Schema: s, OperationName: op, VariableValues: vm, IdleHandler: idle}))
		})
	case "subscribe":
		return guarded(func() outcome {
			v, errs := graphql.Subscribe(&graphql.Request{Context: context.Background(), Query: q, Schema: s, OperationName: op, VariableValues: vm})
			if len(errs) == 0 {
				var x interface{} = v
				_ = x
				var marker interface{} = true
				return outcome{class: "ok", resp: &graphql.Response{Data: &marker}}
			}
			return judge(&graphql.Response{Errors: errs})
		})
	case "serve":
		return guarded(func() outcome {
			cfg := &apifu.Config{}
			weird := weirdValues()
			w := weird[world%len(weird)]
			cfg.AddQueryField("i", &graphql.FieldDefinition{Type: graphql.IntType, Resolve: func(graphql.FieldContext) (interface{}, error) { return 1, nil }})
			cfg.AddQueryField("wFloat", &graphql.FieldDefinition{Type: graphql.FloatType, Resolve: func(graphql.FieldContext) (interface{}, error) { return w, nil }})
			cfg.AddQueryField("wStr", &graphql.FieldDefinition{Type: graphql.StringType, Resolve: func(graphql.FieldContext) (interface{}, error) { return w, nil }})
			cfg.AddQueryField("arg", &graphql.FieldDefinition{Type: graphql.IntType, Arguments: map[string]*graphql.InputValueDefinition{
				"x": {Type: graphql.IntType}, "y": {Type: graphql.IntType}, "b": {Type: graphql.NewNonNullType(graphql.BooleanType), DefaultValue: true}},
				Resolve: func(ctx graphql.FieldContext) (interface{}, error) { return 1, nil }})
			intEdges := map[string]*graphql.FieldDefinition{"node": {Type: graphql.IntType, Resolve: func(ctx graphql.FieldContext) (interface{}, error) { return ctx.Object, nil }}}
			cfg.AddQueryField("conn", apifu.Connection(&apifu.ConnectionConfig{
				NamePrefix: "Conn", Direction: apifu.ConnectionDirectionBidirectional,
				ResolveAllEdges: func(graphql.FieldContext) (interface{}, func(a, b interface{}) bool, error) {
					return []int{1, 2, 3, 4, 5}, func(a, b interface{}) bool { return a.(int) < b.(int) }, nil
				},
				CursorType: reflect.TypeOf(0),
				EdgeCursor: func(e interface{}) interface{} { return e.(int) },
				EdgeFields: intEdges,
			}))
			cfg.AddQueryField("tconn", apifu.TimeBasedConnection(&apifu.TimeBasedConnectionConfig{
				NamePrefix: "TConn",
				EdgeCursor: func(e interface{}) apifu.TimeBasedCursor {
					return apifu.NewTimeBasedCursor(time.Unix(int64(e.(int)), 0), fmt.Sprint(e))
				},
				EdgeFields: intEdges,
				EdgeGetter: func(ctx graphql.FieldContext, minTime, maxTime time.Time, limit int) (interface{}, error) {
					return []int{1, 2, 3}, nil
				},
				ResolveTotalCount: func(graphql.FieldContext) (interface{}, error) { return 3, nil },
			}))
			cfg.ResolveNodesByGlobalIds = func(ctx context.Context, ids []string) ([]interface{}, error) { return nil, nil }
			a, err := apifu.NewAPI(cfg)
			if err != nil {
				return outcome{class: "errors", detail: "schema"}
			}
			body, _ := json.Marshal(map[string]interface{}{"query": q, "variables": vm, "operationName": op})
			hr := httptest.NewRequest("POST", "/graphql", bytes.NewReader(body))
			hr.Header.Set("Content-Type", "application/json")
			rec := httptest.NewRecorder()
			a.ServeGraphQL(rec, hr)
			if rec.Code != 200 {
				return outcome{class: "bad-status", detail: fmt.Sprint(rec.Code, " ", strings.TrimSpace(rec.Body.String()))}
			}
			var resp graphql.Response
			if err := json.Unmarshal(rec.Body.Bytes(), &resp); err != nil {
				return outcome{class: "marshal-error", detail: err.Error()}
			}
			return judge(&resp)
		})
	}
	return outcome{class: "ok"}
}

// stage verdicts, observed by calling the stages separately (fresh schema instance, same world)
func stageNode(name string, f func() sexp.Node) (n sexp.Node, crashed bool) {
	ch := make(chan sexp.Node, 1)
	go func() {
		defer func() {
			if e := recover(); e != nil {
				ch <- sexp.T(name, sexp.Sym("crashed"))
			}
		}()
		ch <- f()
	}()
	select {
	case n = <-ch:
	case <-time.After(watchdog):
		n = sexp.T(name, sexp.Sym("crashed"))
	}
	return n, len(n.List) == 2 && n.List[1].Sym == "crashed"
}

// front: what the composed front half (Pipe/Compose.v parse_and_validate_bytes) is compared with:
// the locations of the syntax errors in order, or of the validation errors (one list per error)
type frontObs struct {
	ok    bool
	plocs []sexp.Node
	vlocs []sexp.Node
}

func stages(api, q, vars, op string, world, weirdErr int, fo *frontObs) sexp.Node {
	s := buildSchema(world, weirdErr)
	idle := schemaIdle
	vm, _ := parseVars(vars)
	out := []sexp.Node{}
	var doc interface{}
	pn, crashed := stageNode("parse", func() sexp.Node {
		d, errs := parser.ParseDocument([]byte(q))
		doc = d
		for _, e := range errs {
			fo.plocs = append(fo.plocs, sexp.L(sexp.Int(e.Location.Line), sexp.Int(e.Location.Column)))
		}
		return sexp.T("parse", sexp.Int(len(errs)))
	})
	fo.ok = !crashed
	out = append(out, pn)
	if crashed || pn.List[1].Int.Sign() != 0 {
		return sexp.T("stages", out...)
	}
	d, _ := parser.ParseDocument([]byte(q))
	_ = doc
	vn, crashed := stageNode("validate", func() sexp.Node {
		var rules []validator.Rule
		if api == "validate" {
			var actual int
			rules = append(rules, validator.ValidateCost(op, vm, 1000, &actual, graphql.FieldCost{Resolver: 1}))
		}
		verrs := validator.ValidateDocument(d, s, graphql.FeatureSet{}, rules...)
		for _, e := range verrs {
			var ls []sexp.Node
			for _, l := range e.Locations {
				ls = append(ls, sexp.L(sexp.Int(l.Line), sexp.Int(l.Column)))
			}
			fo.vlocs = append(fo.vlocs, sexp.L(ls...))
		}
		return sexp.T("validate", sexp.Int(len(verrs)))
	})
	fo.ok = fo.ok && !crashed
	out = append(out, vn)
	if crashed || vn.List[1].Int.Sign() != 0 || api == "validate" {
		return sexp.T("stages", out...)
	}
	req := &executor.Request{Document: d, Schema: s, OperationName: op, VariableValues: vm, IdleHandler: idle}
	if api == "subscribe" {
		sn, _ := stageNode("subscribe", func() sexp.Node {
			_, err := executor.Subscribe(context.Background(), req)
			return sexp.T("subscribe", sexp.Bool(err != nil))
		})
		out = append(out, sn)
	} else {
		en, _ := stageNode("exec", func() sexp.Node {
			data, errs := executor.ExecuteRequest(context.Background(), req)
			return sexp.T("exec", sexp.Bool(data == nil), sexp.Int(len(errs)))
		})
		out = append(out, en)
	}
	return sexp.T("stages", out...)
}

// set by the case closure of a family whose documents must be refused by the parser
var expectRefused bool

const frontMaxBytes = 1500
// the scanner model is quadratic in the length of the text: the deep-value texts that the front tie
// runs on are bounded at 1200 bytes in the quick tier (lists to 501 levels, the other kinds to
// 251 / 250 / 100), 6000 in the thorough tier
const frontMaxBytesDeep = 1200
const frontMaxBytesDeepThorough = 6000

var thoroughTier bool

var hostileVS *sexp.Node

// the hostile schema in the validator model's encoding (the same for every world: the worlds
// differ in what resolvers return).  DateTime and LongInt accept string / integer literals
// depending on their VALUE, which the kind-level scalars of Vld/Ast.v cannot say: they are listed
// under "vdep" and the check leaves out documents that hold a literal at such a type.
func hostileVSchema() sexp.Node {
	if hostileVS == nil {
		n := vld.SchemaSexp(buildSchema(0, 0), map[string]string{"DateTime": "custom:str", "LongInt": "custom:int"})
		hostileVS = &n
	}
	return *hostileVS
}

func respNode(o outcome) sexp.Node {
	if o.resp == nil {
		return sexp.T("resp", sexp.Sym("none"))
	}
	hasData := o.resp.Data != nil
	null := !hasData || *o.resp.Data == nil
	if hasData {
		if m, ok := (*o.resp.Data).(*executor.OrderedMap); ok && m == nil {
			null = true
		}
	}
	return sexp.T("resp", sexp.Bool(hasData), sexp.Bool(null), sexp.Int(len(o.resp.Errors)))
}

func dataJSON(r *graphql.Response) sexp.Node {
	if r.Data == nil {
		return sexp.Str("<absent>")
	}
	b, err := json.Marshal(*r.Data)
	if err != nil {
		return sexp.Str("<unserialisable>")
	}
	return sexp.Str(string(b))
}

func emit(stream, api, q, vars, op string, world, weirdErr int) sexp.Node {
	o := runCase(api, q, vars, op, world, weirdErr)
	st := sexp.T("stages")
	var fo frontObs
	if api != "serve" {
		st = stages(api, q, vars, op, world, weirdErr, &fo)
	}
	fields := []sexp.Node{sexp.T("stream", sexp.Sym(stream)), sexp.T("api", sexp.Sym(api)),
		sexp.T("query", sexp.Str(q)), sexp.T("vars", sexp.Str(vars)), sexp.T("op", sexp.Str(op)),
		sexp.T("world", sexp.Int(world), sexp.Int(weirdErr)), st,
		sexp.T("outcome", sexp.Sym(o.class), sexp.Str(o.detail)), respNode(o)}
	// the front half of the composed model (scanner + parser + validator models from the bytes) is
	// run on every request whose validation is the plain one (no cost rule) and whose text is short
	if weirdErr >= 100 && api == "execute" && o.resp != nil {
		// the same resolver answers delivered directly: the response must have the same data, and
		// errors exactly when the promise-delivered one has
		t := runCase(api, q, vars, op, world, weirdErr%100)
		if t.resp != nil {
			fields = append(fields, sexp.T("twin", sexp.T("async", dataJSON(o.resp), sexp.Int(len(o.resp.Errors))),
				sexp.T("sync", dataJSON(t.resp), sexp.Int(len(t.resp.Errors)))))
		} else {
			fields = append(fields, sexp.T("twin", sexp.T("async", dataJSON(o.resp), sexp.Int(len(o.resp.Errors))),
				sexp.T("sync", sexp.Str("<"+t.class+">"), sexp.Int(0))))
		}
	}
	if expectRefused {
		// generator intent, checked by the oracle: a document nested far beyond the parser's
		// recursion limit must be refused with a syntax error
		fields = append(fields, sexp.T("expect", sexp.Sym("refused")))
	}
	limit := frontMaxBytes
	if strings.HasPrefix(stream, "deep-value") {
		limit = frontMaxBytesDeep
		if thoroughTier {
			limit = frontMaxBytesDeepThorough
		}
	}
	if fo.ok && (api == "execute" || api == "subscribe") && len(q) <= limit {
		fields = append(fields, sexp.T("front",
			sexp.T("vschema", hostileVSchema()),
			sexp.T("vdep", sexp.L(sexp.Str("DateTime"), sexp.Str("LongInt"))),
			sexp.T("plocs", sexp.L(fo.plocs...)),
			sexp.T("vlocs", sexp.L(fo.vlocs...))))
	}
	return sexp.T("case", fields...)
}

func main() {
	hx.Main(func(h *hx.H) {
		thoroughTier = h.Thorough()
		apis := []string{"execute", "validate", "subscribe", "serve"}
		nWeird := len(weirdValues())
		// 1. seeds through every api
		for _, q := range seeds {
			for _, api := range apis {
				q, api := q, api
				h.Case(func(*rng.R) sexp.Node { return emit("seed", api, q, `{}`, "", 0, 0) })
			}
		}
		// 2. weird resolver results at every position
		for w := 0; w < nWeird; w++ {
			for we := 0; we < 3; we++ {
				for _, q := range []string{seeds[16], seeds[17], `subscription{sub}`, `{o{wFloat wList} lo{wNN}}`, `{onn{wNN}}`} {
					w, we, q := w, we, q
					api := "execute"
					if strings.HasPrefix(q, "subscription") {
						api = "subscribe"
					}
					h.Case(func(*rng.R) sexp.Node { return emit("weird", api, q, `{}`, "", w, we) })
				}
			}
			w := w
			h.Case(func(*rng.R) sexp.Node { return emit("weird", "serve", `{wFloat wStr}`, `{}`, "", w, 0) })
		}
		// 2b. the same results delivered through promises (fulfilled by the idle handler, or already
		// fulfilled), and error VALUES of every Go kind on every route
		nErr := len(errorValues())
		for w := 0; w < nWeird; w++ {
			for _, we := range []int{100, 101, 102, 200, 201} {
				for _, q := range []string{seeds[16], `{wObj{i} lo{wNN} onn{wNN}}`} {
					w, we, q := w, we, q
					h.Case(func(*rng.R) sexp.Node { return emit("weird-promise", "execute", q, `{}`, "", w, we) })
				}
			}
		}
		// every error kind from the root subscription resolver on the Subscribe call
		for e := 0; e < nErr; e++ {
			for _, w := range []int{0, 4, 9} {
				for _, q := range []string{`subscription{sub}`, `subscription{s:sub(x:1)}`} {
					e, w, q := e, w, q
					h.Case(func(*rng.R) sexp.Node { return emit("weird-error-kind", "subscribe", q, `{}`, "", w, e) })
				}
			}
		}
		for e := 3; e < nErr; e++ {
			for _, d := range []int{0, 100, 200} {
				for _, w := range []int{0, 4, 9, 13} {
					for _, q := range []string{`{wInt wNN}`, `{o{wFloat} lo{wNN} wObj{i}}`, `{onn{wNN}}`} {
						e, d, w, q := e, d, w, q
						h.Case(func(*rng.R) sexp.Node { return emit("weird-error-kind", "execute", q, `{}`, "", w, e+d) })
					}
				}
			}
		}
		// 3. hand-written cross products
		for _, c := range crossProducts() {
			c := c
			h.Case(func(*rng.R) sexp.Node { return emit("cross", "execute", c.q, c.vars, "", 0, 0) })
			h.Case(func(*rng.R) sexp.Node { return emit("cross", "validate", c.q, c.vars, "", 0, 0) })
		}
		// 3a. several operations sharing a variable-using fragment, with differently typed variables
		for _, c := range multiOpProducts() {
			c := c
			h.Case(func(*rng.R) sexp.Node { return emit("multi-operation", "execute", c.q, c.vars, c.op, 0, 0) })
		}
		// 3b. explicit nulls for nullable arguments
		for _, c := range nullArgProducts() {
			c := c
			h.Case(func(*rng.R) sexp.Node { return emit("null-argument", "execute", c.q, c.vars, "", 0, 0) })
		}
		for _, c := range serveNullProducts() {
			c := c
			h.Case(func(*rng.R) sexp.Node { return emit("null-argument-serve", "serve", c.q, c.vars, "", 0, 0) })
		}
		for _, c := range subscriptionProducts() {
			c := c
			h.Case(func(*rng.R) sexp.Node { return emit("cross-subscription", "subscribe", c.q, c.vars, "", 0, 0) })
			h.Case(func(*rng.R) sexp.Node { return emit("cross-subscription", "execute", c.q, c.vars, "", 0, 0) })
		}
		// 4. depth and width
		depths := []int{1, 10, 100, 499, 500, 501, 999, 1000, 1001, 1500, 5000}
		if h.Thorough() {
			depths = append(depths, 20000, 100000)
		}
		for _, k := range []string{"sel", "list", "obj", "type", "wide", "wideargs", "inline", "unclosed", "unclosedlist"} {
			for _, n := range depths {
				k, n := k, n
				if k == "wide" && n == 5000 && !h.Thorough() {
					// quick tier: the widest document of this family has 1500 fields (about 0.2 s per
					// validation, three validations per case); 5000 (2 s each) and more: thorough tier
					continue
				}
				if k == "wide" && n > 20000 {
					// n fields of one response name: FieldsInSetCanMerge compares them pairwise
					// (quadratic; the polynomial bound is property C12): 5000 take about 2 s,
					// 20000 about 35 s, 100000 about a quarter of an hour per call
					continue
				}
				h.Case(func(*rng.R) sexp.Node {
					if k == "wide" && n > 5000 {
						watchdog = 320 * time.Second // 20 s x (20000/5000)^2
						defer func() { watchdog = 20 * time.Second }()
					}
					return emit("deep-"+k, "execute", deep(k, n), `{}`, "", 0, 0)
				})
			}
		}
		for _, k := range []string{"ladder", "ladder-leaf"} {
			for _, n := range []int{1, 2, 10, 40, 48, 60} {
				k, n := k, n
				h.Case(func(*rng.R) sexp.Node { return emit("deep-"+k, "execute", deep(k, n), `{}`, "", 0, 0) })
			}
		}
		// the same ladder through ParseAndValidate WITH the cost rule (what API.ServeGraphQL always
		// does): the rule walks the expansion, 2^n fields for n fragments — n = 22 (1 KB of text) takes
		// about 3.5 s, every two more levels four times as long.
		// quick tier: 2, 10, 16 levels under the ordinary watchdog (16 levels take about 60 ms: no
		// wall-clock margin is involved); the case that shows the known finding as a timeout — 24
		// levels, about 13 s on an idle machine, asked for within 5 s — runs in the thorough tier only
		ladderCost := []int{2, 10, 16}
		if h.Thorough() {
			ladderCost = append(ladderCost, 24)
		}
		for _, n := range ladderCost {
			n := n
			h.Case(func(*rng.R) sexp.Node {
				if n > 16 {
					watchdog = 5 * time.Second
					defer func() { watchdog = 20 * time.Second }()
				}
				return emit("deep-ladder-cost", "validate", deep("ladder", n), `{}`, "", 0, 0)
			})
		}
		// 4b. nesting depth of value literals, around the parser's limit and far beyond it
		vdepths := []int{1, 10, 100, 249, 250, 251, 333, 334, 499, 500, 501, 999, 1000, 1001, 1500, 3000}
		if h.Thorough() {
			vdepths = append(vdepths, 20000, 200000)
		}
		for _, place := range []string{"argument", "default", "directive", "unclosed"} {
			for _, kind := range []string{"list", "list-sibling", "obj", "obj-sibling", "mixed", "mixed-sibling"} {
				for _, n := range vdepths {
					place, kind, n := place, kind, n
					h.Case(func(*rng.R) sexp.Node {
						expectRefused = n >= 2000 // the limit is 1000 productions
						defer func() { expectRefused = false }()
						return emit("deep-value-"+place, "execute", deepValueDoc(place, kind, n), `{}`, "", 0, 0)
					})
				}
			}
		}
		// 4c. lexical corners at every kind of position (lexical.go)
		for _, c := range lexicalCases(h.Thorough()) {
			c := c
			h.Case(func(*rng.R) sexp.Node {
				return emit("lexical-"+c.family, "execute", lexPlace(c.place, c.item), `{}`, "", 0, 0)
			})
		}
		// 5. operation names
		for _, op := range []string{"", "A", "B", "C", "\x00"} {
			op := op
			h.Case(func(*rng.R) sexp.Node { return emit("opname", "execute", `query A{i} query B{s} mutation C{m}`, `{}`, op, 0, 0) })
			h.Case(func(*rng.R) sexp.Node { return emit("opname", "subscribe", `query A{i} subscription B{sub}`, `{}`, op, 0, 0) })
		}
		// 6. random: token-level mutations, raw bytes, random variables
		n := 5400
		if h.Thorough() {
			n = 200000
		}
		all := append([]string(nil), seeds...)
		for _, c := range crossProducts() {
			all = append(all, c.q)
		}
		for i := 0; i < n; i++ {
			i := i
			h.Case(func(r *rng.R) sexp.Node {
				api := apis[r.Intn(len(apis))]
				var q, stream string
				switch i % 6 {
				case 0:
					q, stream = rawBytes(r), "raw"
				case 1:
					q, stream = mutate(r, rng.Pick(r, all)), "mutated"
				case 2, 3, 4:
					q, stream = mutateNames(r, rng.Pick(r, all)), "renamed"
				default:
					q, stream = rng.Pick(r, all), "vars"
				}
				return emit(stream, api, q, randomVars(r), rng.Pick(r, []string{"", "", "", "Q", "A"}), r.Intn(nWeird), r.Intn(3))
			})
		}
		// 7. the composed stream: requests inside the common envelope of the stage models, on which
		// the composed model (Pipe/Compose.v) is run from the bytes and compared
		nc := 1800
		if h.Thorough() {
			nc = 60000
		}
		for i := 0; i < nc; i++ {
			kind := composedKinds[i%len(composedKinds)]
			h.Case(func(r *rng.R) sexp.Node { return composedCase(r, kind) })
		}
	})
}
