package main

// graphql-ws subscriptions: the same forests beneath a subscription field, several events per
// subscription.  Every event is one execution with the request's idle handler; api-fu calls
// finishExecution after each (the executionDone channel is closed and renewed), so goroutines
// abandoned by event i must be released before event i+1 and must not disturb it.

import (
	"context"
	"fmt"
	"os"
	"encoding/json"
	"net/http"
	"net/http/httptest"
	"strings"
	"sync"
	"time"

	"github.com/gorilla/websocket"

	"verifharness/internal/sexp"
)

type wsHolder struct {
	mu       sync.Mutex
	runs     []*run
	next     int
	stream   chan *nodeObj
	stopOnce sync.Once
}

func (h *wsHolder) take() *run {
	h.mu.Lock()
	defer h.mu.Unlock()
	if h.next >= len(h.runs) {
		return h.runs[len(h.runs)-1]
	}
	r := h.runs[h.next]
	h.next++
	return r
}

func (h *wsHolder) stop() { h.stopOnce.Do(func() { close(h.stream) }) }

type wsMsg struct {
	Id      string          `json:"id,omitempty"`
	Type    string          `json:"type"`
	Payload json.RawMessage `json:"payload,omitempty"`
}

// canonicalWS: {"data":{"ev":X},"errors":[... path ["ev",...] ...]} -> canonical form of {"data":X, errors with "ev" stripped}
func canonicalWS(payload []byte) string {
	var resp struct {
		Data   map[string]interface{}   `json:"data"`
		Errors []map[string]interface{} `json:"errors"`
	}
	if err := json.Unmarshal(payload, &resp); err != nil {
		return "unparseable:" + string(payload)
	}
	out := map[string]interface{}{"data": nil}
	if resp.Data != nil {
		out["data"] = resp.Data["ev"]
	}
	var errs []map[string]interface{}
	for _, e := range resp.Errors {
		if p, ok := e["path"].([]interface{}); ok && len(p) > 0 {
			e["path"] = p[1:]
		}
		errs = append(errs, e)
	}
	if len(errs) > 0 {
		out["errors"] = errs
	}
	b, _ := json.Marshal(out)
	return canonical(b)
}

// goLeaked counts goroutines started by apifu.Go (incl. chain/join) during this case (not in pre)
// that are still there.
func goLeaked(pre map[int64]bool) int {
	deadline := time.Now().Add(3 * time.Second)
	stable, last := 0, -1
	for {
		n := 0
		for _, g := range dump() {
			// a goroutine still inside the harness' own function is not blocked by the library
			if !pre[g.id] && strings.Contains(g.stack, apiPkg+"Go.func1") && !strings.Contains(g.stack, "(*run).goFunc") {
				n++
			}
		}
		if n == 0 {
			return 0
		}
		if n == last {
			stable++
			if stable >= 40 {
				if os.Getenv("C15_DEBUG") != "" {
					for _, g := range dump() {
						if !pre[g.id] && strings.Contains(g.stack, apiPkg+"Go.func1") {
							fmt.Fprintf(os.Stderr, "LEAK goroutine %d [%s]%s\n", g.id, g.state, g.stack)
						}
					}
				}
				return n
			}
		} else {
			stable = 0
		}
		last = n
		if time.Now().After(deadline) {
			return n
		}
		time.Sleep(50 * time.Microsecond)
	}
}

func runCaseWS(roots []*fnode, gmp int, batchSpins [nBatch]int, events, which int) sexp.Node {
	if hangs >= maxHangs {
		return runCase(roots, gmp, batchSpins) // writes the "not run" case
	}
	b := &builder{conns: map[int]*connSpec{}}
	b.alloc(roots, -1)
	var sb strings.Builder
	writeQuery(&sb, roots)
	query := sb.String()

	rs := newRun(b.items, b.conns)
	rs.syncMode = true
	syncResp := serve(rs, query)

	altResp, hasAlt := altReference(roots, b, query, syncResp)

	prev := setGMP(gmp)
	defer setGMP(prev)

	pre := gset()
	plainQuery := events == 0 // a query (not a subscription) over the WebSocket: one execution
	if plainQuery {
		events, which = 1, 0
	}
	holder := &wsHolder{stream: make(chan *nodeObj)}
	for e := 0; e < events; e++ {
		r := newRun(b.items, b.conns)
		r.batchSpins = batchSpins
		r.holdSpan = e < events-1
		if e > 0 {
			r.prevSpan = holder.runs[e-1]
		}
		holder.runs = append(holder.runs, r)
	}
	defer func() {
		for _, r := range holder.runs {
			r.releaseSpan()
		}
	}()
	srv := httptest.NewServer(http.HandlerFunc(func(w http.ResponseWriter, req *http.Request) {
		api.ServeGraphQLWS(w, req.WithContext(context.WithValue(req.Context(), runKey, holder)))
	}))
	defer srv.Close()
	dialer := websocket.Dialer{Subprotocols: []string{"graphql-ws"}}
	conn, _, err := dialer.Dial("ws"+strings.TrimPrefix(srv.URL, "http"), nil)
	if err != nil {
		panic("harness: websocket dial: " + err.Error())
	}
	defer conn.Close()
	readType := func(want string) (wsMsg, bool) {
		for {
			conn.SetReadDeadline(time.Now().Add(10 * time.Second))
			var m wsMsg
			if err := conn.ReadJSON(&m); err != nil {
				return m, false
			}
			if m.Type == want {
				return m, true
			}
			if m.Type == "error" || m.Type == "connection_error" {
				panic("harness: websocket protocol error: " + string(m.Payload))
			}
		}
	}
	conn.WriteJSON(wsMsg{Type: "connection_init"})
	if _, ok := readType("connection_ack"); !ok {
		panic("harness: no connection_ack")
	}
	wsQuery := "subscription{ev" + query + "}"
	if plainQuery {
		wsQuery = query
	}
	start, _ := json.Marshal(map[string]interface{}{"query": wsQuery})
	conn.WriteJSON(wsMsg{Id: "1", Type: "start", Payload: start})

	hang := false
	leak := 0
	asyncResp := ""
	differing := ""
	for e := 0; e < events && !hang; e++ {
		if !plainQuery {
			select {
			case holder.stream <- &nodeObj{item: -1}:
			case <-time.After(10 * time.Second):
				hang = true
			}
		}
		var resp string
		if !hang {
			if m, ok := readType("data"); ok {
				if plainQuery {
					resp = canonical(m.Payload)
				} else {
					resp = canonicalWS(m.Payload)
				}
			} else {
				hang = true
			}
		}
		holder.runs[e].finish(hang)
		if hang {
			hangs++
			break
		}
		leak += goLeaked(pre)
		if e == which {
			asyncResp = resp
		}
		if resp != syncResp && !(hasAlt && resp == altResp) && differing == "" {
			differing = resp
		}
	}
	if differing != "" {
		asyncResp = differing
	}
	if !hang {
		conn.WriteJSON(wsMsg{Id: "1", Type: "stop"})
	}
	holder.stop()

	r := holder.runs[which]
	if hang {
		r = holder.runs[holder.nextIndex()]
	}
	r.mu.Lock()
	defer r.mu.Unlock()
	items := make([]sexp.Node, len(b.items))
	for i, it := range b.items {
		items[i] = itemNode(it)
	}
	tr := make([]sexp.Node, len(r.trace))
	for i, l := range r.trace {
		tr[i] = l.node()
	}
	probs := make([]sexp.Node, len(r.problems))
	for i, p := range r.problems {
		probs[i] = sexp.Str(p)
	}
	return sexp.T("case",
		sexp.T("gmp", sexp.Int(gmp)),
		sexp.T("ws", sexp.Int(map[bool]int{true: 0, false: events}[plainQuery])),
		sexp.T("query", sexp.Str(wsQuery)),
		sexp.T("items", sexp.L(items...)),
		sexp.T("trace", sexp.L(tr...)),
		sexp.T("delivered", sexp.L(r.deliveries...)),
		sexp.T("resp", sexp.Str(asyncResp), sexp.Str(syncResp)),
		sexp.T("respalt", altNode(altResp, hasAlt)...),
		sexp.T("leak", sexp.Int(leak)),
		sexp.T("hang", sexp.Bool(hang)),
		sexp.T("problems", sexp.L(probs...)))
}

func (h *wsHolder) nextIndex() int {
	h.mu.Lock()
	defer h.mu.Unlock()
	i := h.next - 1
	if i < 0 {
		i = 0
	}
	if i >= len(h.runs) {
		i = len(h.runs) - 1
	}
	return i
}
