package main

// One request against the real code: instrumentation, the harness-side scheduler that decides
// when each background function may finish, and the reconstruction of the linearised history
// (observed events plus the hidden steps they imply) that the Coq model replays.

import (
	"bytes"
	"context"
	"reflect"
	"runtime/pprof"
	"errors"
	"fmt"
	"runtime"
	"sort"
	"strconv"
	"strings"
	"sync"
	"time"

	"github.com/ccbrown/api-fu/graphql"

	"verifharness/internal/sexp"
)

type kindT int

const (
	kSync kindT = iota
	kGo
	kBatch
	kChain
)

const (
	mFree  = 0 // runs as soon as started, after a few Gosched
	mEarly = 1 // released at the next idle entry and waited for until it is parked on the send
	mLate  = 2 // released while the idle handler is blocked in its receive, in rank order
)

type itemT struct {
	id     int
	kind   kindT
	bkey   int
	inners []int
	parent int
	inner  bool
	ok     bool
	val    int         // value code (ok) or error code (err)
	value  interface{} // the Go value produced when ok
	mode   int
	spins  int
	rank   int
	honour bool // the Go function looks at the request context and returns its error once cancelled
	errKind  int  // failing item: the Go kind of the error value
	typedNil bool // succeeding item: the value comes with a typed-nil error
	span   bool // subscriptions: the function is held beyond its own event and released while the next event's handler is blocked
}

// where the request context is cancelled (0 = never)
const (
	cNone      = 0
	cBefore    = 1  // before the request starts
	cIdleEntry = 2  // when the idle handler is entered for the n-th time (functions may be running)
	cEarly     = 3  // after the early functions of the n-th round were released, before they are parked
	cIdleExit  = 4  // when the idle handler returns for the n-th time (between waves / after the last delivery)
	cMidLate   = 16 // while the handler is blocked in its receive, before the n-th late function is released
)

const ctxErrCode = -3

type getterSpec struct {
	item  int // inner promise item, or -1 when the getter answers synchronously
	fail  bool
	edges int
}

type connSpec struct {
	visible  int // id of the item the executor sees for the connection field (or for pageInfo when pageInfo)
	connItem int // pageInfo variant: the (sync) connection item
	pageInfo bool
	getters  []getterSpec
	chains   []int // chain/join items the library creates after the getters, in creation order
	spins    int
}

var errUnplanned = errors.New("unplanned getter call")

func errGetter(id int) error { return fmt.Errorf("e%d", id) }

type label struct {
	name string
	a    int
	its  []int
}

func (l label) node() sexp.Node {
	switch l.name {
	case "idle-enter", "flush-done", "idle-exit", "end", "cancel":
		return sexp.T(l.name)
	case "flush":
		xs := make([]sexp.Node, len(l.its))
		for i, x := range l.its {
			xs[i] = sexp.Int(x)
		}
		return sexp.T("flush", sexp.Int(l.a), sexp.L(xs...))
	}
	return sexp.T(l.name, sexp.Int(l.a))
}

type goCtl struct {
	gate     chan struct{}
	released bool
	started  bool
	goid     int64
}

type run struct {
	items      []*itemT
	conns      map[int]*connSpec
	batchSpins [nBatch]int
	syncMode   bool
	altSync    bool // syncMode only: a failing getter that answers through a promise in the real run does not fail here

	// executor-thread state
	curConn    *connSpec
	getterCall int
	connByObj  map[interface{}]*connSpec
	execGoid   int64

	mu         sync.Mutex
	trace      []label
	prom       map[int]graphql.ResolvePromise
	created    map[int]bool
	finished   map[int]bool
	arrived    map[int]bool
	recvd      map[int]bool // go / chain items whose resolution the idle handler is known to have received
	flushed    map[int]bool
	delivered  map[int]bool // visible promises found filled
	consumed   map[int]bool
	abandoned  map[int]bool
	ctl        map[int]*goCtl
	deliveries []sexp.Node
	roundFlush bool
	ended      bool
	problems   []string

	cancelKind int
	cancelN    int
	cancelFn   context.CancelFunc
	cancelled  bool
	idleCalls  int
	ctxErr     map[int]bool // Go items whose function returned the context's error

	mx    *mxPlan // connection matrix cases
	mxCur *mxCall

	holdSpan bool // finish does not release the span functions
	prevSpan *run // the previous event's run, whose span functions this event releases
}

// doCancel cancels the request context (once) and puts the event into the history.
func (r *run) doCancel() {
	r.mu.Lock()
	if r.cancelled || r.cancelFn == nil {
		r.mu.Unlock()
		return
	}
	r.cancelled = true
	r.logf("cancel", 0)
	r.mu.Unlock()
	r.cancelFn()
}

func newRun(items []*itemT, conns map[int]*connSpec) *run {
	r := &run{items: items, conns: conns, connByObj: map[interface{}]*connSpec{},
		prom: map[int]graphql.ResolvePromise{}, created: map[int]bool{}, finished: map[int]bool{}, arrived: map[int]bool{},
		recvd: map[int]bool{}, flushed: map[int]bool{}, delivered: map[int]bool{}, consumed: map[int]bool{},
		abandoned: map[int]bool{}, ctl: map[int]*goCtl{}, ctxErr: map[int]bool{}}
	for _, it := range items {
		if it.kind == kGo {
			r.ctl[it.id] = &goCtl{gate: make(chan struct{})}
		}
	}
	return r
}

func (r *run) valueOf(it *itemT) (interface{}, error) {
	if !it.ok {
		return nil, errOfKind(it.errKind, it.val)
	}
	if it.typedNil {
		return it.value, (*errPtr)(nil)
	}
	return it.value, nil
}

// isNilErr: the executor's notion of "no error": nil, or a nil pointer
func isNilErr(err error) bool {
	if err == nil {
		return true
	}
	rv := reflect.ValueOf(err)
	return rv.Kind() == reflect.Ptr && rv.IsNil()
}

func (r *run) logf(name string, a int) {
	r.trace = append(r.trace, label{name: name, a: a})
}

func (r *run) setProm(id int, p graphql.ResolvePromise) {
	r.mu.Lock()
	r.prom[id] = p
	r.mu.Unlock()
}

// noteCreate: a resolver (or getter) for item it is being invoked on the executor thread.  If
// its parent is a promise item, the executor must have taken the parent's result.
func (r *run) noteCreate(it *itemT) {
	r.mu.Lock()
	defer r.mu.Unlock()
	if p := it.parent; p >= 0 {
		pi := r.items[p]
		if pi.kind != kSync && !r.consumed[p] {
			r.consumed[p] = true
			r.logf("consume", p)
		}
	}
	r.created[it.id] = true
	r.logf("create", it.id)
}

// noteChains: the connection resolver returned v; when it is a promise, the library wrapped the
// getters' promises into the planned chain/join items.
func (r *run) noteChains(spec *connSpec, v interface{}) {
	p, isProm := v.(graphql.ResolvePromise)
	if !isProm {
		if !spec.pageInfo {
			r.noteCreate(r.items[spec.visible])
		}
		return
	}
	for _, c := range spec.chains {
		r.noteCreate(r.items[c])
	}
	if len(spec.chains) == 0 {
		r.mu.Lock()
		r.problems = append(r.problems, "connection returned a promise the case did not plan")
		r.mu.Unlock()
		return
	}
	r.setProm(spec.chains[len(spec.chains)-1], p)
}

func (r *run) logFlush(k int, ids []int) {
	r.mu.Lock()
	r.trace = append(r.trace, label{name: "flush", a: k, its: append([]int(nil), ids...)})
	for _, id := range ids {
		r.flushed[id] = true
	}
	r.roundFlush = true
	r.mu.Unlock()
}

func (r *run) goFunc(it *itemT, ctx context.Context) func() (interface{}, error) {
	c := r.ctl[it.id]
	return func() (interface{}, error) {
		id := curGoid()
		r.mu.Lock()
		c.goid = id
		c.started = true
		r.mu.Unlock()
		if it.mode == mFree {
			spin(it.spins)
		} else if it.honour {
			select {
			case <-c.gate:
			case <-ctx.Done():
			}
		} else {
			<-c.gate
		}
		v, err := r.valueOf(it)
		r.mu.Lock()
		if it.honour && ctx.Err() != nil {
			v, err = nil, fmt.Errorf("e%d", ctxErrCode)
			r.ctxErr[it.id] = true
		}
		r.finished[it.id] = true
		r.logf("finish", it.id)
		r.mu.Unlock()
		return v, err
	}
}

func (r *run) release(id int) {
	c := r.ctl[id]
	r.mu.Lock()
	was := c.released
	c.released = true
	r.mu.Unlock()
	if !was {
		close(c.gate)
	}
}

// ---- goroutine dumps --------------------------------------------------------------------------

type gInfo struct {
	id    int64
	state string
	stack string
}

var dumpBuf = make([]byte, 1<<20)
var dumpMu sync.Mutex

func dump() []gInfo {
	dumpMu.Lock()
	defer dumpMu.Unlock()
	var n int
	for {
		n = runtime.Stack(dumpBuf, true)
		if n < len(dumpBuf) {
			break
		}
		dumpBuf = make([]byte, 2*len(dumpBuf))
	}
	var out []gInfo
	for _, blk := range bytes.Split(dumpBuf[:n], []byte("\n\n")) {
		if !bytes.HasPrefix(blk, []byte("goroutine ")) {
			continue
		}
		nl := bytes.IndexByte(blk, '\n')
		if nl < 0 {
			nl = len(blk)
		}
		head := string(blk[len("goroutine "):nl])
		sp := strings.IndexByte(head, ' ')
		if sp < 0 {
			continue
		}
		id, _ := strconv.ParseInt(head[:sp], 10, 64)
		st := head[sp+1:]
		st = strings.TrimSuffix(strings.TrimPrefix(st, "["), "]:")
		if c := strings.IndexByte(st, ','); c >= 0 {
			st = st[:c]
		}
		out = append(out, gInfo{id: id, state: st, stack: string(blk[nl:])})
	}
	return out
}

func curGoid() int64 {
	var b [64]byte
	n := runtime.Stack(b[:], false)
	s := string(b[len("goroutine "):n])
	sp := strings.IndexByte(s, ' ')
	id, _ := strconv.ParseInt(s[:sp], 10, 64)
	return id
}

const apiPkg = "github.com/ccbrown/api-fu."

// parkedOnSend: f() has returned and the goroutine started by apifu.Go waits at the hand-over of
// its resolution (a bare channel send in the pinned code, a select in the fixed code)
func parkedOnSend(g gInfo) bool {
	return (g.state == "chan send" || g.state == "select") && strings.Contains(g.stack, apiPkg+"Go.func1") &&
		!strings.Contains(g.stack, "(*run).goFunc")
}

func (r *run) waitParked(ids []int) {
	deadline := time.Now().Add(5 * time.Second)
	for {
		want := map[int64]bool{}
		r.mu.Lock()
		ready := true
		for _, id := range ids {
			c := r.ctl[id]
			if !c.started || !r.finished[id] {
				ready = false
			}
			want[c.goid] = true
		}
		r.mu.Unlock()
		if ready {
			n := 0
			for _, g := range dump() {
				if want[g.id] && parkedOnSend(g) {
					n++
				}
			}
			if n == len(ids) {
				return
			}
		}
		if time.Now().After(deadline) {
			panic("harness: released goroutines did not reach the send")
		}
		runtime.Gosched()
	}
}

func (r *run) executorBlockedInReceive() bool {
	for _, g := range dump() {
		if g.id == r.execGoid {
			return g.state == "chan receive" && strings.Contains(g.stack, "IdleHandler")
		}
	}
	return false
}

// ---- the idle handler, wrapped ------------------------------------------------------------------

// inferTaken: on the executor thread, outside the idle handler.  A visible promise that was found
// filled earlier and is empty now has been taken by the executor's poll; one that is still filled
// will never be polled again (abandoned).  atEnd: everything not taken is abandoned.
func (r *run) inferTaken(atEnd bool) {
	for _, it := range r.items {
		id := it.id
		if it.kind == kSync || it.inner || !r.created[id] || r.consumed[id] || r.abandoned[id] {
			continue
		}
		p := r.prom[id]
		if r.delivered[id] && p != nil && len(p) == 0 {
			r.consumed[id] = true
			r.logf("consume", id)
		} else if r.delivered[id] || atEnd {
			r.abandoned[id] = true
			r.logf("abandon", id)
		}
	}
}

func (r *run) idle(orig func()) {
	r.mu.Lock()
	call := r.idleCalls
	r.idleCalls++
	r.mu.Unlock()
	if r.cancelKind == cIdleEntry && call == r.cancelN {
		r.doCancel()
	}
	r.mu.Lock()
	r.inferTaken(false)
	var early, late []int
	for _, it := range r.items {
		if it.kind == kGo && r.created[it.id] && !r.ctl[it.id].released {
			switch it.mode {
			case mEarly:
				early = append(early, it.id)
			case mLate:
				late = append(late, it.id)
			}
		}
	}
	r.mu.Unlock()
	for _, id := range early {
		r.release(id)
	}
	if r.cancelKind == cEarly && call == r.cancelN {
		r.doCancel()
	}
	if len(early) > 0 {
		r.waitParked(early)
		r.mu.Lock()
		for _, id := range early {
			r.arrived[id] = true
			r.logf("arrive", id)
		}
		r.mu.Unlock()
	}
	r.mu.Lock()
	r.roundFlush = false
	r.logf("idle-enter", 0)
	r.mu.Unlock()

	sort.Slice(late, func(i, j int) bool { return r.items[late[i]].rank < r.items[late[j]].rank })
	stop := make(chan struct{})
	done := make(chan struct{})
	go r.lateHelper(late, stop, done)
	orig()
	close(stop)
	<-done
	r.afterIdle()
	if r.cancelKind == cIdleExit && call == r.cancelN {
		r.doCancel()
	}
}

// lateHelper releases the held functions one at a time, each when the idle handler is seen blocked
// in its receive (or after a bounded number of looks, so that nothing is held for ever).
func (r *run) lateHelper(late []int, stop, done chan struct{}) {
	defer close(done)
	stopped := func() bool {
		select {
		case <-stop:
			return true
		default:
			return false
		}
	}
	if r.prevSpan != nil {
		for looks := 0; looks < 2000 && !stopped() && !r.executorBlockedInReceive(); looks++ {
			runtime.Gosched()
		}
		r.prevSpan.releaseSpan()
	}
	for j, id := range late {
		if r.cancelKind == cMidLate && j == r.cancelN {
			for looks := 0; looks < 200 && !stopped() && !r.executorBlockedInReceive(); looks++ {
				runtime.Gosched()
			}
			r.doCancel()
		}
		for looks := 0; looks < 200; looks++ {
			if stopped() {
				return
			}
			if r.executorBlockedInReceive() {
				break
			}
			runtime.Gosched()
		}
		if stopped() {
			return
		}
		r.release(id)
		for {
			r.mu.Lock()
			f := r.finished[id]
			r.mu.Unlock()
			if f || stopped() {
				break
			}
			runtime.Gosched()
		}
	}
}

func (r *run) declaredErr(id int) bool {
	it := r.items[id]
	if it.kind == kChain {
		for _, q := range it.inners {
			if r.declaredErr(q) {
				return true
			}
		}
	}
	return !it.ok || r.ctxErr[id]
}

// ensureDelivered emits the hidden steps that must have happened for inner promise q to hold its
// result; ensureChainFinished those for chain/join c to have reached its send.
func (r *run) ensureDelivered(q int) {
	it := r.items[q]
	switch it.kind {
	case kGo:
		if !r.recvd[q] {
			if !r.arrived[q] {
				r.arrived[q] = true
				r.logf("arrive", q)
			}
			r.recvd[q] = true
			r.logf("recv", q)
		}
	case kChain:
		if !r.recvd[q] {
			r.ensureChainFinished(q)
			r.recvd[q] = true
			r.logf("recv", q)
		}
	}
}

func (r *run) ensureChainFinished(c int) {
	if r.arrived[c] {
		return
	}
	for _, q := range r.items[c].inners {
		r.ensureDelivered(q)
		r.logf("read", c)
		if r.declaredErr(q) {
			break
		}
	}
	r.arrived[c] = true
	r.logf("arrive", c)
}

func encodeResult(it *itemT, v graphql.ResolveResult) sexp.Node {
	if !isNilErr(v.Error) {
		msg := v.Error.Error()
		if strings.HasPrefix(msg, "e") {
			if n, err := strconv.Atoi(msg[1:]); err == nil {
				return sexp.T("err", sexp.Int(n))
			}
		}
		return sexp.T("err", sexp.Int(-2))
	}
	switch x := v.Value.(type) {
	case nil:
		return sexp.T("ok", sexp.Int(-1))
	case int:
		return sexp.T("ok", sexp.Int(x))
	case *nodeObj:
		if x == nil {
			return sexp.T("ok", sexp.Int(-1))
		}
		return sexp.T("ok", sexp.Int(x.item))
	}
	// a connection object (unexported type): only "a value arrived" is visible
	return sexp.T("ok", sexp.Int(it.id))
}

// chainGoroutines counts the goroutines started through apifu.Go for the connection with this label
// (the library's chain / join goroutines and the getters' own) that still exist, from the labelled goroutine
// profile (the only dump that shows pprof labels).
func chainGoroutines(label string) int {
	var buf bytes.Buffer
	pprof.Lookup("goroutine").WriteTo(&buf, 1)
	n := 0
	for _, blk := range strings.Split(buf.String(), "\n\n") {
		if !strings.Contains(blk, "\"c15conn\":\""+label+"\"") {
			continue
		}
		if !strings.Contains(blk, apiPkg+"Go.func1") {
			continue
		}
		k, _ := strconv.Atoi(strings.TrimSpace(blk[:strings.IndexByte(blk, '@')]))
		n += k
	}
	return n
}

func (r *run) goroutineGone(goid int64) bool {
	for _, g := range dump() {
		if g.id == goid {
			return false
		}
	}
	return true
}

// observeInnerDelivery: the handler returned without a flush and without filling a promise the
// executor holds, so (C15_idle_round_fulfils) it filled an inner promise and returned instead of
// looping.  Which one is observed, not inferred: a Go getter whose goroutine has ended, or the
// innermost chain / join of a connection whose labelled goroutine has ended.  Called without r.mu.
func (r *run) observeInnerDelivery() {
	for try := 0; try < 400; try++ {
		r.mu.Lock()
		for _, it := range r.items {
			if it.kind == kGo && it.inner && r.created[it.id] && r.finished[it.id] && !r.recvd[it.id] {
				goid := r.ctl[it.id].goid
				r.mu.Unlock()
				gone := r.goroutineGone(goid)
				r.mu.Lock()
				if gone {
					if !r.arrived[it.id] {
						r.arrived[it.id] = true
						r.logf("arrive", it.id)
					}
					r.recvd[it.id] = true
					r.logf("recv", it.id)
					r.mu.Unlock()
					return
				}
			}
		}
		for _, spec := range r.conns {
			pending := 0
			first := -1
			for _, c := range spec.chains {
				if r.created[c] && !r.recvd[c] {
					if first < 0 {
						first = c
					}
					pending++
				}
			}
			// only inner chains end a round this way; the outermost one is visible to the executor
			if pending < 2 || first < 0 || !r.items[first].inner {
				continue
			}
			// getter goroutines of this connection that have not handed over yet exist as well
			for _, g := range spec.getters {
				if g.item >= 0 && r.items[g.item].kind == kGo && r.created[g.item] && !r.recvd[g.item] {
					pending++
				}
			}
			r.mu.Unlock()
			alive := chainGoroutines(connLabel(spec))
			r.mu.Lock()
			if alive < pending {
				// the missing goroutine may be a getter's that ended between the two looks
				getterGone := false
				for _, g := range spec.getters {
					if g.item >= 0 && r.items[g.item].kind == kGo && r.created[g.item] && r.finished[g.item] && !r.recvd[g.item] {
						goid := r.ctl[g.item].goid
						r.mu.Unlock()
						gone := r.goroutineGone(goid)
						r.mu.Lock()
						if gone {
							getterGone = true
						}
					}
				}
				if getterGone {
					continue // the next try attributes it to the getter
				}
				r.ensureChainFinished(first)
				r.recvd[first] = true
				r.logf("recv", first)
				r.mu.Unlock()
				return
			}
		}
		r.mu.Unlock()
		runtime.Gosched()
	}
}

// afterIdle: on the executor thread, right after the real idle handler returned.
func (r *run) afterIdle() {
	r.mu.Lock()
	if !r.roundFlush {
		visible := false
		for _, it := range r.items {
			if it.kind == kSync || it.inner || !r.created[it.id] || r.delivered[it.id] {
				continue
			}
			if p := r.prom[it.id]; p != nil && len(p) == 1 {
				visible = true
			}
		}
		if !visible {
			r.mu.Unlock()
			r.observeInnerDelivery()
			r.mu.Lock()
		}
	}
	defer r.mu.Unlock()
	if r.roundFlush {
		r.logf("flush-done", 0)
	}
	var got []int
	for _, it := range r.items {
		id := it.id
		if it.kind == kSync || it.inner || !r.created[id] || r.delivered[id] {
			continue
		}
		if p := r.prom[id]; p != nil && len(p) == 1 {
			v := <-p
			p <- v
			r.delivered[id] = true
			r.deliveries = append(r.deliveries, sexp.L(sexp.Int(id), encodeResult(it, v)))
			got = append(got, id)
		}
	}
	// deliveries to chained (inner) promises first: each makes the handler loop again
	for _, id := range got {
		if r.items[id].kind == kChain {
			r.ensureChainFinished(id)
		}
	}
	for _, it := range r.items {
		if it.kind == kGo && it.inner && r.arrived[it.id] && !r.recvd[it.id] {
			r.recvd[it.id] = true
			r.logf("recv", it.id)
		}
	}
	for _, id := range got {
		switch r.items[id].kind {
		case kGo:
			if !r.arrived[id] {
				r.arrived[id] = true
				r.logf("arrive", id)
			}
			r.recvd[id] = true
			r.logf("recv", id)
		case kChain:
			r.recvd[id] = true
			r.logf("recv", id)
		}
	}
	r.logf("idle-exit", 0)
}

// finish: the request has returned (or the watchdog fired).
func (r *run) finish(hang bool) {
	r.mu.Lock()
	if !hang {
		r.inferTaken(true)
		r.logf("end", 0)
	}
	r.ended = true
	r.mu.Unlock()
	for id := range r.ctl {
		if r.holdSpan && r.items[id].span {
			continue
		}
		r.release(id)
	}
}

// releaseSpan lets the held functions of an earlier event return and gives their goroutines time to
// reach the hand-over.
func (r *run) releaseSpan() {
	var ids []int
	for id := range r.ctl {
		if r.items[id].span {
			r.mu.Lock()
			started := r.ctl[id].started
			r.mu.Unlock()
			r.release(id)
			if started {
				ids = append(ids, id)
			}
		}
	}
	for _, id := range ids {
		for looks := 0; looks < 2000; looks++ {
			r.mu.Lock()
			f := r.finished[id]
			r.mu.Unlock()
			if f {
				break
			}
			runtime.Gosched()
		}
	}
	spin(200)
}

// leaked counts goroutines (not in pre) that are still inside api-fu after the request.
func leaked(pre map[int64]bool) int {
	deadline := time.Now().Add(3 * time.Second)
	stable := 0
	last := -1
	for {
		n, hard := 0, 0
		for _, g := range dump() {
			if pre[g.id] || !strings.Contains(g.stack, apiPkg) {
				continue
			}
			n++
			// a bare send on asyncResolutions after the request returned can never complete
			if g.state == "chan send" && strings.Contains(g.stack, apiPkg+"Go.func1") && !strings.Contains(g.stack, "(*run).goFunc") {
				hard++
			}
			if g.state == "chan receive" && (strings.Contains(g.stack, apiPkg+"chain.func1") || strings.Contains(g.stack, apiPkg+"join.func1")) {
				hard++
			}
		}
		if n == 0 {
			return 0
		}
		if n == hard && n == last {
			stable++
			if stable >= 20 {
				return n
			}
		} else {
			stable = 0
		}
		last = n
		if time.Now().After(deadline) {
			return n
		}
		runtime.Gosched()
		time.Sleep(50 * time.Microsecond)
	}
}

func gset() map[int64]bool {
	m := map[int64]bool{}
	for _, g := range dump() {
		m[g.id] = true
	}
	return m
}
