package main

// The one API all cases run against.  Every field takes the id of the work item it stands for
// (argument i); what the resolver does (synchronous value, apifu.Go, apifu.Batch, connection with
// promise-returning getters) and what it produces is looked up in the case that is stored in the
// request context.

import (
	"context"
	"errors"
	"runtime/pprof"
	"strconv"
	"reflect"
	"runtime"
	"time"

	apifu "github.com/ccbrown/api-fu"
	"github.com/ccbrown/api-fu/graphql"
)

type runKeyT int

var runKey runKeyT

func getRun(ctx context.Context) *run { return ctx.Value(runKey).(*run) }

var errNoSubscription = errors.New("subscriptions are not supported using this protocol")

// nodeObj is the Go value of every object-typed field.  edge is added to the i argument of the
// fields below it (the per-edge copies of a connection's node sub-selection have consecutive ids).
type nodeObj struct {
	edge int
	item int
}

type edgeVal struct {
	idx  int
	nano int64
}

const nBatch = 3

var batchResolvers [nBatch]func(graphql.FieldContext) (interface{}, error)

func itemID(ctx graphql.FieldContext) int {
	off := 0
	if o, ok := ctx.Object.(*nodeObj); ok && o != nil {
		off = o.edge
	}
	return ctx.Arguments["i"].(int) + off
}

func spin(n int) {
	for i := 0; i < n; i++ {
		runtime.Gosched()
	}
}

func plainResolve(ctx graphql.FieldContext) (interface{}, error) {
	r := getRun(ctx.Context)
	it := r.items[itemID(ctx)]
	if r.syncMode {
		return r.valueOf(it)
	}
	r.noteCreate(it)
	switch it.kind {
	case kGo:
		ch := apifu.Go(ctx.Context, r.goFunc(it, ctx.Context))
		r.setProm(it.id, ch)
		return ch, nil
	case kBatch:
		v, err := batchResolvers[it.bkey](ctx)
		r.setProm(it.id, v.(graphql.ResolvePromise))
		return v, err
	}
	return r.valueOf(it)
}

func batchFunc(k int) func([]graphql.FieldContext) []graphql.ResolveResult {
	return func(ctxs []graphql.FieldContext) []graphql.ResolveResult {
		r := getRun(ctxs[0].Context)
		ids := make([]int, len(ctxs))
		for i, c := range ctxs {
			ids[i] = itemID(c)
		}
		r.logFlush(k, ids)
		spin(r.batchSpins[k])
		out := make([]graphql.ResolveResult, len(ctxs))
		for i, id := range ids {
			v, err := r.valueOf(r.items[id])
			out[i] = graphql.ResolveResult{Value: v, Error: err}
		}
		return out
	}
}

// getter is what a connection's ResolveEdges / EdgeGetter does for its call number r.getterCall.
func getter(ctx graphql.FieldContext) (interface{}, error) {
	r := getRun(ctx.Context)
	spec := r.curConn
	call := r.getterCall
	r.getterCall++
	if call >= len(spec.getters) {
		// more getter calls than the case planned for: make it visible as a failing field
		return nil, errUnplanned
	}
	g := spec.getters[call]
	if g.item < 0 { // synchronous getter
		if g.fail {
			return nil, errGetter(spec.visible)
		}
		return edgesOf(spec, g.edges), nil
	}
	it := r.items[g.item]
	if r.syncMode {
		// only for the field with the two competing failures (first getter through a promise, second
		// synchronously): everywhere else the alternative reference is the reference
		if r.altSync && !it.ok && call == 0 && len(spec.getters) == 2 && spec.getters[1].item < 0 && spec.getters[1].fail {
			return edgesOf(spec, g.edges), nil
		}
		return r.valueOf(it)
	}
	r.noteCreate(it)
	if it.kind == kBatch {
		c2 := ctx
		c2.Object = nil
		c2.Arguments = map[string]interface{}{"i": it.id}
		v, err := batchResolvers[it.bkey](c2)
		r.setProm(it.id, v.(graphql.ResolvePromise))
		return v, err
	}
	ch := apifu.Go(ctx.Context, r.goFunc(it, ctx.Context))
	r.setProm(it.id, ch)
	return ch, nil
}

func connLabel(spec *connSpec) string {
	if len(spec.chains) > 0 {
		return "c" + strconv.Itoa(spec.chains[0])
	}
	return "none"
}

func edgesOf(spec *connSpec, n int) []edgeVal {
	out := make([]edgeVal, n)
	for i := range out {
		out[i] = edgeVal{idx: i, nano: 2000 + int64(i)}
	}
	return out
}

// connResolve wraps the Resolve of a connection field: it tells the getter which connection is
// being resolved and records the chain/join items the library created around the getter's promises.
func connResolve(orig func(graphql.FieldContext) (interface{}, error)) func(graphql.FieldContext) (interface{}, error) {
	return func(ctx graphql.FieldContext) (interface{}, error) {
		r := getRun(ctx.Context)
		spec := r.conns[itemID(ctx)]
		r.curConn, r.getterCall = spec, 0
		if !r.syncMode && spec.pageInfo {
			r.noteCreate(r.items[spec.connItem])
		}
		var v interface{}
		var err error
		// the goroutines the library starts for this connection (chain / join) inherit the label
		pprof.Do(ctx.Context, pprof.Labels("c15conn", connLabel(spec)), func(context.Context) { v, err = orig(ctx) })
		if spec.pageInfo {
			if v != nil {
				r.connByObj[v] = spec
			}
			return v, err
		}
		if r.syncMode {
			return v, err
		}
		r.noteChains(spec, v)
		return v, err
	}
}

func pageInfoResolve(orig func(graphql.FieldContext) (interface{}, error)) func(graphql.FieldContext) (interface{}, error) {
	return func(ctx graphql.FieldContext) (interface{}, error) {
		r := getRun(ctx.Context)
		spec := r.connByObj[ctx.Object]
		if spec == nil {
			return orig(ctx)
		}
		r.curConn, r.getterCall = spec, 0
		var v interface{}
		var err error
		pprof.Do(ctx.Context, pprof.Labels("c15conn", connLabel(spec)), func(context.Context) { v, err = orig(ctx) })
		if !r.syncMode {
			r.noteChains(spec, v)
		}
		return v, err
	}
}

func nodeField(nodeType graphql.Type) *graphql.FieldDefinition {
	return &graphql.FieldDefinition{
		Type: nodeType,
		Resolve: func(ctx graphql.FieldContext) (interface{}, error) {
			return &nodeObj{edge: ctx.Object.(edgeVal).idx, item: -1}, nil
		},
	}
}

var afterCursor string

func buildAPI() *apifu.API {
	for k := 0; k < nBatch; k++ {
		batchResolvers[k] = apifu.Batch(batchFunc(k))
	}
	nodeType := &graphql.ObjectType{Name: "N", Fields: map[string]*graphql.FieldDefinition{}}
	iArg := func() map[string]*graphql.InputValueDefinition {
		return map[string]*graphql.InputValueDefinition{"i": {Type: graphql.NewNonNullType(graphql.IntType)}}
	}
	fields := map[string]*graphql.FieldDefinition{}
	for _, k := range []string{"s", "g", "b0", "b1", "b2"} {
		fields[k] = &graphql.FieldDefinition{Type: nodeType, Arguments: iArg(), Resolve: plainResolve}
		fields[k+"N"] = &graphql.FieldDefinition{Type: graphql.NewNonNullType(nodeType), Arguments: iArg(), Resolve: plainResolve}
		fields["l"+k] = &graphql.FieldDefinition{Type: graphql.IntType, Arguments: iArg(), Resolve: plainResolve}
		fields["l"+k+"N"] = &graphql.FieldDefinition{Type: graphql.NewNonNullType(graphql.IntType), Arguments: iArg(), Resolve: plainResolve}
	}
	less := func(a, b interface{}) bool { return a.(int) < b.(int) }
	conn := apifu.Connection(&apifu.ConnectionConfig{
		NamePrefix: "C",
		Arguments:  iArg(),
		CursorType: reflect.TypeOf(0),
		EdgeCursor: func(e interface{}) interface{} {
			return e.(edgeVal).idx
		},
		ResolveEdges: func(ctx graphql.FieldContext, after, before interface{}, limit int) (interface{}, func(a, b interface{}) bool, error) {
			v, err := getter(ctx)
			return v, less, err
		},
		EdgeFields: map[string]*graphql.FieldDefinition{"node": nodeField(nodeType)},
	})
	conn.Resolve = connResolve(conn.Resolve)
	pi := conn.Type.(*graphql.ObjectType).Fields["pageInfo"]
	pi.Resolve = pageInfoResolve(pi.Resolve)
	fields["c"] = conn
	connN := *conn
	connN.Type = graphql.NewNonNullType(conn.Type)
	fields["cN"] = &connN

	tconn := apifu.TimeBasedConnection(&apifu.TimeBasedConnectionConfig{
		NamePrefix: "T",
		Arguments:  iArg(),
		EdgeCursor: func(e interface{}) apifu.TimeBasedCursor {
			ev := e.(edgeVal)
			return apifu.NewTimeBasedCursor(time.Unix(0, ev.nano), string(rune('a'+ev.idx)))
		},
		EdgeGetter: func(ctx graphql.FieldContext, minTime, maxTime time.Time, limit int) (interface{}, error) {
			return getter(ctx)
		},
		EdgeFields: map[string]*graphql.FieldDefinition{"node": nodeField(nodeType)},
	})
	tconn.Resolve = connResolve(tconn.Resolve)
	fields["t"] = tconn
	tconnN := *tconn
	tconnN.Type = graphql.NewNonNullType(tconn.Type)
	fields["tN"] = &tconnN

	addMatrixFields(fields, iArg, nodeType)

	for n, f := range fields {
		nodeType.Fields[n] = f
	}
	cfg := &apifu.Config{}
	for n, f := range fields {
		cfg.AddQueryField(n, f)
	}
	// public hook: the harness sees every entry into and return from the request's idle handler
	cfg.AddSubscription("ev", &graphql.FieldDefinition{
		Type: nodeType,
		Resolve: func(ctx graphql.FieldContext) (interface{}, error) {
			if ctx.IsSubscribe {
				h := ctx.Context.Value(runKey).(*wsHolder)
				return &apifu.SubscriptionSourceStream{EventChannel: h.stream, Stop: h.stop}, nil
			} else if ctx.Object != nil {
				return ctx.Object, nil
			}
			return nil, errNoSubscription
		},
	})
	cfg.Execute = func(req *graphql.Request, info *apifu.RequestInfo) *graphql.Response {
		var r *run
		switch v := req.Context.Value(runKey).(type) {
		case *run:
			r = v
		case *wsHolder: // one execution per subscription event, each with its own run
			r = v.take()
			req.Context = context.WithValue(req.Context, runKey, r)
		}
		if !r.syncMode {
			orig := req.IdleHandler
			r.execGoid = curGoid()
			req.IdleHandler = func() { r.idle(orig) }
		}
		return graphql.Execute(req)
	}
	api, err := apifu.NewAPI(cfg)
	if err != nil {
		panic(err)
	}
	var err2 error
	afterCursor, err2 = apifu.SerializeCursor(apifu.NewTimeBasedCursor(time.Unix(0, 1000), "a"))
	if err2 != nil {
		panic(err2)
	}
	return api
}
