// c15: queries mixing synchronous, apifu.Go and apifu.Batch resolvers, nested objects (work is
// revealed in waves), connections whose getters return promises (chain / join), failing fields
// next to pending work — executed by the real code under a harness-chosen completion order, with
// every entry into the idle handler, every batch call, every delivered result and the goroutines
// left behind observed.  One s-expression per case; the Coq side replays the history.
package main

import (
	"context"
	"encoding/json"
	"fmt"
	"net/http"
	"net/http/httptest"
	"runtime"
	"sort"
	"strings"
	"time"

	apifu "github.com/ccbrown/api-fu"

	"verifharness/internal/hx"
	"verifharness/internal/rng"
	"verifharness/internal/sexp"
)

// ---- the logical query tree -------------------------------------------------------------------

type fnode struct {
	kind     kindT // kSync / kGo / kBatch for plain fields
	bkey     int
	leaf     bool
	nonnull  bool
	outcome  int // 0 ok, 1 error, 2 null
	mode     int
	spins    int
	rank     int
	honour   bool
	span     bool
	errKind  int
	typedNil bool
	children []*fnode
	conn     *cnode
	id       int
}

type gmode struct {
	kind   kindT // kSync / kGo / kBatch
	bkey   int
	fail   bool
	mode   int
	spins  int
	rank   int
	orphan bool
}

type cnode struct {
	variant int // 0 Connection, 1 TimeBasedConnection, 2 Connection(first:0){pageInfo}
	after   bool
	getters []gmode
	edges   int
	tmpl    []*fnode // leaf fields selected below edges.node, one item per edge each
	spins   int
}

type builder struct {
	items []*itemT
	conns map[int]*connSpec
}

func (b *builder) add(it *itemT) int {
	it.id = len(b.items)
	b.items = append(b.items, it)
	return it.id
}

func plainItem(n *fnode, parent int) *itemT {
	it := &itemT{kind: n.kind, bkey: n.bkey, parent: parent, ok: n.outcome != 1, mode: n.mode, spins: n.spins, rank: n.rank, honour: n.honour, span: n.span, errKind: n.errKind, typedNil: n.typedNil}
	return it
}

func (b *builder) alloc(nodes []*fnode, parent int) {
	for _, n := range nodes {
		if n.conn != nil {
			b.allocConn(n, parent)
			continue
		}
		it := plainItem(n, parent)
		id := b.add(it)
		n.id = id
		switch {
		case n.outcome == 1:
			it.val = id
			if !carriesID(n.errKind) {
				it.val = fixedErrCode(n.errKind)
			}
		case n.outcome == 2:
			it.val, it.value = -1, nil
		case n.leaf:
			it.val, it.value = 100+id, 100+id
		default:
			it.val, it.value = id, &nodeObj{item: id}
		}
		b.alloc(n.children, id)
	}
}

func (b *builder) allocConn(n *fnode, parent int) {
	c := n.conn
	spec := &connSpec{spins: c.spins}
	connParent := parent
	if c.variant == 2 {
		// the connection itself resolves synchronously; the getter runs below pageInfo
		ci := &itemT{kind: kSync, parent: parent, ok: true}
		id := b.add(ci)
		ci.val = id
		n.id = id
		spec.pageInfo, spec.connItem = true, id
		connParent = id
	}
	var proms []int
	failed := false
	for gi, g := range c.getters {
		gs := getterSpec{item: -1, edges: 0}
		if c.variant != 1 || gi == len(c.getters)-1 {
			gs.edges = c.edges
		}
		if failed {
			spec.getters = append(spec.getters, gs)
			continue
		}
		if g.kind == kSync {
			gs.fail = g.fail
			if g.fail {
				failed = true
			}
		} else {
			it := &itemT{kind: g.kind, bkey: g.bkey, parent: connParent, inner: true, ok: !g.fail, mode: g.mode, spins: g.spins, rank: g.rank}
			id := b.add(it)
			if g.fail {
				it.val = id
			} else {
				it.val, it.value = id, edgesOf(spec, gs.edges)
			}
			gs.item = id
			proms = append(proms, id)
		}
		spec.getters = append(spec.getters, gs)
	}
	switch {
	case failed:
		// the resolver fails synchronously; promises already obtained are orphans nobody reads
		for _, q := range proms {
			b.items[q].inner = false
		}
		if c.variant == 2 {
			spec.visible = -1
		} else {
			it := &itemT{kind: kSync, parent: parent, ok: false}
			id := b.add(it)
			it.val = id
			n.id = id
			spec.visible = id
		}
	case len(proms) == 0:
		if c.variant == 2 {
			spec.visible = -1
		} else {
			it := &itemT{kind: kSync, parent: parent, ok: true}
			id := b.add(it)
			it.val = id
			n.id = id
			spec.visible = id
		}
	default:
		inner := proms
		if c.variant == 1 { // join, then chain
			j := &itemT{kind: kChain, inners: inner, parent: connParent, inner: true, ok: true}
			jid := b.add(j)
			j.val = jid
			spec.chains = append(spec.chains, jid)
			inner = []int{jid}
		}
		ch := &itemT{kind: kChain, inners: inner, parent: connParent, inner: c.variant == 2, ok: true}
		cid := b.add(ch)
		ch.val = cid
		spec.chains = append(spec.chains, cid)
		if c.variant == 2 { // chain(chain(getter promise))
			ch2 := &itemT{kind: kChain, inners: []int{cid}, parent: connParent, ok: true}
			c2 := b.add(ch2)
			ch2.val = c2
			spec.chains = append(spec.chains, c2)
			cid = c2
		} else {
			n.id = cid
		}
		spec.visible = cid
	}
	if c.variant == 2 {
		b.conns[spec.connItem] = spec
		return
	}
	b.conns[spec.visible] = spec
	// one copy of every node-level field per edge
	for _, t := range c.tmpl {
		t.id = len(b.items)
		for e := 0; e < c.edges; e++ {
			it := plainItem(t, spec.visible)
			id := b.add(it)
			switch {
			case t.outcome == 1:
				it.val = id
			case t.outcome == 2:
				it.val, it.value = -1, nil
			default:
				it.val, it.value = 100+id, 100+id
			}
		}
	}
}

func fieldName(n *fnode) string {
	base := "s"
	switch n.kind {
	case kGo:
		base = "g"
	case kBatch:
		base = fmt.Sprintf("b%d", n.bkey)
	}
	if n.leaf {
		base = "l" + base
	}
	if n.nonnull {
		base += "N"
	}
	return base
}

func writeQuery(sb *strings.Builder, nodes []*fnode) {
	sb.WriteString("{")
	for i, n := range nodes {
		if i > 0 {
			sb.WriteString(" ")
		}
		if n.conn != nil {
			c := n.conn
			name := "c"
			if c.variant == 1 {
				name = "t"
			}
			if n.nonnull {
				name += "N"
			}
			first := c.edges + 1 // more than the getter returns: every edge comes back, and the lazy first:0 path is not taken
			if c.variant == 2 {
				first = 0
			}
			fmt.Fprintf(sb, "a%d:%s(i:%d,first:%d", n.id, name, n.id, first)
			if c.after {
				fmt.Fprintf(sb, ",after:%q", afterCursor)
			}
			sb.WriteString(")")
			if c.variant == 2 {
				sb.WriteString("{pageInfo{hasNextPage}}")
			} else if len(c.tmpl) == 0 {
				sb.WriteString("{edges{cursor}}")
			} else {
				sb.WriteString("{edges{node{")
				for j, t := range c.tmpl {
					if j > 0 {
						sb.WriteString(" ")
					}
					fmt.Fprintf(sb, "t%d:%s(i:%d)", t.id, fieldName(t), t.id)
				}
				sb.WriteString("}}}")
			}
			continue
		}
		fmt.Fprintf(sb, "a%d:%s(i:%d)", n.id, fieldName(n), n.id)
		if !n.leaf {
			writeQuery(sb, n.children)
		}
	}
	sb.WriteString("}")
}

// ---- running one case ---------------------------------------------------------------------------

var api *apifu.API

func serve(r *run, query string) string {
	return serveCtx(context.WithValue(context.Background(), runKey, r), query)
}

func serveCtx(ctx context.Context, query string) (out string) {
	// a panic out of the execution is an observation (the response), not the end of the harness
	defer func() {
		if p := recover(); p != nil {
			out = fmt.Sprintf("panic: %v", p)
		}
	}()
	w := httptest.NewRecorder()
	req, _ := http.NewRequestWithContext(ctx, "POST", "/", strings.NewReader(query))
	req.Header.Set("Content-Type", "application/graphql")
	api.ServeGraphQL(w, req)
	return canonical(w.Body.Bytes())
}

// canonical: data with sorted keys; the errors whose own field is present in data (a nullable field
// that failed: null plus error) as a sorted multiset of path+message; the errors of failures that
// nulled an ancestor are reduced to "there were some": which of several competing failures below
// a nulled ancestor is reported depends on the order of completion and is not part of this property
// (C01/C02 own the error set).
func canonical(body []byte) string {
	var resp struct {
		Data   interface{}
		Errors []struct {
			Message string
			Path    []interface{}
		}
	}
	if err := json.Unmarshal(body, &resp); err != nil {
		return "unparseable:" + string(body)
	}
	d, _ := json.Marshal(resp.Data)
	var es []string
	propagated := false
	for _, e := range resp.Errors {
		if !pathPresent(resp.Data, e.Path) {
			propagated = true
			continue
		}
		p, _ := json.Marshal(e.Path)
		es = append(es, string(p)+e.Message)
	}
	sort.Strings(es)
	out := string(d) + "|" + strings.Join(es, ";")
	if propagated {
		out += "|propagated"
	}
	return out
}

func pathPresent(data interface{}, path []interface{}) bool {
	cur := data
	for _, c := range path {
		switch k := c.(type) {
		case string:
			m, ok := cur.(map[string]interface{})
			if !ok {
				return false
			}
			cur, ok = m[k]
			if !ok {
				return false
			}
		case float64:
			l, ok := cur.([]interface{})
			if !ok || int(k) < 0 || int(k) >= len(l) {
				return false
			}
			cur = l[int(k)]
		default:
			return false
		}
	}
	return true
}

func itemNode(it *itemT) sexp.Node {
	var k sexp.Node
	switch it.kind {
	case kSync:
		k = sexp.T("sync")
	case kGo:
		k = sexp.T("go")
	case kBatch:
		k = sexp.T("batch", sexp.Int(it.bkey))
	case kChain:
		xs := make([]sexp.Node, len(it.inners))
		for i, q := range it.inners {
			xs[i] = sexp.Int(q)
		}
		k = sexp.T("chain", sexp.L(xs...))
	}
	res := sexp.T("ok", sexp.Int(it.val))
	if !it.ok {
		res = sexp.T("err", sexp.Int(it.val))
	}
	return sexp.L(k, sexp.Int(it.parent), sexp.Bool(it.inner), res)
}

// after a few requests that never returned the remaining cases are not run (each would cost the
// watchdog's full timeout); they are written as empty cases tagged gmp 0
var hangs int

const maxHangs = 3

func runCase(roots []*fnode, gmp int, batchSpins [nBatch]int) sexp.Node {
	return runCaseCancel(roots, gmp, batchSpins, cNone, 0)
}

func runCaseCancel(roots []*fnode, gmp int, batchSpins [nBatch]int, cancelKind, cancelN int) sexp.Node {
	if hangs >= maxHangs {
		return sexp.T("case", sexp.T("gmp", sexp.Int(0)), sexp.T("query", sexp.Str("not run: earlier requests hung")),
			sexp.T("items", sexp.L()), sexp.T("trace", sexp.L(sexp.T("end"))), sexp.T("delivered", sexp.L()),
			sexp.T("resp", sexp.Str(""), sexp.Str("")), sexp.T("leak", sexp.Int(0)), sexp.T("hang", sexp.Bool(false)),
			sexp.T("problems", sexp.L()))
	}
	b := &builder{conns: map[int]*connSpec{}}
	b.alloc(roots, -1)
	var sb strings.Builder
	writeQuery(&sb, roots)
	query := sb.String()
	return runPrepared(b, query, gmp, batchSpins, cancelKind, cancelN,
		func(syncResp string) (string, bool) { return altReference(roots, b, query, syncResp) }, nil, "")
}

// runPrepared: items and query are given; setup prepares every run object (reference run included).
func runPrepared(b *builder, query string, gmp int, batchSpins [nBatch]int, cancelKind, cancelN int,
	alt func(string) (string, bool), setup func(*run), tag string) sexp.Node {
	prev := setGMP(gmp)
	defer setGMP(prev)

	// the reference: the same query with every resolver synchronous
	rs := newRun(b.items, b.conns)
	rs.syncMode = true
	if setup != nil {
		setup(rs)
	}
	syncResp := serve(rs, query)

	altResp, hasAlt := "", false
	if alt != nil {
		altResp, hasAlt = alt(syncResp)
	}

	pre := gset()
	r := newRun(b.items, b.conns)
	if setup != nil {
		setup(r)
	}
	r.batchSpins = batchSpins
	r.cancelKind, r.cancelN = cancelKind, cancelN
	ctx, cancel := context.WithCancel(context.WithValue(context.Background(), runKey, r))
	defer cancel()
	r.cancelFn = cancel
	if cancelKind == cBefore {
		r.doCancel()
	}
	respCh := make(chan string, 1)
	go func() { respCh <- serveCtx(ctx, query) }()
	var asyncResp string
	hang := false
	select {
	case asyncResp = <-respCh:
	case <-time.After(10 * time.Second):
		hang = true
		hangs++
	}
	r.finish(hang)
	leak := 0
	if !hang {
		leak = leaked(pre)
	}
	r.mu.Lock()
	defer r.mu.Unlock()
	items := make([]sexp.Node, len(b.items))
	for i, it := range b.items {
		if r.ctxErr[it.id] { // what this Go function produced is the context's error
			c := *it
			c.ok, c.val = false, ctxErrCode
			items[i] = itemNode(&c)
			continue
		}
		items[i] = itemNode(it)
	}
	tr := make([]sexp.Node, len(r.trace))
	for i, l := range r.trace {
		tr[i] = l.node()
	}
	probs := make([]sexp.Node, len(r.problems))
	for i, p := range r.problems {
		probs[i] = sexp.Str(p)
	}
	return sexp.T("case",
		sexp.T("gmp", sexp.Int(gmp)),
		sexp.T("cancelkind", sexp.Int(cancelKind)),
		sexp.T("cancelled", sexp.Bool(r.cancelled)),
		sexp.T("stream", sexp.Str(tag)),
		sexp.T("query", sexp.Str(query)),
		sexp.T("items", sexp.L(items...)),
		sexp.T("trace", sexp.L(tr...)),
		sexp.T("delivered", sexp.L(r.deliveries...)),
		sexp.T("resp", sexp.Str(asyncResp), sexp.Str(syncResp)),
		sexp.T("respalt", altNode(altResp, hasAlt)...),
		sexp.T("leak", sexp.Int(leak)),
		sexp.T("hang", sexp.Bool(hang)),
		sexp.T("problems", sexp.L(probs...)))
}

func altNode(alt string, has bool) []sexp.Node {
	if !has {
		return nil
	}
	return []sexp.Node{sexp.Str(alt)}
}

// doubleFailure: a time-based connection whose first getter fails through a promise and whose second
// getter fails synchronously.
func doubleFailure(nodes []*fnode) bool {
	for _, n := range nodes {
		if c := n.conn; c != nil && c.variant == 1 && len(c.getters) == 2 &&
			c.getters[0].kind != kSync && c.getters[0].fail && c.getters[1].kind == kSync && c.getters[1].fail {
			return true
		}
		if doubleFailure(n.children) {
			return true
		}
	}
	return false
}

// altReference: the all-synchronous response in which the failure of a getter that answers through
// a promise does not pre-empt a later getter's synchronous failure: the other admissible error of
// the same field.  Only offered when the data is identical to the reference's.
func altReference(roots []*fnode, b *builder, query, syncResp string) (string, bool) {
	if !doubleFailure(roots) {
		return "", false
	}
	ra := newRun(b.items, b.conns)
	ra.syncMode, ra.altSync = true, true
	alt := serve(ra, query)
	if strings.SplitN(alt, "|", 2)[0] != strings.SplitN(syncResp, "|", 2)[0] {
		return "", false
	}
	return alt, true
}

// ---- generators -------------------------------------------------------------------------------

func genSched(r *rng.R, n *fnode) {
	n.mode = rng.Pick(r, []int{mFree, mFree, mEarly, mEarly, mLate, mLate, mLate})
	n.spins = r.Intn(4)
	n.rank = r.Intn(1000)
}

func genPlain(r *rng.R, leaf bool) *fnode {
	n := &fnode{leaf: leaf}
	switch r.Intn(10) {
	case 0, 1, 2:
		n.kind = kSync
	case 3, 4, 5, 6:
		n.kind = kGo
	default:
		n.kind = kBatch
		n.bkey = rng.Pick(r, []int{0, 0, 0, 1, 1, 2})
	}
	n.nonnull = r.Chance(3, 10)
	switch {
	case r.Chance(12, 100):
		n.outcome = 1
	case r.Chance(6, 100):
		n.outcome = 2
	}
	genSched(r, n)
	return n
}

func genGetter(r *rng.R) gmode {
	g := gmode{}
	switch r.Intn(10) {
	case 0, 1:
		g.kind = kSync
	case 2, 3:
		g.kind = kBatch
		g.bkey = r.Intn(nBatch)
	default:
		g.kind = kGo
	}
	g.fail = r.Chance(1, 8)
	g.mode = rng.Pick(r, []int{mFree, mFree, mEarly, mLate, mLate})
	g.spins = r.Intn(4)
	g.rank = r.Intn(1000)
	return g
}

func genConn(r *rng.R) *fnode {
	n := &fnode{nonnull: r.Chance(1, 5)}
	c := &cnode{variant: rng.Pick(r, []int{0, 0, 0, 1, 1, 2}), spins: r.Intn(3)}
	n.conn = c
	switch c.variant {
	case 0:
		c.getters = []gmode{genGetter(r)}
		c.edges = r.Intn(4)
	case 1:
		c.after = r.Chance(3, 5)
		c.getters = []gmode{genGetter(r)}
		if c.after {
			c.getters = append(c.getters, genGetter(r))
		}
		for i := range c.getters {
			if c.getters[i].kind == kBatch { // time-based getters use Go or answer directly
				c.getters[i].kind = kGo
			}
		}
		// Two failing range queries of one field, the first through a promise and the second
		// synchronously: the resolver reports the second at once, its all-synchronous version the
		// first (C02's known finding admissible-error-differs).  Generated; the response clause
		// accepts either admissible error with identical data (altReference).
		c.edges = r.Intn(4)
	case 2:
		c.getters = []gmode{genGetter(r)}
		n.nonnull = false
	}
	if c.variant != 2 && c.edges > 0 {
		for i, k := 0, r.Intn(3); i < k; i++ {
			t := genPlain(r, true)
			c.tmpl = append(c.tmpl, t)
		}
	}
	return n
}

func genTree(r *rng.R, budget *int, depth int) []*fnode {
	var out []*fnode
	k := r.Range(1, 4)
	if depth == 0 {
		k = r.Range(1, 5)
	}
	for i := 0; i < k && *budget > 0; i++ {
		*budget--
		x := r.Intn(100)
		switch {
		case x < 50 || depth >= 3:
			out = append(out, genPlain(r, true))
		case x < 82:
			n := genPlain(r, false)
			n.children = genTree(r, budget, depth+1)
			if len(n.children) == 0 {
				n.children = []*fnode{genPlain(r, true)}
			}
			out = append(out, n)
		default:
			*budget -= 2
			out = append(out, genConn(r))
		}
	}
	return out
}

// small alphabet of leaf fields for the exhaustive part
func leafAlphabet() []*fnode {
	var a []*fnode
	for _, k := range []struct {
		kind kindT
		bkey int
	}{{kSync, 0}, {kGo, 0}, {kBatch, 0}, {kBatch, 1}} {
		for _, nn := range []bool{false, true} {
			for _, oc := range []int{0, 1} {
				if k.kind == kGo {
					for _, m := range []int{mFree, mEarly, mLate} {
						a = append(a, &fnode{kind: k.kind, bkey: k.bkey, leaf: true, nonnull: nn, outcome: oc, mode: m})
					}
				} else {
					a = append(a, &fnode{kind: k.kind, bkey: k.bkey, leaf: true, nonnull: nn, outcome: oc})
				}
			}
		}
	}
	return a
}

func clone(n *fnode) *fnode {
	c := *n
	c.children = nil
	for _, ch := range n.children {
		c.children = append(c.children, clone(ch))
	}
	return &c
}

var gmps = []int{1, 2, 4, 16}

func setGMP(n int) int { return runtime.GOMAXPROCS(n) }

func main() {
	api = buildAPI()
	hx.Main(func(h *hx.H) {
		alpha := leafAlphabet()
		// 1. every pair of leaf fields over the alphabet, at the root
		idx := 0
		for _, x := range alpha {
			for _, y := range alpha {
				x, y := x, y
				gmp := gmps[idx%len(gmps)]
				idx++
				h.Case(func(*rng.R) sexp.Node {
					a, b := clone(x), clone(y)
					a.rank, b.rank = 1, 0
					return runCase([]*fnode{a, b}, gmp, [nBatch]int{})
				})
			}
		}
		// 2. every leaf below every async object field next to every leaf (work revealed in a second wave)
		for _, pk := range []kindT{kGo, kBatch} {
			for _, x := range alpha {
				for _, y := range alpha {
					pk, x, y := pk, x, y
					gmp := gmps[idx%len(gmps)]
					idx++
					if !h.Thorough() && idx%3 != 0 {
						continue
					}
					h.Case(func(r *rng.R) sexp.Node {
						parent := &fnode{kind: pk, mode: rng.Pick(r, []int{mFree, mEarly, mLate}), rank: 2, children: []*fnode{clone(x)}}
						b := clone(y)
						b.rank = r.Intn(4)
						return runCase([]*fnode{parent, b}, gmp, [nBatch]int{})
					})
				}
			}
		}
		// 3. random forests
		n := 4000
		if h.Thorough() {
			n = 120000
		}
		for i := 0; i < n; i++ {
			gmp := gmps[i%len(gmps)]
			h.Case(func(r *rng.R) sexp.Node {
				budget := r.Range(2, 12)
				roots := genTree(r, &budget, 0)
				var bs [nBatch]int
				for k := range bs {
					bs[k] = r.Intn(4)
				}
				return runCase(roots, gmp, bs)
			})
		}
		// 4. graphql-ws subscriptions: a forest beneath the subscription field, 1-3 events, one of
		// them recorded (all of them count for leaks, hangs and the response)
		n = 300
		if h.Thorough() {
			n = 6000
		}
		for i := 0; i < n; i++ {
			gmp := gmps[i%len(gmps)]
			h.Case(func(r *rng.R) sexp.Node {
				budget := r.Range(2, 9)
				roots := genTree(r, &budget, 0)
				var bs [nBatch]int
				for k := range bs {
					bs[k] = r.Intn(4)
				}
				events := r.Range(0, 3) // 0: a plain query over the WebSocket
				which := 0
				if events > 0 {
					which = r.Intn(events)
				}
				return runCaseWS(roots, gmp, bs, events, which)
			})
		}
		// 5. subscriptions whose every event leaves pending work behind: an asynchronous object
		// field (first wave) with a Batch or Go child next to a failing non-null child (second wave:
		// the execution returns without another idle round); 2-3 events, each event recorded once
		for _, pk := range []kindT{kBatch, kGo} {
			for _, ck := range []struct {
				kind kindT
				bkey int
			}{{kBatch, 0}, {kBatch, 1}, {kGo, 0}} {
				for events := 2; events <= 3; events++ {
					for which := 0; which < events; which++ {
						pk, ck, events, which := pk, ck, events, which
						gmp := gmps[idx%len(gmps)]
						idx++
						h.Case(func(r *rng.R) sexp.Node {
							parent := &fnode{kind: pk, bkey: 0, mode: mFree, children: []*fnode{
								{kind: ck.kind, bkey: ck.bkey, leaf: true, mode: mLate, rank: 1},
								{kind: kSync, leaf: true, nonnull: true, outcome: 1},
							}}
							return runCaseWS([]*fnode{parent}, gmp, [nBatch]int{}, events, which)
						})
					}
				}
			}
		}
		// 5b. a Go function of one event that returns only while the NEXT event's idle handler is
		// blocked in its receive (the asyncResolutions channel is shared by the events of a subscription)
		for rep := 0; rep < 12; rep++ {
			for events := 2; events <= 3; events++ {
				events := events
				gmp := gmps[idx%len(gmps)]
				idx++
				h.Case(func(r *rng.R) sexp.Node {
					parent := &fnode{kind: kGo, mode: mLate, children: []*fnode{
						{kind: kGo, leaf: true, mode: mLate, rank: 1, span: true},
						{kind: kSync, leaf: true, nonnull: true, outcome: 1},
					}}
					return runCaseWS([]*fnode{parent}, gmp, [nBatch]int{}, events, events-1)
				})
			}
		}
		// 6. the request context is cancelled at a generated point; half of the Go functions look at
		// the context (wait for it as well as for their release, return its error once cancelled)
		n = 800
		if h.Thorough() {
			n = 16000
		}
		for i := 0; i < n; i++ {
			gmp := gmps[i%len(gmps)]
			h.Case(func(r *rng.R) sexp.Node {
				budget := r.Range(2, 10)
				roots := genTree(r, &budget, 0)
				var setHonour func(ns []*fnode)
				setHonour = func(ns []*fnode) {
					for _, x := range ns {
						if x.kind == kGo {
							x.honour = r.Bool()
						}
						setHonour(x.children)
						if x.conn != nil {
							setHonour(x.conn.tmpl)
						}
					}
				}
				setHonour(roots)
				var bs [nBatch]int
				for k := range bs {
					bs[k] = r.Intn(4)
				}
				kind := rng.Pick(r, []int{cBefore, cIdleEntry, cIdleEntry, cEarly, cEarly, cIdleExit, cIdleExit, cMidLate, cMidLate, cMidLate})
				return runCaseCancel(roots, gmp, bs, kind, r.Intn(3))
			})
		}
		// 7. the connection matrix
		matrixCases(h, &idx)
		// 8. error values of every kind and typed-nil errors next to a value, through every route:
		// the field itself synchronous / Go / Batch, nullable or non-null, next to a Go leaf
		for _, k := range []struct {
			kind kindT
			bkey int
		}{{kSync, 0}, {kGo, 0}, {kBatch, 0}} {
			for _, nn := range []bool{false, true} {
				for shape := 0; shape < nErrKinds+2; shape++ {
					k, nn, shape := k, nn, shape
					gmp := gmps[idx%len(gmps)]
					idx++
					h.Case(func(r *rng.R) sexp.Node {
						a := &fnode{kind: k.kind, bkey: k.bkey, leaf: true, nonnull: nn, mode: rng.Pick(r, []int{mFree, mEarly, mLate})}
						switch {
						case shape < nErrKinds:
							a.outcome, a.errKind = 1, shape
						case shape == nErrKinds:
							a.typedNil = true // (value, typed-nil error)
						default:
							a.outcome, a.typedNil = 2, true // (nil, typed-nil error)
						}
						b := &fnode{kind: kGo, leaf: true, mode: rng.Pick(r, []int{mFree, mEarly, mLate}), rank: 1}
						return runCase([]*fnode{a, b}, gmp, [nBatch]int{})
					})
				}
			}
		}
		// 9. two levels of asynchronous work among siblings: three object fields of one kind (Batch or
		// Go), each with a Batch or Go child: the children of ALL siblings must be invoked before the
		// executor goes idle again, so that one Batch resolver's invocations arrive in one call
		for _, pk := range []struct {
			kind kindT
			bkey int
		}{{kBatch, 0}, {kGo, 0}} {
			for _, ck := range []struct {
				kind kindT
				bkey int
			}{{kBatch, 1}, {kBatch, 0}, {kGo, 0}} {
				for rep := 0; rep < 4; rep++ {
					pk, ck := pk, ck
					gmp := gmps[idx%len(gmps)]
					idx++
					h.Case(func(r *rng.R) sexp.Node {
						var roots []*fnode
						for i := 0; i < 3; i++ {
							child := &fnode{kind: ck.kind, bkey: ck.bkey, leaf: true, mode: rng.Pick(r, []int{mFree, mEarly, mLate}), rank: 10 + i}
							roots = append(roots, &fnode{kind: pk.kind, bkey: pk.bkey, mode: rng.Pick(r, []int{mFree, mEarly, mLate}), rank: i,
								children: []*fnode{child}})
						}
						return runCase(roots, gmp, [nBatch]int{})
					})
				}
			}
		}
	})
}
