package main

// Error values of every Go kind, and typed-nil errors next to a value: what a Go function or a Batch
// ResolveResult may carry.  The executor's nil test (nil, or a nil pointer) must be the same on the
// synchronous route and on the promise route.

import "fmt"

const (
	ekPlain  = 0 // *fmt.wrapError / errors.errorString (a pointer)
	ekStruct = 1
	ekString = 2
	ekInt    = 3
	ekBool   = 4
	ekFloat  = 5
	ekArray  = 6
	ekFunc   = 7 // nil func / map / slice / chan used as error values: errors (not nil pointers)
	ekMap    = 8
	ekSlice  = 9
	ekChan   = 10
	nErrKinds = 11
)

type errStruct struct{ id int }

func (e errStruct) Error() string { return fmt.Sprintf("e%d", e.id) }

type errString string

func (e errString) Error() string { return string(e) }

type errInt int

func (e errInt) Error() string { return fmt.Sprintf("e%d", int(e)) }

type errBool bool

func (e errBool) Error() string { return fmt.Sprintf("e%d", fixedErrCode(ekBool)) }

type errFloat float64

func (e errFloat) Error() string { return fmt.Sprintf("e%d", int(e)) }

type errArray [1]int

func (e errArray) Error() string { return fmt.Sprintf("e%d", e[0]) }

type errFunc func()

func (e errFunc) Error() string { return fmt.Sprintf("e%d", fixedErrCode(ekFunc)) }

type errMap map[int]int

func (e errMap) Error() string { return fmt.Sprintf("e%d", fixedErrCode(ekMap)) }

type errSlice []int

func (e errSlice) Error() string { return fmt.Sprintf("e%d", fixedErrCode(ekSlice)) }

type errChan chan int

func (e errChan) Error() string { return fmt.Sprintf("e%d", fixedErrCode(ekChan)) }

// a pointer type whose nil value is "no error" for the executor
type errPtr struct{}

func (*errPtr) Error() string { return "typed nil" }

// kinds whose values cannot carry the item's id report a fixed code
func fixedErrCode(kind int) int { return -(20 + kind) }

func carriesID(kind int) bool {
	switch kind {
	case ekBool, ekFunc, ekMap, ekSlice, ekChan:
		return false
	}
	return true
}

func errOfKind(kind, code int) error {
	switch kind {
	case ekStruct:
		return errStruct{id: code}
	case ekString:
		return errString(fmt.Sprintf("e%d", code))
	case ekInt:
		return errInt(code)
	case ekBool:
		return errBool(true)
	case ekFloat:
		return errFloat(code)
	case ekArray:
		return errArray{code}
	case ekFunc:
		return errFunc(nil)
	case ekMap:
		return errMap(nil)
	case ekSlice:
		return errSlice(nil)
	case ekChan:
		return errChan(nil)
	}
	return fmt.Errorf("e%d", code)
}
