package main

// The connection matrix: apifu.Connection in every configuration (ResolveAllEdges / ResolveEdges,
// with / without ResolveTotalCount), getter synchronous / Go / Batch (succeeding or failing),
// first / last in {0, 1, n}, every non-empty selection of {edges, pageInfo, totalCount} in both
// orders.  On the zero-count path nothing is loaded by the connection field itself; totalCount and
// pageInfo each invoke the getter and chain onto their own promise.

import (
	"fmt"
	"reflect"
	"strings"

	apifu "github.com/ccbrown/api-fu"
	"github.com/ccbrown/api-fu/graphql"

	"verifharness/internal/rng"
	"verifharness/internal/sexp"
)

type mxCall struct {
	getter int   // the getter's promise item, -1 when it answers synchronously
	chains []int // the chain items the library wraps around it, innermost first
}

type mxPlan struct {
	getterKind kindT
	bkey       int
	fail       bool
	edges      int
	connItem   int // zero-count path: the (synchronous) connection item, else -1
	conn       *mxCall
	tc         *mxCall
	pi         *mxCall
}

func mxEdges(n int) []edgeVal {
	out := make([]edgeVal, n)
	for i := range out {
		out[i] = edgeVal{idx: i, nano: 2000 + int64(i)}
	}
	return out
}

// mxGetter is ResolveAllEdges / ResolveEdges of the matrix connections.
func mxGetter(ctx graphql.FieldContext) (interface{}, error) {
	r := getRun(ctx.Context)
	plan, call := r.mx, r.mxCur
	if plan == nil || call == nil {
		return nil, errUnplanned
	}
	if call.getter < 0 {
		if plan.fail {
			return nil, fmt.Errorf("e%d", 900)
		}
		return mxEdges(plan.edges), nil
	}
	it := r.items[call.getter]
	if r.syncMode {
		return r.valueOf(it)
	}
	r.noteCreate(it)
	if it.kind == kBatch {
		c2 := ctx
		c2.Object = nil
		c2.Arguments = map[string]interface{}{"i": it.id}
		v, err := batchResolvers[it.bkey](c2)
		r.setProm(it.id, v.(graphql.ResolvePromise))
		return v, err
	}
	ch := apifu.Go(ctx.Context, r.goFunc(it, ctx.Context))
	r.setProm(it.id, ch)
	return ch, nil
}

// mxNote: the library returned v for this call; a promise means it wrapped the planned chains
func (r *run) mxNote(call *mxCall, v interface{}) {
	p, isProm := v.(graphql.ResolvePromise)
	if !isProm {
		return
	}
	if len(call.chains) == 0 {
		r.mu.Lock()
		r.problems = append(r.problems, "matrix: a promise the case did not plan")
		r.mu.Unlock()
		return
	}
	for _, c := range call.chains {
		r.noteCreate(r.items[c])
	}
	r.setProm(call.chains[len(call.chains)-1], p)
}

func mxWrap(which int, orig func(graphql.FieldContext) (interface{}, error)) func(graphql.FieldContext) (interface{}, error) {
	return func(ctx graphql.FieldContext) (interface{}, error) {
		r := getRun(ctx.Context)
		plan := r.mx
		if plan == nil {
			return orig(ctx)
		}
		var call *mxCall
		switch which {
		case 0:
			call = plan.conn
			if !r.syncMode && plan.connItem >= 0 {
				r.noteCreate(r.items[plan.connItem])
			}
		case 1:
			call = plan.tc
		case 2:
			call = plan.pi
		}
		r.mxCur = call
		v, err := orig(ctx)
		r.mxCur = nil
		if !r.syncMode && call != nil {
			r.mxNote(call, v)
		}
		return v, err
	}
}

// the four connection fields: ma (ResolveAllEdges), mar (+ ResolveTotalCount), me (ResolveEdges), mer
func addMatrixFields(fields map[string]*graphql.FieldDefinition, iArg func() map[string]*graphql.InputValueDefinition, nodeType graphql.Type) {
	less := func(a, b interface{}) bool { return a.(int) < b.(int) }
	for _, m := range []struct {
		name     string
		allEdges bool
		rtc      bool
	}{{"ma", true, false}, {"mar", true, true}, {"me", false, false}, {"mer", false, true}} {
		cfg := &apifu.ConnectionConfig{
			NamePrefix: "M" + m.name,
			Arguments:  iArg(),
			CursorType: reflect.TypeOf(0),
			EdgeCursor: func(e interface{}) interface{} { return e.(edgeVal).idx },
			EdgeFields: map[string]*graphql.FieldDefinition{"node": nodeField(nodeType)},
		}
		if m.allEdges {
			cfg.ResolveAllEdges = func(ctx graphql.FieldContext) (interface{}, func(a, b interface{}) bool, error) {
				v, err := mxGetter(ctx)
				return v, less, err
			}
		} else {
			cfg.ResolveEdges = func(ctx graphql.FieldContext, after, before interface{}, limit int) (interface{}, func(a, b interface{}) bool, error) {
				v, err := mxGetter(ctx)
				return v, less, err
			}
		}
		if m.rtc {
			cfg.ResolveTotalCount = func(ctx graphql.FieldContext) (interface{}, error) {
				return getRun(ctx.Context).mx.edges, nil
			}
		}
		f := apifu.Connection(cfg)
		f.Resolve = mxWrap(0, f.Resolve)
		ot := f.Type.(*graphql.ObjectType)
		if tc, ok := ot.Fields["totalCount"]; ok {
			tc.Resolve = mxWrap(1, tc.Resolve)
		}
		pi := ot.Fields["pageInfo"]
		pi.Resolve = mxWrap(2, pi.Resolve)
		fields[m.name] = f
	}
}

type mxCase struct {
	allEdges, rtc bool
	gk            kindT
	fail          bool
	last          bool
	count         int // 0, 1, 3
	sel           int // bit 0 edges, bit 1 pageInfo, bit 2 totalCount
	rev           bool
}

func (c mxCase) valid() bool {
	// totalCount exists only with ResolveAllEdges or ResolveTotalCount
	return c.sel&4 == 0 || c.allEdges || c.rtc
}

func buildMatrix(c mxCase) (*builder, string, *mxPlan) {
	b := &builder{conns: map[int]*connSpec{}}
	plan := &mxPlan{getterKind: c.gk, bkey: 1, fail: c.fail, edges: 2, connItem: -1}
	getter := func(parent int) int {
		it := &itemT{kind: c.gk, bkey: plan.bkey, parent: parent, inner: true, ok: !c.fail, mode: mFree}
		id := b.add(it)
		it.val = id
		if !c.fail {
			it.value = mxEdges(plan.edges)
		}
		return id
	}
	chainOf := func(inner, parent int, isInner bool, val int) int {
		it := &itemT{kind: kChain, inners: []int{inner}, parent: parent, inner: isInner, ok: true}
		id := b.add(it)
		it.val = val
		if val < 0 {
			it.val = id
		}
		return id
	}
	fields := []string{}
	if c.sel&1 != 0 {
		fields = append(fields, "edges{cursor}")
	}
	if c.sel&2 != 0 {
		fields = append(fields, "pageInfo{hasNextPage}")
	}
	if c.sel&4 != 0 {
		fields = append(fields, "totalCount")
	}
	if c.rev {
		for i, j := 0, len(fields)-1; i < j; i, j = i+1, j-1 {
			fields[i], fields[j] = fields[j], fields[i]
		}
	}
	if c.count > 0 {
		if c.gk == kSync {
			plan.conn = &mxCall{getter: -1}
		} else {
			g := getter(-1)
			plan.conn = &mxCall{getter: g, chains: []int{chainOf(g, -1, false, -1)}}
		}
	} else {
		ci := &itemT{kind: kSync, parent: -1, ok: true}
		plan.connItem = b.add(ci)
		ci.val = plan.connItem
		for _, f := range fields {
			switch {
			case strings.HasPrefix(f, "totalCount"):
				if c.rtc || !c.allEdges {
					continue // the callback answers; the getter is not involved
				}
				if c.gk == kSync {
					plan.tc = &mxCall{getter: -1}
				} else {
					g := getter(plan.connItem)
					plan.tc = &mxCall{getter: g, chains: []int{chainOf(g, plan.connItem, false, plan.edges)}}
				}
			case strings.HasPrefix(f, "pageInfo"):
				if c.gk == kSync {
					plan.pi = &mxCall{getter: -1}
				} else {
					g := getter(plan.connItem)
					c1 := chainOf(g, plan.connItem, true, -1)
					plan.pi = &mxCall{getter: g, chains: []int{c1, chainOf(c1, plan.connItem, false, -1)}}
				}
			}
		}
	}
	name := "m"
	if c.allEdges {
		name += "a"
	} else {
		name += "e"
	}
	if c.rtc {
		name += "r"
	}
	arg := "first"
	if c.last {
		arg = "last"
	}
	query := fmt.Sprintf("{a0:%s(i:0,%s:%d){%s}}", name, arg, c.count, strings.Join(fields, " "))
	return b, query, plan
}

func matrixCases(h interface {
	Case(func(*rng.R) sexp.Node)
	Thorough() bool
}, idx *int) {
	for _, allEdges := range []bool{true, false} {
		for _, rtc := range []bool{false, true} {
			for _, gk := range []kindT{kSync, kGo, kBatch} {
				for _, fail := range []bool{false, true} {
					for _, last := range []bool{false, true} {
						for _, count := range []int{0, 1, 3} {
							for sel := 1; sel < 8; sel++ {
								for _, rev := range []bool{false, true} {
									c := mxCase{allEdges, rtc, gk, fail, last, count, sel, rev}
									if !c.valid() {
										continue
									}
									*idx++
									// quick: all zero-count cases, a third of the others
									if !h.Thorough() && count != 0 && *idx%3 != 0 {
										continue
									}
									gmp := gmps[*idx%len(gmps)]
									h.Case(func(r *rng.R) sexp.Node {
										b, query, plan := buildMatrix(c)
										for _, it := range b.items {
											if it.kind == kGo {
												it.mode = rng.Pick(r, []int{mFree, mEarly, mLate})
												it.rank = r.Intn(10)
											}
										}
										return runPrepared(b, query, gmp, [nBatch]int{}, cNone, 0, nil,
											func(rn *run) { rn.mx = plan }, "matrix")
									})
								}
							}
						}
					}
				}
			}
		}
	}
}
