// c19: the JSON:API handler (jsonapi.API.ServeHTTP) against generated resource schemas and requests.
//
// Every case carries the ABSTRACT input the Coq model works on — the schema (handler presence and
// resolver outcomes), the request (method, r.URL.Path, Accept header lines, keys of r.URL.Query(),
// the body as a JSON tree), the table of mime.ParseMediaType on every comma-bounded segment of the
// Accept lines — and what the real handler answered, projected to (status, Content-Type, jsonapi
// member, data shape with resource identities and relationship links, error statuses, top-level
// links, the mutating application call with its arguments).  Panics are caught and reported as an
// observation.
package main

import (
	"bytes"
	"context"
	"encoding/json"
	"fmt"
	"math"
	"mime"
	"net/http/httptest"
	"net/url"
	"sort"
	"strconv"
	"strings"

	"github.com/ccbrown/api-fu/jsonapi"
	"github.com/ccbrown/api-fu/jsonapi/types"

	"verifharness/internal/hx"
	"verifharness/internal/rng"
	"verifharness/internal/sexp"
)

// ------------------------------------------------------------------------------------------------
// abstract schema
// ------------------------------------------------------------------------------------------------

type res struct{ v int }

const (
	hVal = iota
	hNil
	hErr
)

type hout struct {
	Kind   int
	V      int
	Status string
}

func (h hout) sexp() sexp.Node {
	switch h.Kind {
	case hVal:
		return sexp.T("val", sexp.Int(h.V))
	case hNil:
		return sexp.Sym("nil")
	}
	return errSexp(h.Status)
}

// an application error; a status written with a trailing "!" stands for that status on an error object
// whose Meta does not marshal
func mkErr(status string) *types.Error {
	if strings.HasSuffix(status, "!") {
		return &types.Error{Status: strings.TrimSuffix(status, "!"), Title: "application error",
			Links: types.Links{"about": "https://example.com/e"}, Meta: map[string]any{"live": make(chan int)}}
	}
	return &types.Error{Status: status, Title: "application error", Meta: map[string]any{"n": 1}}
}

func errSexp(status string) sexp.Node {
	if strings.HasSuffix(status, "!") {
		return sexp.T("err", sexp.Str(strings.TrimSuffix(status, "!")), sexp.Sym("unser"))
	}
	return sexp.T("err", sexp.Str(status))
}

func (h hout) value() (*res, *types.Error) {
	switch h.Kind {
	case hVal:
		return &res{h.V}, nil
	case hNil:
		return nil, nil
	}
	return nil, mkErr(h.Status)
}

const (
	aOk = iota
	aUnser
	aErr
)

type aout struct {
	Kind   int
	Status string
}

func (a aout) sexp() sexp.Node {
	switch a.Kind {
	case aOk:
		return sexp.Sym("ok")
	case aUnser:
		return sexp.Sym("unser")
	}
	return errSexp(a.Status)
}

type attrSpec struct {
	Name string
	Outs []aout // by resource value; the last entry beyond the end
}

const (
	oNull = iota
	oId
	oErr
)

type oneOut struct {
	Kind   int
	Id     types.ResourceId
	Status string
}

func (o oneOut) sexp() sexp.Node {
	switch o.Kind {
	case oNull:
		return sexp.Sym("null")
	case oId:
		return sexp.T("id", sexp.Str(o.Id.Type), sexp.Str(o.Id.Id))
	}
	return errSexp(o.Status)
}

const (
	mIds = iota
	mErr
	mEcho
)

type manyOut struct {
	Kind   int
	Ids    []types.ResourceId
	Status string
}

func ridList(ids []types.ResourceId) []sexp.Node {
	out := make([]sexp.Node, 0, len(ids))
	for _, id := range ids {
		out = append(out, sexp.L(sexp.Str(id.Type), sexp.Str(id.Id)))
	}
	return out
}

func (m manyOut) sexp() sexp.Node {
	switch m.Kind {
	case mIds:
		return sexp.T("ids", ridList(m.Ids)...)
	case mErr:
		return errSexp(m.Status)
	}
	return sexp.Sym("echo")
}

type relSpec struct {
	Name      string
	Many      bool
	ByDefault bool
	One       []oneOut
	ManyOuts  []manyOut
	Add       []manyOut // nil = no AddMembers
	Remove    []manyOut
	Custom    *customSpec // a RelationshipResolver implementation of the application's own
}

// what a custom resolver returns for one resource value: an error, or a types.Relationship
const (
	dAbsent = iota // Data == nil
	dNull
	dOne
	dMany
	dEcho // add / remove: the members handed in
)

type customOut struct {
	Err    bool
	Status string
	Links  string // name of a links preset (see linkPresets)
	Shared bool   // the Links map is ONE map per preset and schema, returned again and again
	Data   int
	One    types.ResourceId
	Ids    []types.ResourceId
	Meta   int  // 0 nil, 1 empty map, 2 {"count": 1}, 3 {"count": 1, "live": chan} (does not marshal)
	Always bool // Data is returned even when it was not requested
}

type customSpec struct {
	Outs, Add, Remove []customOut
}

var linkPresetNames = []string{"nil", "empty", "extra", "ownself", "ownrelated", "both"}

func linkPreset(name string) types.Links {
	switch name {
	case "empty":
		return types.Links{}
	case "extra":
		return types.Links{"describedby": "https://example.com/d"}
	case "ownself":
		return types.Links{"self": "/custom/self"}
	case "ownrelated":
		return types.Links{"related": "/custom/related", "about": "x"}
	case "both":
		return types.Links{"self": "/s", "related": "/r", "z-extra": "1"}
	}
	return nil
}

func (o customOut) sexp() sexp.Node {
	if o.Err {
		return errSexp(o.Status)
	}
	var lk []sexp.Node
	preset := linkPreset(o.Links)
	keys := make([]string, 0, len(preset))
	for k := range preset {
		keys = append(keys, k)
	}
	sort.Strings(keys)
	for _, k := range keys {
		lk = append(lk, sexp.L(sexp.Str(k), sexp.Str(preset[k])))
	}
	var data sexp.Node
	switch o.Data {
	case dAbsent:
		data = sexp.Sym("absent")
	case dNull:
		data = sexp.Sym("null")
	case dOne:
		data = sexp.T("one", sexp.Str(o.One.Type), sexp.Str(o.One.Id))
	case dMany:
		data = sexp.T("many", ridList(o.Ids)...)
	default:
		data = sexp.Sym("echo")
	}
	var meta []sexp.Node
	switch o.Meta {
	case 2:
		meta = []sexp.Node{sexp.L(sexp.Str("count"), sexp.Bool(true))}
	case 3:
		meta = []sexp.Node{sexp.L(sexp.Str("count"), sexp.Bool(true)), sexp.L(sexp.Str("live"), sexp.Bool(false))}
	}
	return sexp.T("crel", sexp.T("links", lk...), sexp.T("data", data), sexp.T("meta", meta...), sexp.Bool(o.Always))
}

// the resolver itself; pool holds the shared Links maps of the schema it belongs to
type customResolver struct {
	spec *customSpec
	pool *mapPool
	rec  *recorder
}

// the maps the resolvers of one schema own, with the content they were made with
type mapPool struct {
	links     map[string]types.Links
	linksSnap map[string]types.Links
	metas     map[int]map[string]any
}

func newMapPool() *mapPool {
	return &mapPool{links: map[string]types.Links{}, linksSnap: map[string]types.Links{}, metas: map[int]map[string]any{}}
}

func metaPreset(kind int) map[string]any {
	switch kind {
	case 1:
		return map[string]any{}
	case 2:
		return map[string]any{"count": 1}
	case 3:
		return map[string]any{"count": 1, "live": make(chan int)}
	}
	return nil
}

// every resolver-owned map still has the content it was made with
func (p *mapPool) unchanged() bool {
	for name, m := range p.links {
		snap := p.linksSnap[name]
		if len(m) != len(snap) {
			return false
		}
		for k, v := range snap {
			if got, ok := m[k]; !ok || got != v {
				return false
			}
		}
	}
	for kind, m := range p.metas {
		want := metaPreset(kind)
		if len(m) != len(want) {
			return false
		}
		for k := range want {
			if _, ok := m[k]; !ok {
				return false
			}
		}
		if c, ok := m["count"]; ok && c != 1 {
			return false
		}
	}
	return true
}

func (c customResolver) relationship(o customOut, includeData bool, members []types.ResourceId) (types.Relationship, *types.Error) {
	if o.Err {
		return types.Relationship{}, mkErr(o.Status)
	}
	var rel types.Relationship
	if o.Shared {
		if _, ok := c.pool.links[o.Links]; !ok {
			c.pool.links[o.Links] = linkPreset(o.Links)
			c.pool.linksSnap[o.Links] = linkPreset(o.Links)
		}
		rel.Links = c.pool.links[o.Links]
	} else {
		rel.Links = linkPreset(o.Links)
	}
	if includeData {
		var data any
		switch o.Data {
		case dNull:
			rel.Data = &data
		case dOne:
			data = o.One
			rel.Data = &data
		case dMany:
			data = append([]types.ResourceId{}, o.Ids...)
			rel.Data = &data
		case dEcho:
			data = append([]types.ResourceId{}, members...)
			rel.Data = &data
		}
	}
	if o.Shared && o.Meta != 0 {
		if _, ok := c.pool.metas[o.Meta]; !ok {
			c.pool.metas[o.Meta] = metaPreset(o.Meta)
		}
		rel.Meta = c.pool.metas[o.Meta]
	} else {
		rel.Meta = metaPreset(o.Meta)
	}
	return rel, nil
}

func (c customResolver) ResolveRelationship(ctx context.Context, x *res, dataRequested bool, params url.Values) (types.Relationship, *types.Error) {
	o := nthOrLast(c.spec.Outs, x.v, customOut{})
	return c.relationship(o, dataRequested || o.Always, nil)
}

func (c customResolver) AddRelationshipMembers(ctx context.Context, x *res, members []types.ResourceId) (types.Relationship, *types.Error) {
	c.rec.calls = append(c.rec.calls, sexp.T("add", ridList(members)...))
	return c.relationship(nthOrLast(c.spec.Add, x.v, customOut{}), true, members)
}

func (c customResolver) RemoveRelationshipMembers(ctx context.Context, x *res, members []types.ResourceId) (types.Relationship, *types.Error) {
	c.rec.calls = append(c.rec.calls, sexp.T("remove", ridList(members)...))
	return c.relationship(nthOrLast(c.spec.Remove, x.v, customOut{}), true, members)
}

type entry struct {
	Id  string
	Out hout
}
type table struct {
	Entries []entry
	Default hout
}

func (t *table) lookup(id string) hout {
	for _, e := range t.Entries {
		if e.Id == id {
			return e.Out
		}
	}
	return t.Default
}

func (t *table) sexp() sexp.Node {
	if t == nil {
		return sexp.Sym("none")
	}
	var es []sexp.Node
	for _, e := range t.Entries {
		es = append(es, sexp.L(sexp.Str(e.Id), e.Out.sexp()))
	}
	return sexp.T("tbl", sexp.L(es...), t.Default.sexp())
}

type createSpec struct {
	Out hout
	Id  types.ResourceId
}

// delete: hVal = success (nil error), hErr = error
type typeSpec struct {
	Name   string
	Attrs  []attrSpec
	Rels   []relSpec
	Get    *table
	Patch  *table
	Create *createSpec
	Delete *table
}

func nthOrLast[T any](l []T, v int, d T) T {
	if len(l) == 0 {
		return d
	}
	if v < len(l) {
		return l[v]
	}
	return l[len(l)-1]
}

func outsSexp[T interface{ sexp() sexp.Node }](l []T) sexp.Node {
	var out []sexp.Node
	for _, x := range l {
		out = append(out, x.sexp())
	}
	return sexp.L(out...)
}

func changeSexp(l []manyOut) sexp.Node {
	if l == nil {
		return sexp.Sym("none")
	}
	var out []sexp.Node
	for _, x := range l {
		out = append(out, x.sexp())
	}
	return sexp.T("outs", out...)
}

func (t typeSpec) sexp() sexp.Node {
	attrs := append([]attrSpec(nil), t.Attrs...)
	sort.Slice(attrs, func(i, j int) bool { return attrs[i].Name < attrs[j].Name })
	var as []sexp.Node
	for _, a := range attrs {
		as = append(as, sexp.T("a", sexp.Str(a.Name), outsSexp(a.Outs)))
	}
	rels := append([]relSpec(nil), t.Rels...)
	sort.Slice(rels, func(i, j int) bool { return rels[i].Name < rels[j].Name })
	var rs []sexp.Node
	for _, r := range rels {
		if r.Custom != nil {
			rs = append(rs, sexp.T("custom", sexp.Str(r.Name), outsSexp(r.Custom.Outs), outsSexp(r.Custom.Add), outsSexp(r.Custom.Remove)))
		} else if r.Many {
			rs = append(rs, sexp.T("many", sexp.Str(r.Name), sexp.Bool(r.ByDefault), outsSexp(r.ManyOuts), changeSexp(r.Add), changeSexp(r.Remove)))
		} else {
			rs = append(rs, sexp.T("one", sexp.Str(r.Name), sexp.Bool(r.ByDefault), outsSexp(r.One)))
		}
	}
	create := sexp.Sym("none")
	if t.Create != nil {
		create = sexp.T("creates", t.Create.Out.sexp(), sexp.Str(t.Create.Id.Type), sexp.Str(t.Create.Id.Id))
	}
	del := sexp.Sym("none")
	if t.Delete != nil {
		var es []sexp.Node
		d := func(h hout) sexp.Node {
			if h.Kind == hErr {
				return errSexp(h.Status)
			}
			return sexp.Sym("ok")
		}
		for _, e := range t.Delete.Entries {
			es = append(es, sexp.L(sexp.Str(e.Id), d(e.Out)))
		}
		del = sexp.T("tbl", sexp.L(es...), d(t.Delete.Default))
	}
	return sexp.T("rt", sexp.Str(t.Name), sexp.L(as...), sexp.L(rs...), t.Get.sexp(), t.Patch.sexp(), create, del)
}

// ------------------------------------------------------------------------------------------------
// the real schema built from the abstract one; application calls are recorded
// ------------------------------------------------------------------------------------------------

type recorder struct{ calls []sexp.Node }

type attrResolver struct{ outs []aout }

func (a attrResolver) ResolveAttribute(ctx context.Context, r *res) (any, *types.Error) {
	o := nthOrLast(a.outs, r.v, aout{Kind: aOk})
	switch o.Kind {
	case aOk:
		return "value", nil
	case aUnser:
		if r.v%2 == 0 {
			return math.NaN(), nil
		}
		return make(chan int), nil
	}
	return nil, mkErr(o.Status)
}

func linkageSexp(v any) sexp.Node {
	switch x := v.(type) {
	case nil:
		return sexp.Sym("null")
	case types.ResourceId:
		return sexp.T("one", sexp.Str(x.Type), sexp.Str(x.Id))
	case []types.ResourceId:
		return sexp.T("many", ridList(x)...)
	}
	return sexp.T("unexpected", sexp.Str(fmt.Sprintf("%T", v)))
}

func attrsArg(attributes map[string]json.RawMessage) sexp.Node {
	keys := make([]string, 0, len(attributes))
	for k := range attributes {
		keys = append(keys, k)
	}
	sort.Strings(keys)
	var out []sexp.Node
	for _, k := range keys {
		out = append(out, sexp.Str(k))
	}
	return sexp.L(out...)
}

func relsArg(relationships map[string]any) sexp.Node {
	keys := make([]string, 0, len(relationships))
	for k := range relationships {
		keys = append(keys, k)
	}
	sort.Strings(keys)
	var out []sexp.Node
	for _, k := range keys {
		out = append(out, sexp.L(sexp.Str(k), linkageSexp(relationships[k])))
	}
	return sexp.L(out...)
}

func manyResult(o manyOut, members []types.ResourceId, emptyAsNil bool) ([]types.ResourceId, *types.Error) {
	switch o.Kind {
	case mErr:
		return nil, mkErr(o.Status)
	case mEcho:
		return members, nil
	}
	if len(o.Ids) == 0 {
		if emptyAsNil {
			return nil, nil
		}
		return []types.ResourceId{}, nil
	}
	return append([]types.ResourceId(nil), o.Ids...), nil
}

func build(specs []typeSpec, rec *recorder) (*jsonapi.Schema, *mapPool) {
	def := &jsonapi.SchemaDefinition{ResourceTypes: map[string]jsonapi.AnyResourceType{}}
	pool := newMapPool() // the shared Links / Meta maps of the custom resolvers of this schema
	for _, ts := range specs {
		ts := ts
		rt := jsonapi.ResourceType[*res]{}
		if len(ts.Attrs) > 0 {
			rt.Attributes = map[string]*jsonapi.AttributeDefinition[*res]{}
			for _, a := range ts.Attrs {
				rt.Attributes[a.Name] = &jsonapi.AttributeDefinition[*res]{Resolver: attrResolver{a.Outs}}
			}
		}
		if len(ts.Rels) > 0 {
			rt.Relationships = map[string]*jsonapi.RelationshipDefinition[*res]{}
			for _, r := range ts.Rels {
				r := r
				if r.Custom != nil {
					rt.Relationships[r.Name] = &jsonapi.RelationshipDefinition[*res]{Resolver: customResolver{r.Custom, pool, rec}}
				} else if r.Many {
					rr := jsonapi.ToManyRelationshipResolver[*res]{
						ResolveByDefault: r.ByDefault,
						Resolve: func(ctx context.Context, x *res) ([]types.ResourceId, *types.Error) {
							return manyResult(nthOrLast(r.ManyOuts, x.v, manyOut{}), nil, x.v%2 == 0)
						},
					}
					if r.Add != nil {
						rr.AddMembers = func(ctx context.Context, x *res, members []types.ResourceId) ([]types.ResourceId, *types.Error) {
							rec.calls = append(rec.calls, sexp.T("add", ridList(members)...))
							return manyResult(nthOrLast(r.Add, x.v, manyOut{}), members, x.v%2 == 0)
						}
					}
					if r.Remove != nil {
						rr.RemoveMembers = func(ctx context.Context, x *res, members []types.ResourceId) ([]types.ResourceId, *types.Error) {
							rec.calls = append(rec.calls, sexp.T("remove", ridList(members)...))
							return manyResult(nthOrLast(r.Remove, x.v, manyOut{}), members, x.v%2 == 0)
						}
					}
					rt.Relationships[r.Name] = &jsonapi.RelationshipDefinition[*res]{Resolver: rr}
				} else {
					rt.Relationships[r.Name] = &jsonapi.RelationshipDefinition[*res]{Resolver: jsonapi.ToOneRelationshipResolver[*res]{
						ResolveByDefault: r.ByDefault,
						Resolve: func(ctx context.Context, x *res) (*types.ResourceId, *types.Error) {
							o := nthOrLast(r.One, x.v, oneOut{})
							switch o.Kind {
							case oNull:
								return nil, nil
							case oId:
								id := o.Id
								return &id, nil
							}
							return nil, mkErr(o.Status)
						},
					}}
				}
			}
		}
		if ts.Get != nil {
			rt.Get = func(ctx context.Context, id string) (*res, *types.Error) { return ts.Get.lookup(id).value() }
		}
		if ts.Patch != nil {
			rt.Patch = func(ctx context.Context, id string, attributes map[string]json.RawMessage, relationships map[string]any) (*res, *types.Error) {
				rec.calls = append(rec.calls, sexp.T("patch", sexp.Str(id), attrsArg(attributes), relsArg(relationships)))
				return ts.Patch.lookup(id).value()
			}
		}
		if ts.Create != nil {
			rt.Create = func(ctx context.Context, attributes map[string]json.RawMessage, relationships map[string]any) (*res, types.ResourceId, *types.Error) {
				rec.calls = append(rec.calls, sexp.T("create", attrsArg(attributes), relsArg(relationships)))
				v, err := ts.Create.Out.value()
				return v, ts.Create.Id, err
			}
		}
		if ts.Delete != nil {
			rt.Delete = func(ctx context.Context, id string) *types.Error {
				rec.calls = append(rec.calls, sexp.T("delete", sexp.Str(id)))
				if o := ts.Delete.lookup(id); o.Kind == hErr {
					return mkErr(o.Status)
				}
				return nil
			}
		}
		def.ResourceTypes[ts.Name] = rt
	}
	s, err := jsonapi.NewSchema(def)
	if err != nil {
		panic("harness: generated schema rejected: " + err.Error())
	}
	return s, pool
}

// ------------------------------------------------------------------------------------------------
// JSON trees for request bodies
// ------------------------------------------------------------------------------------------------

type kv struct {
	K string
	V jv
}
type jv struct {
	Kind byte // 'n' null, 't', 'f', '#' number, 's' string, 'a' array, 'o' object
	S    string
	A    []jv
	O    []kv
}

func jnull() jv           { return jv{Kind: 'n'} }
func jstr(s string) jv    { return jv{Kind: 's', S: s} }
func jnum() jv            { return jv{Kind: '#'} }
func jarr(xs ...jv) jv    { return jv{Kind: 'a', A: xs} }
func jobj(kvs ...kv) jv   { return jv{Kind: 'o', O: kvs} }
func f(k string, v jv) kv { return kv{k, v} }
func jid(t, id string) jv { return jobj(f("type", jstr(t)), f("id", jstr(id))) }

func (j jv) sexp() sexp.Node {
	switch j.Kind {
	case 'n':
		return sexp.Sym("null")
	case 't':
		return sexp.Sym("true")
	case 'f':
		return sexp.Sym("false")
	case '#':
		return sexp.Sym("num")
	case 's':
		return sexp.T("s", sexp.Str(j.S))
	case 'a':
		var out []sexp.Node
		for _, x := range j.A {
			out = append(out, x.sexp())
		}
		return sexp.T("a", out...)
	}
	var out []sexp.Node
	for _, m := range j.O {
		out = append(out, sexp.L(sexp.Str(m.K), m.V.sexp()))
	}
	return sexp.T("o", out...)
}

var spaces = []string{"", "", "", " ", "\n\t", "  "}
var numbers = []string{"0", "1", "-2.5e3", "12", "0.5"}

// text of the tree with random insignificant whitespace
func (j jv) write(b *strings.Builder, r *rng.R) {
	ws := func() { b.WriteString(rng.Pick(r, spaces)) }
	switch j.Kind {
	case 'n':
		b.WriteString("null")
	case 't':
		b.WriteString("true")
	case 'f':
		b.WriteString("false")
	case '#':
		b.WriteString(rng.Pick(r, numbers))
	case 's':
		x, _ := json.Marshal(j.S)
		b.Write(x)
	case 'a':
		b.WriteByte('[')
		for i, x := range j.A {
			if i > 0 {
				b.WriteByte(',')
			}
			ws()
			x.write(b, r)
			ws()
		}
		if len(j.A) == 0 {
			ws()
		}
		b.WriteByte(']')
	case 'o':
		b.WriteByte('{')
		for i, m := range j.O {
			if i > 0 {
				b.WriteByte(',')
			}
			ws()
			x, _ := json.Marshal(m.K)
			b.Write(x)
			ws()
			b.WriteByte(':')
			ws()
			m.V.write(b, r)
			ws()
		}
		if len(j.O) == 0 {
			ws()
		}
		b.WriteByte('}')
	}
}

// a request body: raw text that is not a JSON value (Tree == nil), or a tree
type body struct {
	Raw  string
	Tree *jv
	Tail string // bytes after the first value (ignored by a stream decoder)
}

func treeBody(j jv) body    { return body{Tree: &j} }
func rawBody(s string) body { return body{Raw: s} }

func (bd body) text(r *rng.R) string {
	if bd.Tree == nil {
		return bd.Raw
	}
	var b strings.Builder
	b.WriteString(rng.Pick(r, spaces))
	bd.Tree.write(&b, r)
	b.WriteString(bd.Tail)
	return b.String()
}

func (bd body) sexp() sexp.Node {
	if bd.Tree == nil {
		return sexp.Sym("none")
	}
	return sexp.T("json", bd.Tree.sexp(), sexp.Str(bd.Tail))
}

// ------------------------------------------------------------------------------------------------
// requests
// ------------------------------------------------------------------------------------------------

type request struct {
	Method      string
	Path        string // r.URL.Path, unless Target is given
	Target      string // a raw request-target ("/things/a%2Fb?x=1"), parsed like net/http's server does
	Accept      []string
	Query       string // raw query
	Body        body
	ContentType string // the handler does not look at it
}

// the number tokens of a body text (maximal runs of number characters outside strings) and whether
// strconv.ParseFloat finds them inside float64: the table the model's reader asks
func numTable(text string) []sexp.Node {
	var out []sexp.Node
	seen := map[string]bool{}
	isNum := func(c byte) bool {
		return (c >= '0' && c <= '9') || c == '-' || c == '+' || c == '.' || c == 'e' || c == 'E'
	}
	for i := 0; i < len(text); {
		switch {
		case text[i] == '"':
			i++
			for i < len(text) && text[i] != '"' {
				if text[i] == '\\' {
					i++
				}
				i++
			}
			i++
		case isNum(text[i]):
			j := i
			for j < len(text) && isNum(text[j]) {
				j++
			}
			tok := text[i:j]
			if !seen[tok] {
				seen[tok] = true
				_, err := strconv.ParseFloat(tok, 64)
				out = append(out, sexp.L(sexp.Str(tok), sexp.Bool(err == nil)))
			}
			i = j
		default:
			i++
		}
	}
	return out
}

const mediaType = "application/vnd.api+json"

// every substring of an Accept line bounded by commas or the ends, with what mime.ParseMediaType
// says about it (the model does the splitting; the parse itself is not modelled)
func pmtTable(lines []string) sexp.Node {
	seen := map[string]bool{}
	var out []sexp.Node
	add := func(seg string) {
		if seen[seg] {
			return
		}
		seen[seg] = true
		mt, params, err := mime.ParseMediaType(seg)
		keys := make([]string, 0, len(params))
		for k := range params {
			keys = append(keys, k)
		}
		sort.Strings(keys)
		var ks []sexp.Node
		for _, k := range keys {
			ks = append(ks, sexp.Str(k))
		}
		out = append(out, sexp.L(sexp.Str(seg), sexp.Str(mt), sexp.L(ks...), sexp.Bool(err != nil)))
	}
	for _, line := range lines {
		cuts := []int{-1}
		for i := 0; i < len(line); i++ {
			if line[i] == ',' {
				cuts = append(cuts, i)
			}
		}
		cuts = append(cuts, len(line))
		for i := 0; i < len(cuts); i++ {
			for j := i + 1; j < len(cuts); j++ {
				add(line[cuts[i]+1 : cuts[j]])
			}
		}
	}
	return sexp.L(out...)
}

func (rq request) sexp(u *url.URL, text string) sexp.Node {
	var acc, q []sexp.Node
	for _, a := range rq.Accept {
		acc = append(acc, sexp.Str(a))
	}
	keys := make([]string, 0)
	for k := range u.Query() {
		keys = append(keys, k)
	}
	sort.Strings(keys)
	for _, k := range keys {
		q = append(q, sexp.Str(k))
	}
	return sexp.T("req", sexp.T("method", sexp.Str(rq.Method)), sexp.T("path", sexp.Str(u.Path)),
		sexp.T("accept", acc...), sexp.T("query", q...), sexp.T("nums", numTable(text)...), sexp.T("body", sexp.T("raw", sexp.Str(text))))
}

// ------------------------------------------------------------------------------------------------
// observation
// ------------------------------------------------------------------------------------------------

type unparsable string

func fail(format string, args ...any) { panic(unparsable(fmt.Sprintf(format, args...))) }

func members(raw json.RawMessage, what string) map[string]json.RawMessage {
	var m map[string]json.RawMessage
	if err := json.Unmarshal(raw, &m); err != nil || m == nil {
		fail("%s is not an object", what)
	}
	return m
}

func str(raw json.RawMessage, what string) string {
	var s *string
	if err := json.Unmarshal(raw, &s); err != nil || s == nil {
		fail("%s is not a string", what)
	}
	return *s
}

func only(m map[string]json.RawMessage, what string, allowed ...string) {
	for k := range m {
		ok := false
		for _, a := range allowed {
			ok = ok || a == k
		}
		if !ok {
			fail("%s has unexpected member %q", what, k)
		}
	}
}

func sortedKeys(m map[string]json.RawMessage) []string {
	keys := make([]string, 0, len(m))
	for k := range m {
		keys = append(keys, k)
	}
	sort.Strings(keys)
	return keys
}

func linksOf(raw json.RawMessage, what string) []sexp.Node {
	m := members(raw, what)
	var out []sexp.Node
	for _, k := range sortedKeys(m) {
		out = append(out, sexp.L(sexp.Str(k), sexp.Str(str(m[k], what+"."+k))))
	}
	return out
}

func identifier(raw json.RawMessage, what string) (string, string) {
	m := members(raw, what)
	only(m, what, "type", "id")
	if m["type"] == nil || m["id"] == nil {
		fail("%s lacks type or id", what)
	}
	return str(m["type"], what+".type"), str(m["id"], what+".id")
}

func linkageOf(raw json.RawMessage, what string) sexp.Node {
	t := bytes.TrimSpace(raw)
	switch {
	case string(t) == "null":
		return sexp.Sym("null")
	case len(t) > 0 && t[0] == '[':
		var l []json.RawMessage
		if err := json.Unmarshal(t, &l); err != nil {
			fail("%s is not an array", what)
		}
		var out []sexp.Node
		for _, x := range l {
			ty, id := identifier(x, what+"[]")
			out = append(out, sexp.L(sexp.Str(ty), sexp.Str(id)))
		}
		return sexp.T("many", out...)
	}
	ty, id := identifier(raw, what)
	return sexp.T("one", sexp.Str(ty), sexp.Str(id))
}

func itemOf(raw json.RawMessage, what string) sexp.Node {
	m := members(raw, what)
	only(m, what, "type", "id", "attributes", "relationships")
	if m["type"] == nil || m["id"] == nil {
		fail("%s lacks type or id", what)
	}
	var attrs, rels []sexp.Node
	if a, ok := m["attributes"]; ok {
		am := members(a, what+".attributes")
		if len(am) == 0 {
			fail("%s.attributes is empty", what)
		}
		for _, k := range sortedKeys(am) {
			attrs = append(attrs, sexp.Str(k))
		}
	}
	if r, ok := m["relationships"]; ok {
		rm := members(r, what+".relationships")
		if len(rm) == 0 {
			fail("%s.relationships is empty", what)
		}
		for _, k := range sortedKeys(rm) {
			ro := members(rm[k], what+".relationships."+k)
			only(ro, what+".relationships."+k, "links", "data", "meta")
			var lk []sexp.Node
			if l, ok := ro["links"]; ok {
				lk = linksOf(l, what+".relationships."+k+".links")
			}
			data := sexp.Sym("absent")
			if d, ok := ro["data"]; ok {
				data = linkageOf(d, what+".relationships."+k+".data")
			}
			var meta []sexp.Node
			if mraw, ok := ro["meta"]; ok {
				mm := members(mraw, what+".relationships."+k+".meta")
				if len(mm) == 0 {
					fail("%s.relationships.%s.meta is empty", what, k)
				}
				for _, mk := range sortedKeys(mm) {
					meta = append(meta, sexp.Str(mk))
				}
			}
			rels = append(rels, sexp.L(sexp.Str(k), sexp.T("links", lk...), sexp.T("data", data), sexp.T("meta", meta...)))
		}
	}
	return sexp.L(sexp.Str(str(m["type"], what+".type")), sexp.Str(str(m["id"], what+".id")), sexp.T("attrs", attrs...), sexp.T("rels", rels...))
}

func observeBody(b []byte) (node sexp.Node) {
	defer func() {
		if e := recover(); e != nil {
			if u, ok := e.(unparsable); ok {
				node = sexp.T("unparsable", sexp.Str(string(u)))
				return
			}
			panic(e)
		}
	}()
	top := members(b, "document")
	_, hasJ := top["jsonapi"]
	_, hasD := top["data"]
	_, hasE := top["errors"]
	if st, ok := top["status"]; ok && !hasJ && !hasD && !hasE {
		return sexp.T("bare", sexp.Str(str(st, "status")))
	}
	only(top, "document", "jsonapi", "data", "errors", "links")
	version := sexp.None()
	if hasJ {
		jm := members(top["jsonapi"], "jsonapi")
		only(jm, "jsonapi", "version")
		v := ""
		if jm["version"] != nil {
			v = str(jm["version"], "jsonapi.version")
		}
		version = sexp.Some(sexp.Str(v))
	}
	data := sexp.Sym("absent")
	if hasD {
		t := bytes.TrimSpace(top["data"])
		switch {
		case string(t) == "null":
			data = sexp.Sym("null")
		case t[0] == '[':
			var l []json.RawMessage
			if err := json.Unmarshal(t, &l); err != nil {
				fail("data is not an array")
			}
			var out []sexp.Node
			for _, x := range l {
				out = append(out, itemOf(x, "data[]"))
			}
			data = sexp.T("many", out...)
		default:
			data = sexp.T("one", itemOf(t, "data"))
		}
	}
	var errs []sexp.Node
	if hasE {
		var l []json.RawMessage
		if err := json.Unmarshal(top["errors"], &l); err != nil || len(l) == 0 {
			fail("errors is not a non-empty array")
		}
		for _, x := range l {
			em := members(x, "errors[]")
			s := ""
			if em["status"] != nil {
				s = str(em["status"], "errors[].status")
			}
			errs = append(errs, sexp.Str(s))
		}
	}
	var lk []sexp.Node
	if l, ok := top["links"]; ok {
		lk = linksOf(l, "links")
	}
	return sexp.T("doc", sexp.T("jsonapi", version), sexp.T("data", data), sexp.T("errors", errs...), sexp.T("links", lk...))
}

// ------------------------------------------------------------------------------------------------
// one case
// ------------------------------------------------------------------------------------------------

// one request against the API value; the recorder is emptied first
func serve(r *rng.R, api jsonapi.API, pool *mapPool, rec *recorder, rq request) (reqNode, pmtNode, obs sexp.Node) {
	rec.calls = nil
	text := rq.Body.text(r)
	hr := httptest.NewRequest("GET", "/", strings.NewReader(text))
	hr.Method = rq.Method
	hr.URL = &url.URL{Path: rq.Path, RawQuery: rq.Query}
	if rq.Target != "" {
		u, err := url.ParseRequestURI(rq.Target) // what net/http's server does with the request line
		if err != nil {
			panic("harness: request-target does not parse: " + rq.Target)
		}
		hr.URL = u
	}
	for _, a := range rq.Accept {
		hr.Header.Add("Accept", a)
	}
	if rq.ContentType != "" {
		hr.Header.Set("Content-Type", rq.ContentType)
	}
	w := httptest.NewRecorder()
	panicked := func() (p bool) {
		defer func() {
			if e := recover(); e != nil {
				p = true
			}
		}()
		api.ServeHTTP(w, hr)
		return false
	}()
	if panicked {
		obs = sexp.T("obs", sexp.Sym("panic"))
	} else {
		obs = sexp.T("obs", sexp.T("status", sexp.Int(w.Code)), sexp.T("ctype", sexp.Str(w.Header().Get("Content-Type"))),
			sexp.T("body", observeBody(w.Body.Bytes())), sexp.T("calls", rec.calls...), sexp.T("maps", mapsNode(pool)))
	}
	return rq.sexp(hr.URL, text), pmtTable(rq.Accept), obs
}

func mapsNode(pool *mapPool) sexp.Node {
	if pool.unchanged() {
		return sexp.Sym("unchanged")
	}
	return sexp.Sym("written")
}

func schemaSexp(specs []typeSpec) sexp.Node {
	var ts []sexp.Node
	for _, s := range specs {
		ts = append(ts, s.sexp())
	}
	return sexp.T("schema", ts...)
}

func runCase(r *rng.R, specs []typeSpec, rq request) sexp.Node {
	rec := &recorder{}
	schema, pool := build(specs, rec)
	api := jsonapi.API{Schema: schema}
	reqNode, pmtNode, obs := serve(r, api, pool, rec, rq)
	return sexp.T("case", schemaSexp(specs), sexp.T("pmt", pmtNode.List...), sexp.T("request", reqNode), sexp.T("observed", obs))
}

// a history: several requests, one after the other, against ONE API value (one schema, one set of
// resolvers with their shared Links maps)
func runHistory(r *rng.R, specs []typeSpec, rqs []request) sexp.Node {
	rec := &recorder{}
	schema, pool := build(specs, rec)
	api := jsonapi.API{Schema: schema}
	var steps []sexp.Node
	for _, rq := range rqs {
		reqNode, pmtNode, obs := serve(r, api, pool, rec, rq)
		steps = append(steps, sexp.T("step", sexp.T("pmt", pmtNode.List...), sexp.T("request", reqNode), sexp.T("observed", obs)))
	}
	return sexp.T("case", schemaSexp(specs), sexp.T("steps", steps...))
}

// ------------------------------------------------------------------------------------------------
// the fixed "rich" schema family: outcomes are selected by the resource id
// ------------------------------------------------------------------------------------------------

func rid(t, id string) types.ResourceId { return types.ResourceId{Type: t, Id: id} }

// resource values 0..9 and what the resolvers of "things" do with them
var thingAttrs = []attrSpec{
	{Name: "a", Outs: []aout{{aOk, ""}, {aUnser, ""}, {aErr, "403"}, {aErr, ""}, {aOk, ""}, {aOk, ""}, {aOk, ""}, {aOk, ""}, {aOk, ""}, {aErr, "abc"}, {aOk, ""}}},
	{Name: "b-2", Outs: []aout{{aOk, ""}, {aOk, ""}, {aOk, ""}, {aErr, "422"}, {aOk, ""}, {aOk, ""}, {aOk, ""}, {aOk, ""}, {aOk, ""}, {aErr, "99"}, {aOk, ""}}},
}

func thingRels(oneDefault, manyDefault bool, add, remove bool) []relSpec {
	many := relSpec{Name: "many", Many: true, ByDefault: manyDefault, ManyOuts: []manyOut{
		{mIds, []types.ResourceId{rid("others", "1"), rid("things", "2"), rid("unknown", "9"), rid("others", "nil")}, ""},
		{mIds, []types.ResourceId{rid("others", "1")}, ""},
		{mIds, []types.ResourceId{rid("others", "1")}, ""},
		{mIds, []types.ResourceId{rid("others", "1")}, ""},
		{mIds, nil, ""},
		{mErr, nil, ""},
		{mIds, []types.ResourceId{rid("others", "1"), rid("others", "e404"), rid("others", "v2")}, ""},
		{mIds, []types.ResourceId{rid("things", "v1"), rid("others", "1")}, ""},
		{mIds, []types.ResourceId{rid("others", "nil"), rid("unknown", "1")}, ""},
		{mIds, []types.ResourceId{rid("others", "1")}, ""},
		{mIds, []types.ResourceId{rid("things", "v3")}, ""},
	}}
	if add {
		many.Add = []manyOut{{mEcho, nil, ""}, {mIds, []types.ResourceId{rid("others", "7")}, ""}, {mErr, nil, "403"}, {mErr, nil, ""}, {mIds, nil, ""}, {mIds, nil, ""}}
	}
	if remove {
		many.Remove = []manyOut{{mIds, nil, ""}, {mIds, nil, ""}, {mErr, nil, "409"}, {mEcho, nil, ""}, {mIds, []types.ResourceId{rid("others", "1")}, ""}}
	}
	one := relSpec{Name: "one", ByDefault: oneDefault, One: []oneOut{
		{oId, rid("others", "1"), ""},
		{oId, rid("others", "1"), ""},
		{oId, rid("others", "1"), ""},
		{oId, rid("others", "1"), ""},
		{oNull, types.ResourceId{}, ""},
		{oErr, types.ResourceId{}, "503"},
		{oId, rid("unknown", "1"), ""},
		{oId, rid("things", "v1"), ""},
		{oId, rid("others", "nil"), ""},
		{oId, rid("others", "e404"), ""},
		{oId, rid("others", "2"), ""},
	}}
	return []relSpec{many, one}
}

// ids and what Get / Patch answer for them
func idTable() *table {
	t := &table{Default: hout{Kind: hVal, V: 0}}
	for v := 1; v <= 10; v++ {
		t.Entries = append(t.Entries, entry{fmt.Sprintf("v%d", v), hout{Kind: hVal, V: v}})
	}
	t.Entries = append(t.Entries,
		entry{"nil", hout{Kind: hNil}},
		entry{"e404", hout{Kind: hErr, Status: "404"}},
		entry{"e0", hout{Kind: hErr, Status: ""}},
		entry{"ebad", hout{Kind: hErr, Status: "abc"}},
		entry{"e1000", hout{Kind: hErr, Status: "1000"}},
		entry{"e+451", hout{Kind: hErr, Status: "+451"}},
		entry{"e100", hout{Kind: hErr, Status: "100"}},
		entry{"e999", hout{Kind: hErr, Status: "999"}},
		entry{"emeta", hout{Kind: hErr, Status: "403!"}},
	)
	return t
}

func richSchema(subset, otherSubset int, flip bool) []typeSpec {
	mk := func(name string, subset int, attrs []attrSpec, rels []relSpec, created types.ResourceId) typeSpec {
		ts := typeSpec{Name: name, Attrs: attrs, Rels: rels}
		if subset&1 != 0 {
			ts.Get = idTable()
		}
		if subset&2 != 0 {
			ts.Patch = idTable()
		}
		if subset&4 != 0 {
			ts.Create = &createSpec{Out: hout{Kind: hVal, V: 0}, Id: created}
		}
		if subset&8 != 0 {
			ts.Delete = idTable()
		}
		return ts
	}
	otherAttrs := []attrSpec{{Name: "name", Outs: []aout{{aOk, ""}, {aOk, ""}, {aErr, "410"}}}}
	return []typeSpec{
		mk("things", subset, thingAttrs, thingRels(!flip, flip, subset&16 == 0, subset&32 == 0), rid("things", "new")),
		mk("others", otherSubset, otherAttrs, nil, rid("things", "made")), // Create may answer with another type
	}
}

// ------------------------------------------------------------------------------------------------
// the "custom" schema family: relationships resolved by RelationshipResolver implementations of the
// application's own, whose Links maps are (shared = true) ONE map per schema, handed out for every
// resource, both relationships and every request
// ------------------------------------------------------------------------------------------------

func customSchema(preset string, shared bool) []typeSpec {
	co := func(data int, meta int, always bool) customOut {
		return customOut{Links: preset, Shared: shared, Data: data, Meta: meta, Always: always}
	}
	one := func(t, id string, meta int, always bool) customOut {
		o := co(dOne, meta, always)
		o.One = rid(t, id)
		return o
	}
	many := func(meta int, ids ...types.ResourceId) customOut {
		o := co(dMany, meta, false)
		o.Ids = ids
		return o
	}
	owner := &customSpec{
		Outs: []customOut{
			one("others", "1", 0, false),
			one("things", "v2", 2, true),
			co(dAbsent, 0, false), // no Data although requested
			{Err: true, Status: "403"},
			co(dNull, 3, false), // Meta that does not marshal
			many(1, rid("things", "v1"), rid("things", "1"), rid("others", "1"), rid("things", "v2"), rid("unknown", "1")),
			one("things", "v6", 0, false),
		},
		Add:    []customOut{co(dEcho, 2, false), {Err: true, Status: "409"}, co(dAbsent, 0, false), many(0)},
		Remove: []customOut{many(0), co(dEcho, 3, false), {Err: true, Status: ""}, co(dNull, 0, false)},
	}
	tags := &customSpec{
		Outs:   []customOut{many(0, rid("things", "v1"), rid("things", "v5")), many(2), co(dNull, 0, true)},
		Add:    []customOut{co(dEcho, 0, false)},
		Remove: []customOut{co(dEcho, 0, false)},
	}
	things := typeSpec{Name: "things", Attrs: []attrSpec{{Name: "a", Outs: []aout{{aOk, ""}}}},
		Rels: []relSpec{
			{Name: "owner", Custom: owner},
			{Name: "tags", Custom: tags},
			{Name: "one", ByDefault: true, One: []oneOut{{oId, rid("things", "v1"), ""}}},
		},
		Get: idTable(), Patch: idTable(), Create: &createSpec{Out: hout{Kind: hVal, V: 1}, Id: rid("things", "new")}, Delete: idTable()}
	others := typeSpec{Name: "others", Get: idTable(),
		Rels: []relSpec{{Name: "back", Custom: &customSpec{Outs: []customOut{one("things", "1", 0, true)}, Add: []customOut{co(dEcho, 0, false)}, Remove: []customOut{co(dEcho, 0, false)}}}}}
	return []typeSpec{things, others}
}

var contentTypes = []string{"", mediaType, mediaType + "; charset=utf-8", mediaType + `; profile="p"`, mediaType + `; ext="e"`,
	"application/json", "text/plain", "APPLICATION/VND.API+JSON", "application/x-www-form-urlencoded", "garbage;;"}

// request documents written by hand, byte for byte
var rawDocuments = []string{
	// repeated members: strings (last wins, null stores ""), case-insensitive names
	`{"data":{"type":"x","type":"things","id":"1"}}`, `{"data":{"type":"things","type":"x","id":"1"}}`,
	`{"data":{"type":"things","type":null,"id":"1"}}`, `{"data":{"type":null,"type":"things","id":"1"}}`,
	`{"data":{"type":"things","id":"2","ID":"1"}}`, `{"data":{"type":"things","id":"1","Id":null}}`, `{"data":{"TYPE":"x","type":"things","iD":"1"}}`,
	// repeated "data": merged field by field, null is a no-op
	`{"data":{"type":"x","id":"1"},"data":{"type":"things"}}`, `{"data":{"type":"things","id":"1"},"data":null}`, `{"data":null,"data":{"type":"things","id":"1"}}`,
	`{"data":{"type":"things","id":"1"},"DATA":{"id":"2"}}`, `{"data":{"type":"things","id":"1"},"data":5}`, `{"data":5,"data":{"type":"things","id":"1"}}`,
	`{"data":{"type":"things","id":"1","attributes":{"a":1}},"data":{"attributes":{"b":2}}}`,
	// repeated maps: merged, null resets
	`{"data":{"type":"things","id":"1","attributes":{"a":1,"a":2,"b":3},"attributes":{"c":1}}}`, `{"data":{"type":"things","id":"1","attributes":{"a":1},"attributes":null}}`,
	`{"data":{"type":"things","id":"1","attributes":null,"attributes":{"a":1}}}`, `{"data":{"type":"things","id":"1","attributes":{"a":1,"A":2}}}`,
	`{"data":{"type":"things","id":"1","attributes":{"a":1},"ATTRIBUTES":{"b":[1,{"c":null}]}}}`,
	`{"data":{"type":"things","id":"1","relationships":{"r":{"data":{"type":"a","id":"b"}},"r":{}}}}`, `{"data":{"type":"things","id":"1","relationships":{"r":{},"r":{"data":{"type":"a","id":"b"}}}}}`,
	`{"data":{"type":"things","id":"1","relationships":{"r":{"data":null,"data":{"type":"a","id":"b"}},"q":{"data":[]}},"relationships":{"q":{"data":[{"type":"c","id":"d"}]}}}}`,
	`{"data":{"type":"things","id":"1","relationships":{"r":{"data":{"type":"a","id":"b"}}},"relationships":null}}`,
	`{"data":{"type":"things","id":"1","relationships":{"r":{"data":{"type":"a","id":"b"},"DATA":null}}}}`, `{"data":{"type":"things","id":"1","relationships":{"r":{"data":{"type":"a","id":"b","type":null}}}}}`,
	`{"data":{"type":"things","id":"1","relationships":{"r":{"data":[{"type":"a","id":"b"},{"type":"c","id":"d"}],"data":[{"type":"e"}]}}}}`,
	`{"data":{"type":"things","id":"1","relationships":{"r":{"data":{"type":"a","id":"b"},"data":5}}}}`, `{"data":{"type":"things","id":"1","relationships":{"r":{"data":5,"data":{"type":"a","id":"b"}}}}}`,
	// linkage documents
	`{"data":{"type":"others","id":"3"},"data":null}`, `{"data":null,"data":{"type":"others","id":"3"}}`, `{"data":[],"data":{"type":"others","id":"3"}}`,
	`{"data":{"type":"others","id":"3","type":"things"}}`, `{"data":{"type":"others","id":3}}`, `{"data":{"type":"others","id":"3","meta":{"x":[1e5,-2]}}}`,
	// add / remove documents: the slice is reused
	`{"data":[{"type":"a","id":"b"},{"type":"c","id":"d"}],"data":[{"type":"e"}]}`, `{"data":[{"type":"a","id":"b"}],"data":null}`, `{"data":[{"type":"a","id":"b"}],"data":[]}`,
	`{"data":[{"type":"a","id":"b"}],"data":null,"data":[{"type":"e"}]}`, `{"data":[{"type":"a","id":"b"}],"data":[],"data":[{"id":"f"}]}`,
	`{"data":[{"type":"a","id":"b","type":"z","id":null}]}`, `{"data":[null,{"type":"a"}]}`, `{"data":[{"type":"a","id":"b"},{"type":"c","id":"d"}],"data":[null,null]}`,
	`{"data":[{"type":"a","id":"b"},{"type":"c","id":"d"}],"data":[{"type":"e"},{"id":"f"},{"type":"g"}]}`,
	`{"data":[{"type":"a","id":"b"},{"type":"c","id":"d"},{"type":"e","id":"f"}],"data":[{"type":"1"}],"data":[{"id":"2"},{"id":"3"},{"id":"4"},{"id":"5"},{"id":"6"}]}`,
	`{"data":[{"type":"a","id":"b"}],"DATA":[{"ID":"c"},{}]}`, `{"data":[{"type":"a","id":"b"}],"data":[{"type":5}]}`, `{"data":[{"type":"a","id":"b"}],"data":{"type":"a"}}`,
	// numbers: as ids, in skipped members, inside raw attribute values; out of float64 range
	`{"data":{"type":"things","id":1}}`, `{"data":{"type":"things","id":"1","x":0}}`, `{"data":{"type":"things","id":"1","x":-0}}`, `{"data":{"type":"things","id":"1","x":1e999}}`,
	`{"data":{"type":"things","id":"1","x":-1e999}}`, `{"data":{"type":"things","id":"1","x":1E+400}}`, `{"data":{"type":"things","id":"1","x":1e-999}}`,
	`{"data":{"type":"things","id":"1","x":123456789012345678901234567890123456789012345678901234567890}}`,
	`{"data":{"type":"things","id":"1","x":` + strings.Repeat("9", 400) + `}}`, `{"data":{"type":"things","id":"1","x":-` + strings.Repeat("9", 400) + `}}`,
	`{"data":{"type":"things","id":"1","x":` + strings.Repeat("9", 400) + `.5}}`, `{"data":{"type":"things","id":"1","x":0.` + strings.Repeat("0", 400) + `1}}`,
	`{"data":{"type":"things","id":"1","attributes":{"a":1e999}}}`, `{"data":{"type":"things","id":"1","attributes":{"a":[1.5,{"b":-2.5e-3}]}}}`, `{"data":{"type":"things","id":"1","attributes":{"a":1.0e+2,"b":2E5}}}`,
	`{"data":{"type":"things","id":"1","x":01}}`, `{"data":{"type":"things","id":"1","x":1.}}`, `{"data":{"type":"things","id":"1","x":.5}}`, `{"data":{"type":"things","id":"1","x":-}}`,
	`{"data":{"type":"things","id":"1","x":1e}}`, `{"data":{"type":"things","id":"1","x":+1}}`, `{"data":{"type":"things","id":"1","x":0x10}}`, `{"data":{"type":"things","id":"1","x":1e5e5}}`,
	// strings: escapes in names and values, surrogates, control characters, bytes that are no UTF-8
	`{"d\u0061ta":{"type":"things","id":"1"}}`, `{"data":{"t\u0079pe":"things","id":"\u0031"}}`, `{"data":{"type":"th\u0069ngs","id":"1"}}`, `{"data":{"type":"things","id":"1\n"}}`,
	`{"data":{"type":"things","id":"\ud800"}}`, `{"data":{"type":"things","id":"1","x":"\ud800"}}`, `{"data":{"type":"things","id":"1","x":"\ud83d\ude00"}}`, `{"data":{"type":"things","id":"1","x":"\ude00\ud83d"}}`,
	`{"data":{"type":"things","id":"1","x":"\ud800\u0041"}}`, `{"data":{"type":"things","id":"1","x":"\ud800\uZZZZ"}}`, `{"data":{"type":"things","id":"1","x":"\uD83D"}}`,
	`{"data":{"type":"things","id":"1","x":"\q"}}`, `{"data":{"type":"things","id":"1","x":"\u12"}}`, `{"data":{"type":"things","id":"1","x":"a\/b\b\f\r\t\\\""}}`,
	"{\"data\":{\"type\":\"things\",\"id\":\"1\",\"x\":\"a\nb\"}}", "{\"data\":{\"type\":\"things\",\"id\":\"1\",\"x\":\"a\tb\"}}", "{\"data\":{\"type\":\"things\",\"id\":\"1\",\"x\":\"\x7f\"}}",
	"{\"data\":{\"type\":\"things\",\"id\":\"1\",\"x\":\"\xff\"}}", "{\"data\":{\"type\":\"things\",\"id\":\"1\xff\"}}", "{\"data\":{\"type\":\"things\",\"id\":\"1\",\"\xc3\":1}}",
	"{\"data\":{\"type\":\"things\",\"id\":\"1\",\"x\":\"\xe2\x82\\\"}}", "{\"data\":{\"type\":\"things\",\"id\":\"\xc3\xa9\"}}",
	// literals, structure, white space, trailing bytes, NUL, byte order mark
	`{"data":{"type":"things","id":"1","x":tru}}`, `{"data":{"type":"things","id":"1","x":nul}}`, `{"data":{"type":"things","id":"1","x":True}}`, `{"data":{"type":"things","id":"1","x":[1,]}}`,
	`{"data":{"type":"things","id":"1",}}`, `{"data":{"type":"things","id":"1"},}`, `{"data":{"type":"things" "id":"1"}}`, `{"data":{"type":"things","id":"1"}`, `{"data":{"type":"things","id":"1"}}}`,
	`{'data':{"type":"things","id":"1"}}`, `{data:{"type":"things","id":"1"}}`, `[{"data":{"type":"things","id":"1"}}]`, `"data"`, `null`, `true`, `0`, ` null `, `nullx`, ``, ` `,
	"\xef\xbb\xbf" + `{"data":{"type":"things","id":"1"}}`, `{"data":{"type":"things","id":"1"}}` + "\x00", `{"data":{"type":"things","id":"1"}}` + "\x00}", "\x00" + `{"data":{"type":"things","id":"1"}}`,
	`{"data":{"type":"things","id":"1"}}` + "\x0c", `{"data":{"type":"things","id":"1"}}` + "\xc2\xa0", "\t\r\n " + `{ "data" : { "type" : "things" , "id" : "1" } }` + " \n",
	`{"data":{"type":"things","id":"1","x":{"a":{"b":{"c":[[[{"d":null}]]]}}}}}`, `{"":{"":""},"data":{"type":"things","id":"1","":""}}`,
}

// a document glued from fragments that matter to the decoders
func randRawDocument(r *rng.R) string {
	ids := []string{`{"type":"others","id":"1"}`, `{"type":"things","id":"1"}`, `{"id":"2"}`, `{"type":"e"}`, `{}`, `null`, `{"type":"a","id":"b","type":null}`, `{"TYPE":"others","Id":"3"}`, `5`, `{"id":7}`}
	value := func() string {
		switch r.Intn(7) {
		case 0:
			return "null"
		case 1:
			return rng.Pick(r, ids)
		case 2:
			var xs []string
			for n := r.Intn(4); n > 0; n-- {
				xs = append(xs, rng.Pick(r, ids))
			}
			return "[" + strings.Join(xs, ",") + "]"
		case 3:
			return rng.Pick(r, []string{"0", "-1", "1.5", "1e5", "1e999", "-1E-999", "12345678901234567890", "1.0e+2", "true", `"x"`, `"\ud800"`, `"\u0031"`, "[]", "{}", `{"k":[1,2,{"z":null}]}`})
		}
		return rng.Pick(r, ids)
	}
	key := func(k string) string {
		if r.Chance(1, 6) {
			return randCase(k, r)
		}
		return k
	}
	if r.Chance(1, 2) {
		// a linkage / members document
		var ms []string
		for n := r.Range(1, 3); n > 0; n-- {
			ms = append(ms, `"`+key("data")+`":`+value())
		}
		if r.Chance(1, 4) {
			ms = append(ms, `"meta":`+value())
		}
		return "{" + strings.Join(ms, rng.Pick(r, []string{",", " , ", ",\n"})) + "}" + rng.Pick(r, []string{"", "", "", " ", "\x00", "}"})
	}
	var docs []string
	for n := r.Range(1, 2); n > 0; n-- {
		var ms []string
		for k := r.Range(1, 5); k > 0; k-- {
			switch r.Intn(6) {
			case 0:
				ms = append(ms, `"`+key("type")+`":`+rng.Pick(r, []string{`"things"`, `"things"`, `"others"`, "null", "5", `"th\u0069ngs"`}))
			case 1:
				ms = append(ms, `"`+key("id")+`":`+rng.Pick(r, []string{`"1"`, `"1"`, `"2"`, "null", "1", `"\u0031"`}))
			case 2:
				ms = append(ms, `"`+key("attributes")+`":`+rng.Pick(r, []string{`{"a":1}`, `{"b":[1.5e3]}`, `{"a":1,"a":2,"A":3}`, "null", "[]", `{"a":1e999}`, "{}"}))
			case 3:
				ms = append(ms, `"`+key("relationships")+`":`+rng.Pick(r, []string{`{"r":{"data":` + value() + `}}`, `{"r":{"data":` + value() + `},"r":{"data":` + value() + `}}`, `{"r":{"data":` + value() + `,"data":` + value() + `},"q":{}}`, "null", "5", "{}"}))
			case 4:
				ms = append(ms, `"x":`+value())
			default:
				ms = append(ms, `"type":"things","id":"1"`)
			}
		}
		docs = append(docs, `"`+key("data")+`":`+rng.Pick(r, []string{"{" + strings.Join(ms, ",") + "}", "{" + strings.Join(ms, ",") + "}", "{" + strings.Join(ms, ",") + "}", "null"}))
	}
	return "{" + strings.Join(docs, ",") + "}" + rng.Pick(r, []string{"", "", "", "\n", "x"})
}

// ------------------------------------------------------------------------------------------------
// NewSchema: schema definitions and whether they are accepted
// ------------------------------------------------------------------------------------------------

type attrDef struct {
	Name        string
	HasResolver bool
}

// Kind: 0 Resolver == nil, 1 to-one with Resolve, 2 to-many with Resolve, 3 to-one without, 4 to-many without, 5 custom
type relDefSpec struct {
	Name string
	Kind int
}

type typeDef struct {
	Name  string
	Attrs []attrDef
	Rels  []relDefSpec
}

var schemaNames = []string{"things", "a", "A9", "9", "a-b", "a_b", "a-", "-a", "_a", "a_", "-", "_", "", "id", "type", "ID", "Type", "ids", "data",
	"relationships", "a b", " a", "a.b", "a/b", "a[b]", "é", "aé", "éa", "a\x00", "a\xff", "x-y_z-9", "a--b", "a__b", "0-0", "type ", "Id"}

func (d typeDef) sexp() sexp.Node {
	var as, rs []sexp.Node
	for _, a := range d.Attrs {
		as = append(as, sexp.L(sexp.Str(a.Name), sexp.Bool(a.HasResolver)))
	}
	for _, r := range d.Rels {
		kind := []string{"nil", "lib", "lib", "lib-no-resolve", "lib-no-resolve", "custom"}[r.Kind]
		rs = append(rs, sexp.L(sexp.Str(r.Name), sexp.Sym(kind)))
	}
	return sexp.T("td", sexp.Str(d.Name), sexp.L(as...), sexp.L(rs...))
}

// name at one position (type, attribute, relationship, attribute and relationship) of an otherwise fine definition
func namedDef(name string, pos int) []typeDef {
	d := typeDef{Name: "things", Attrs: []attrDef{{"title", true}}, Rels: []relDefSpec{{"author", 1}}}
	switch pos {
	case 0:
		d.Name = name
	case 1:
		d.Attrs = append(d.Attrs, attrDef{name, true})
	case 2:
		d.Rels = append(d.Rels, relDefSpec{name, 2})
	default:
		d.Attrs = append(d.Attrs, attrDef{name, true})
		d.Rels = append(d.Rels, relDefSpec{name, 5})
	}
	return []typeDef{d, {Name: "others"}}
}

func randDef(r *rng.R) []typeDef {
	good := []string{"things", "others", "title", "author", "tags", "a", "b-2", "Cc", "x_y", "n9"}
	name := func() string {
		if r.Chance(1, 8) {
			return rng.Pick(r, schemaNames)
		}
		return rng.Pick(r, good)
	}
	var out []typeDef
	usedTypes := map[string]bool{}
	for n := r.Range(1, 3); n > 0; n-- {
		d := typeDef{Name: name()}
		if usedTypes[d.Name] {
			continue
		}
		usedTypes[d.Name] = true
		usedA, usedR := map[string]bool{}, map[string]bool{}
		for k := r.Intn(4); k > 0; k-- {
			a := attrDef{name(), !r.Chance(1, 12)}
			if !usedA[a.Name] {
				usedA[a.Name] = true
				d.Attrs = append(d.Attrs, a)
			}
		}
		for k := r.Intn(4); k > 0; k-- {
			rel := relDefSpec{name(), rng.Pick(r, []int{1, 1, 2, 2, 5, 5, 0, 3, 4})}
			if r.Chance(3, 4) && usedA[rel.Name] {
				continue // an attribute of the same name: mostly avoided
			}
			if !usedR[rel.Name] {
				usedR[rel.Name] = true
				d.Rels = append(d.Rels, rel)
			}
		}
		out = append(out, d)
	}
	return out
}

func runNewSchema(defs []typeDef) sexp.Node {
	def := &jsonapi.SchemaDefinition{ResourceTypes: map[string]jsonapi.AnyResourceType{}}
	var nodes []sexp.Node
	for _, d := range defs {
		nodes = append(nodes, d.sexp())
		rt := jsonapi.ResourceType[*res]{}
		if len(d.Attrs) > 0 {
			rt.Attributes = map[string]*jsonapi.AttributeDefinition[*res]{}
			for _, a := range d.Attrs {
				ad := &jsonapi.AttributeDefinition[*res]{}
				if a.HasResolver {
					ad.Resolver = attrResolver{}
				}
				rt.Attributes[a.Name] = ad
			}
		}
		if len(d.Rels) > 0 {
			rt.Relationships = map[string]*jsonapi.RelationshipDefinition[*res]{}
			one := func(ctx context.Context, x *res) (*types.ResourceId, *types.Error) { return nil, nil }
			many := func(ctx context.Context, x *res) ([]types.ResourceId, *types.Error) { return nil, nil }
			for _, rel := range d.Rels {
				rd := &jsonapi.RelationshipDefinition[*res]{}
				switch rel.Kind {
				case 1:
					rd.Resolver = jsonapi.ToOneRelationshipResolver[*res]{Resolve: one}
				case 2:
					rd.Resolver = jsonapi.ToManyRelationshipResolver[*res]{Resolve: many}
				case 3:
					rd.Resolver = jsonapi.ToOneRelationshipResolver[*res]{ResolveByDefault: true}
				case 4:
					rd.Resolver = jsonapi.ToManyRelationshipResolver[*res]{}
				case 5:
					rd.Resolver = customResolver{&customSpec{}, newMapPool(), &recorder{}}
				}
				rt.Relationships[rel.Name] = rd
			}
		}
		def.ResourceTypes[d.Name] = rt
	}
	_, err := jsonapi.NewSchema(def)
	return sexp.T("case", sexp.T("newschema", nodes...), sexp.T("accepted", sexp.Bool(err == nil)))
}

func thingDoc(id string) body {
	return treeBody(jobj(f("data", jobj(f("type", jstr("things")), f("id", jstr(id))))))
}

func membersDoc(ids ...jv) body { return treeBody(jobj(f("data", jarr(ids...)))) }

// histories in which a value written for one resource / relationship / request could leak into a later one
func customHistories() [][]request {
	g := func(p string) request { return request{Method: "GET", Path: p, Accept: okAccept} }
	m := func(method, p string, b body) request {
		return request{Method: method, Path: p, Accept: okAccept, Body: b}
	}
	return [][]request{
		{g("/things/1"), g("/things/v1"), g("/things/1")},
		{g("/things/v1"), g("/things/1")},
		{g("/things/v1/relationships/owner"), g("/things/1/relationships/owner"), g("/things/1")},
		{g("/things/1/relationships/tags"), g("/things/1/relationships/owner"), g("/things/v6/relationships/owner")},
		{g("/things/v5/owner")},
		{g("/things/1/tags"), g("/things/v1")},
		{g("/things/1/owner"), g("/things/v1/owner"), g("/things/v6/owner")},
		{g("/others/1"), g("/things/1"), g("/others/1/back"), g("/others/2")},
		{m("PATCH", "/things/1", thingDoc("1")), g("/things/v1"), m("PATCH", "/things/v1", thingDoc("v1"))},
		{m("POST", "/things", treeBody(jobj(f("data", jobj(f("type", jstr("things"))))))), g("/things/1")},
		{m("POST", "/things/1/relationships/owner", membersDoc(jid("others", "1"))), g("/things/v1/relationships/owner"), g("/things/v1")},
		{m("DELETE", "/things/v1/relationships/owner", membersDoc(jid("others", "1"), jid("others", "2"))), g("/things/1"), m("DELETE", "/things/1/relationships/tags", membersDoc())},
		{m("PATCH", "/things/1/relationships/owner", treeBody(jobj(f("data", jid("others", "3"))))), g("/things/v1/relationships/owner")},
		{m("PATCH", "/things/v1/owner", thingDoc("v2")), g("/things/1")},
		{g("/things/v2/owner"), m("PATCH", "/things/v2/owner", thingDoc("x")), g("/things/v2"), g("/things/v2/relationships/owner")},
		{g("/things/v3"), g("/things/v3/owner"), g("/things/v3/relationships/owner"), g("/things/1")},
		{g("/things/v4"), g("/things/v4/relationships/owner"), g("/things/v4/owner"), g("/things/1")},
		{m("POST", "/things/v1/relationships/owner", membersDoc()), m("POST", "/things/v2/relationships/owner", membersDoc()), m("POST", "/things/v3/relationships/owner", membersDoc()), g("/things/1/relationships/owner")},
		{m("DELETE", "/things/v1/relationships/owner", membersDoc(jid("a", "b"))), m("DELETE", "/things/v2/relationships/owner", membersDoc()), m("DELETE", "/things/v3/relationships/owner", membersDoc()), g("/things/1")},
		{g("/things/1"), g("/things/1"), m("DELETE", "/things/1", rawBody("")), g("/things/v1")},
	}
}

// ------------------------------------------------------------------------------------------------
// enumeration domains
// ------------------------------------------------------------------------------------------------

var methods = []string{"GET", "POST", "PATCH", "DELETE", "PUT", "OPTIONS", "get"}

var okAccept = []string{mediaType}

var paths = []string{
	"", "/", "things", "//things/1",
	"/things", "/others", "/unknown", "/things/",
	"/things/1", "/things/v1", "/things/v2", "/things/v3", "/things/v5", "/things/v9", "/things/nil", "/things/e404", "/things/e0", "/things/ebad", "/things/e1000", "/things/e+451", "/things/e100", "/things/e999", "/things/emeta", "/things/emeta/one", "/things/emeta/relationships/many",
	"/others/1", "/others/v2", "/unknown/1", "/things/relationships",
	"/things/1/one", "/things/1/many", "/things/1/nope", "/things/1/relationships", "/things/1/", "/things/nil/one", "/things/e404/many", "/things/ebad/one",
	"/things/v4/one", "/things/v4/many", "/things/v5/one", "/things/v5/many", "/things/v6/one", "/things/v6/many", "/things/v7/one", "/things/v7/many",
	"/things/v8/one", "/things/v8/many", "/things/v9/one", "/things/v10/one", "/things/v10/many", "/others/1/one", "/unknown/1/one",
	"/things/1/relationships/one", "/things/1/relationships/many", "/things/1/relationships/nope", "/things/1/relations/one", "/things/1/relationships/",
	"/things/nil/relationships/one", "/things/e404/relationships/many", "/things/v1/relationships/many", "/things/v2/relationships/many", "/things/v3/relationships/many",
	"/things/v4/relationships/one", "/things/v4/relationships/many", "/things/v5/relationships/one", "/things/v5/relationships/many",
	"/others/1/relationships/one", "/unknown/1/relationships/one",
	"/things/1/relationships/one/x", "/things/1/one/x/y", "/things/1/relationships/many/", "/unknown/1/relationships/one/x",
}

// bodies for resource documents addressed to (t, id)
func resourceBodies() []body {
	doc := func(members ...kv) body { return treeBody(jobj(f("data", jobj(members...)))) }
	ty := func(t string) kv { return f("type", jstr(t)) }
	id := func(i string) kv { return f("id", jstr(i)) }
	return []body{
		rawBody(""), rawBody(`{"data":`), rawBody("<html>"),
		treeBody(jnull()), treeBody(jobj()), treeBody(jarr()), treeBody(jstr("x")),
		doc(ty("things"), id("1")), doc(ty("things")), doc(id("1")), doc(ty("others"), id("1")), doc(ty("things"), id("2")),
		doc(ty("others"), id("2")), doc(ty("things"), id("v1")), doc(ty("things"), id("nil")), doc(ty("things"), id("e404")),
		doc(ty("things"), f("id", jnum())), doc(f("type", jnum()), id("1")),
		doc(ty("others"), id("nil")), doc(ty("others"), id("e404")), doc(ty("others"), id("v2")),
		treeBody(jobj(f("data", jnull()))), treeBody(jobj(f("data", jarr()))), treeBody(jobj(f("DATA", jobj(f("Type", jstr("things")), f("ID", jstr("1")))))),
		doc(ty("things"), id("1"), f("attributes", jobj(f("a", jnum()), f("zz", jarr(jnull()))))),
		doc(ty("things"), id("1"), f("attributes", jarr())),
		doc(ty("things"), id("1"), f("attributes", jnull()), f("relationships", jnull())),
		doc(ty("things"), id("1"), f("relationships", jobj(
			f("one", jobj(f("data", jid("others", "3")))), f("many", jobj(f("data", jarr(jid("others", "1"), jid("x", "y"))))),
			f("cleared", jobj(f("data", jnull()))), f("nodata", jobj()), f("nullrel", jnull()), f("empty", jobj(f("data", jarr())))))),
		doc(ty("things"), id("1"), f("relationships", jobj(f("one", jobj(f("data", jstr("others/3"))))))),
		doc(ty("things"), id("1"), f("relationships", jobj(f("one", jnum())))),
		doc(ty("things"), id("1"), f("relationships", jarr())),
		doc(ty("things"), id("1"), f("relationships", jobj(f("many", jobj(f("data", jarr(jnum()))))))),
		doc(ty("things"), id("1"), f("relationships", jobj(f("one", jobj(f("data", jobj(f("type", jnum())))))))),
		{Tree: func() *jv { j := jobj(f("data", jid("things", "1"))); return &j }(), Tail: " trailing garbage"},
	}
}

// bodies for relationship endpoints
func linkageBodies() []body {
	d := func(v jv) body { return treeBody(jobj(f("data", v))) }
	return []body{
		rawBody(""), rawBody(`{"data":[{"type":"others"`), rawBody("]"),
		treeBody(jnull()), treeBody(jobj()), treeBody(jarr()), treeBody(jnum()),
		d(jnull()), d(jid("others", "3")), d(jobj()), d(jarr()), d(jarr(jid("others", "1"), jid("others", "2"))), d(jarr(jnull())),
		d(jstr("x")), d(jnum()), d(jv{Kind: 't'}), d(jarr(jnum())), d(jarr(jarr())), d(jobj(f("type", jnum()), f("id", jstr("1")))),
		d(jobj(f("type", jstr("others")), f("id", jnull()))), d(jobj(f("type", jstr("others")), f("id", jstr("3")), f("meta", jobj(f("k", jarr(jnum(), jnull())))))),
		treeBody(jobj(f("Data", jarr(jobj(f("TYPE", jstr("others")), f("Id", jstr("5"))))))),
		treeBody(jobj(f("meta", jnum()), f("data", jid("things", "2")))),
	}
}

var acceptVariants = [][]string{
	nil,
	{mediaType},
	{"APPLICATION/VND.API+JSON"},
	{" " + mediaType + " "},
	{mediaType + `; profile="http://example.com/p"`},
	{mediaType + `; profile="http://example.com/a,http://example.com/b"`},
	{mediaType + `; ext="https://jsonapi.org/ext/version"`},
	{mediaType + `; profile="p"; ext="e"`},
	{mediaType + ";q=0.9"},
	{mediaType + "; charset=utf-8"},
	{mediaType + ";"},
	{mediaType + "; profile"},
	{mediaType + `; profile="unterminated`},
	{mediaType + "; a=b; a=c"},
	{"text/html"},
	{"*/*"},
	{"application/*"},
	{"application/json"},
	{""},
	{","},
	{"text/html, " + mediaType},
	{mediaType + ", text/html"},
	{"text/html," + mediaType + ",*/*;q=0.1"},
	{"text/html, " + mediaType + "; ext=x"},
	{"text/html, " + mediaType + "; ext=x, " + mediaType},
	{mediaType + "; ext=x, " + mediaType + `; profile="a, b"`},
	{`text/html; title="a,` + mediaType + `"`},
	{`text/html; title="a\",` + mediaType + `"`},
	{`text/html; title="a\\",` + mediaType},
	{mediaType + `; ext="x, ` + mediaType},
	{"text/html", mediaType},
	{mediaType + `; ext="https://jsonapi.org/ext/version"`, "application/foo", mediaType},
	{mediaType + "; ext=x", mediaType + "; foo=bar"},
	{"text/html, application/xml", "image/png, " + mediaType},
	{mediaType + "," + mediaType + ";ext=1"},
	{mediaType + ",,"},
	{"application/vnd.api+jsonx"},
	{"application/vnd.api+json/x"},
	{"text/html;q=0.5, application/vnd.api+json;q=0.1"},
}

var queryVariants = []string{
	"", "page[size]=1", "page[number]=2&page[size]=3", "page=1", "page[a][b]=1", "page[a-b_c]=1",
	"filter=x", "filter[name]=x", "sort=a", "include=one", "fields[things]=a", "foo=bar",
	"Foo=bar", "fooBar=1", "foo-bar=1", "foo_bar=1", "page2=1", "f1=1", "Foo[bar]=baz", "Foo[bar][Baz]=1",
	"foo:bar=1", "aa123@!=1", "foo[asd=bar", "page[=1", "page[]=1", "page[a]b=1", "page[a]]=1", "page]=1", "page[[a]]=1",
	"[a]=1", "=1", "-foo=1", "foo-=1", "Foo[-a]=1", "Foo[a-]=1", "Foo[a b]=1", "Foo[a]x[b]=1", "Foo[a][]=1",
	"page[size]=1&filter=x", "Foo=1&page[x]=2&aB=3", "Foo=1&bad!=2", "%zz=1", "a%5Bb%5D=1", "A%5Bb%5D=1", "A%5Bb=1",
	"p%C3%A9=1", "P%C3%A9=1", "Aé=1", "A;b=1", "A=1;b=2", "page[size]", "PAGE=1", "Page[Size]=1", "a.b=1", "A.b=1", "A[b.c]=1",
	"A[b][c][d][e]=1", "A_=1", "_A=1", "A[_b]=1", "0=1", "9a=1", "a9[0]=1",
	"page[size", "Foo[bar", "Foo[a][bc", "page[ab]c]=1", "Foo[a]]", "Foo]", "Foo[a[b]]", "Foo[[a]", "page[a][", "page[a]]]",
}

// random parameter names glued from fragments that matter to the name grammar
var keyFragments = []string{"page", "Foo", "a", "b9", "size", "[", "]", "[", "]", "-", "_", "x-y", "Z", "é", " ", ":", "[a]", "[b-c]"}

func randQuery(r *rng.R) string {
	v := url.Values{}
	for n := r.Range(1, 3); n > 0; n-- {
		var b strings.Builder
		for k := r.Range(1, 6); k > 0; k-- {
			b.WriteString(rng.Pick(r, keyFragments))
		}
		v.Set(b.String(), "1")
	}
	return v.Encode()
}

func defaultRequest() request {
	return request{Method: "GET", Path: "/things/1", Accept: okAccept}
}

// ------------------------------------------------------------------------------------------------
// random generation
// ------------------------------------------------------------------------------------------------

var typeNames = []string{"things", "others", "x-y_z", "T9"}
var idNames = []string{"1", "2", "v1", "v2", "v3", "nil", "e404", "e0", "ebad", "", "relationships", "a b", "é"}
var relNames = []string{"one", "many", "r3", "relationships", "nope"}
var statuses = []string{"403!", "!", "abc!", "", "400", "403", "404", "409", "422", "500", "503", "200", "100", "999", "1000", "99", "0", "abc", "+404", "-404", "4 4", "0404", "40x"}

// healthy: the generator currently prefers outcomes that let a request succeed (set per case)
var healthy bool

func randHout(r *rng.R) hout {
	if healthy && r.Chance(5, 6) {
		return hout{Kind: hVal, V: r.Intn(4)}
	}
	switch r.Intn(6) {
	case 0:
		return hout{Kind: hNil}
	case 1:
		return hout{Kind: hErr, Status: rng.Pick(r, statuses)}
	}
	return hout{Kind: hVal, V: r.Intn(4)}
}

func randTable(r *rng.R) *table {
	t := &table{Default: randHout(r)}
	for _, id := range idNames {
		if r.Chance(1, 2) {
			t.Entries = append(t.Entries, entry{id, randHout(r)})
		}
	}
	return t
}

func randRid(r *rng.R) types.ResourceId {
	return rid(rng.Pick(r, append(typeNames, "unknown")), rng.Pick(r, idNames))
}

func randManyOut(r *rng.R, echo bool) manyOut {
	switch r.Intn(6) {
	case 0:
		return manyOut{Kind: mErr, Status: rng.Pick(r, statuses)}
	case 1:
		if echo {
			return manyOut{Kind: mEcho}
		}
	}
	var ids []types.ResourceId
	for n := r.Intn(4); n > 0; n-- {
		ids = append(ids, randRid(r))
	}
	return manyOut{Kind: mIds, Ids: ids}
}

func randCustomOut(r *rng.R, preset string, shared bool, change bool) customOut {
	if r.Chance(1, 8) && !healthy {
		return customOut{Err: true, Status: rng.Pick(r, statuses)}
	}
	o := customOut{Links: preset, Shared: shared, Always: r.Chance(1, 3)}
	if r.Chance(1, 4) {
		// the same resolver may also hand out other maps
		o.Links = rng.Pick(r, linkPresetNames)
	}
	switch k := r.Intn(8); {
	case k == 0:
		o.Data = dAbsent
	case k == 1:
		o.Data = dNull
	case k <= 4:
		o.Data = dOne
		o.One = randRid(r)
	case k == 5 && change:
		o.Data = dEcho
	default:
		o.Data = dMany
		for n := r.Intn(4); n > 0; n-- {
			o.Ids = append(o.Ids, randRid(r))
		}
	}
	o.Meta = rng.Pick(r, []int{0, 0, 0, 1, 2, 2, 3})
	if healthy && o.Meta == 3 {
		o.Meta = 2
	}
	return o
}

func randCustom(r *rng.R) *customSpec {
	preset, shared := rng.Pick(r, linkPresetNames), r.Chance(2, 3)
	c := &customSpec{}
	for v := 0; v < 4; v++ {
		c.Outs = append(c.Outs, randCustomOut(r, preset, shared, false))
		c.Add = append(c.Add, randCustomOut(r, preset, shared, true))
		c.Remove = append(c.Remove, randCustomOut(r, preset, shared, true))
	}
	return c
}

func randSchema(r *rng.R) []typeSpec {
	n := r.Range(1, 3)
	var out []typeSpec
	for i := 0; i < n; i++ {
		ts := typeSpec{Name: typeNames[i]}
		for _, a := range []string{"a", "b-2", "Cc"} {
			if r.Chance(1, 2) {
				as := attrSpec{Name: a}
				for v := 0; v < 4; v++ {
					k := r.Intn(8)
					if healthy && r.Chance(3, 4) {
						k = 7
					}
					switch k {
					case 0:
						as.Outs = append(as.Outs, aout{aUnser, ""})
					case 1:
						as.Outs = append(as.Outs, aout{aErr, rng.Pick(r, statuses)})
					default:
						as.Outs = append(as.Outs, aout{aOk, ""})
					}
				}
				ts.Attrs = append(ts.Attrs, as)
			}
		}
		for _, name := range relNames[:4] {
			if !r.Chance(1, 2) {
				continue
			}
			rs := relSpec{Name: name, Many: r.Bool(), ByDefault: r.Bool()}
			if r.Chance(1, 3) {
				rs.Custom = randCustom(r)
				ts.Rels = append(ts.Rels, rs)
				continue
			}
			for v := 0; v < 4; v++ {
				if rs.Many {
					rs.ManyOuts = append(rs.ManyOuts, randManyOut(r, false))
				} else {
					switch r.Intn(5) {
					case 0:
						rs.One = append(rs.One, oneOut{Kind: oNull})
					case 1:
						rs.One = append(rs.One, oneOut{Kind: oErr, Status: rng.Pick(r, statuses)})
					default:
						rs.One = append(rs.One, oneOut{Kind: oId, Id: randRid(r)})
					}
				}
			}
			if rs.Many && r.Chance(2, 3) {
				for v := 0; v < 4; v++ {
					rs.Add = append(rs.Add, randManyOut(r, true))
				}
			}
			if rs.Many && r.Chance(2, 3) {
				for v := 0; v < 4; v++ {
					rs.Remove = append(rs.Remove, randManyOut(r, true))
				}
			}
			ts.Rels = append(ts.Rels, rs)
		}
		if r.Chance(3, 4) || healthy {
			ts.Get = randTable(r)
		}
		if r.Chance(2, 3) || healthy {
			ts.Patch = randTable(r)
		}
		if r.Chance(2, 3) || healthy {
			ts.Create = &createSpec{Out: randHout(r), Id: randRid(r)}
		}
		if r.Chance(2, 3) || healthy {
			ts.Delete = randTable(r)
		}
		out = append(out, ts)
	}
	return out
}

func randJSON(r *rng.R, depth int) jv {
	switch k := r.Intn(8); {
	case k == 0:
		return jnull()
	case k == 1:
		return jv{Kind: 't'}
	case k == 2:
		return jnum()
	case k == 3:
		return jstr(rng.Pick(r, []string{"", "x", "things", "1", "é\"\\"}))
	case k <= 5 && depth > 0:
		var xs []jv
		for n := r.Intn(3); n > 0; n-- {
			xs = append(xs, randJSON(r, depth-1))
		}
		return jarr(xs...)
	case depth > 0:
		var kvs []kv
		for _, k := range []string{"data", "type", "Id", "meta"} {
			if r.Chance(1, 3) {
				kvs = append(kvs, f(k, randJSON(r, depth-1)))
			}
		}
		return jobj(kvs...)
	}
	return jid(rng.Pick(r, typeNames), rng.Pick(r, idNames))
}

func randCase(s string, r *rng.R) string {
	var b strings.Builder
	for i := 0; i < len(s); i++ {
		c := s[i]
		if c >= 'a' && c <= 'z' && r.Chance(1, 2) {
			c -= 32
		}
		b.WriteByte(c)
	}
	return b.String()
}

func randLinkageValue(r *rng.R) jv {
	switch r.Intn(8) {
	case 0:
		return jnull()
	case 1:
		return randJSON(r, 2)
	case 2, 3:
		var xs []jv
		for n := r.Intn(4); n > 0; n-- {
			if r.Chance(1, 8) {
				xs = append(xs, randJSON(r, 1))
			} else {
				xs = append(xs, jid(rng.Pick(r, typeNames), rng.Pick(r, idNames)))
			}
		}
		return jarr(xs...)
	}
	return jid(rng.Pick(r, typeNames), rng.Pick(r, idNames))
}

func randBody(r *rng.R, wantType, wantId string) body {
	switch r.Intn(12) {
	case 0:
		return rawBody(rng.Pick(r, []string{"", " ", "{", `{"data":{"type":"things","id":"1"}`, "<x/>", `{"data" {}}`, `{"data":nul}`, `{"data":{"type":"things","id":"1"},"x":[1,}`}))
	case 1:
		return treeBody(randJSON(r, 3))
	case 2, 3, 4:
		// linkage document
		name := "data"
		if r.Chance(1, 6) {
			name = randCase(name, r)
		}
		kvs := []kv{f(name, randLinkageValue(r))}
		if r.Chance(1, 4) {
			kvs = append([]kv{f("meta", randJSON(r, 2))}, kvs...)
		}
		return treeBody(jobj(kvs...))
	}
	// resource document, mostly addressed correctly
	t, id := wantType, wantId
	if r.Chance(1, 6) {
		t = rng.Pick(r, typeNames)
	}
	if r.Chance(1, 6) {
		id = rng.Pick(r, idNames)
	}
	var ms []kv
	key := func(k string) string {
		if r.Chance(1, 8) {
			return randCase(k, r)
		}
		return k
	}
	if !r.Chance(1, 10) {
		ms = append(ms, f(key("type"), jstr(t)))
	}
	if !r.Chance(1, 10) {
		if r.Chance(1, 12) {
			ms = append(ms, f(key("id"), randJSON(r, 1)))
		} else {
			ms = append(ms, f(key("id"), jstr(id)))
		}
	}
	if r.Chance(1, 3) {
		if r.Chance(1, 6) {
			ms = append(ms, f(key("attributes"), randJSON(r, 1)))
		} else {
			var as []kv
			for _, a := range []string{"a", "b-2", "other", "Zed"} {
				if r.Chance(1, 2) {
					as = append(as, f(a, randJSON(r, 2)))
				}
			}
			ms = append(ms, f(key("attributes"), jobj(as...)))
		}
	}
	if r.Chance(1, 2) {
		if r.Chance(1, 8) {
			ms = append(ms, f(key("relationships"), randJSON(r, 1)))
		} else {
			var rs []kv
			for _, name := range relNames {
				if r.Chance(1, 2) {
					switch r.Intn(8) {
					case 0:
						rs = append(rs, f(name, jnull()))
					case 1:
						rs = append(rs, f(name, jobj()))
					case 2:
						rs = append(rs, f(name, randJSON(r, 2)))
					default:
						rs = append(rs, f(name, jobj(f(key("data"), randLinkageValue(r)))))
					}
				}
			}
			ms = append(ms, f(key("relationships"), jobj(rs...)))
		}
	}
	for i := len(ms) - 1; i > 0; i-- {
		j := r.Intn(i + 1)
		ms[i], ms[j] = ms[j], ms[i]
	}
	bd := treeBody(jobj(f(key("data"), jobj(ms...))))
	if r.Chance(1, 20) {
		bd.Tail = rng.Pick(r, []string{" x", "{}", "\n]", " ", "\n", "\t\r\n "})
	}
	return bd
}

func randRequest(r *rng.R, specs []typeSpec) request {
	rq := request{Method: rng.Pick(r, []string{"GET", "GET", "POST", "PATCH", "PATCH", "DELETE", "PUT", "OPTIONS", "HEAD", "patch"})}
	// path
	names := []string{"unknown"}
	for _, s := range specs {
		names = append(names, s.Name, s.Name, s.Name)
	}
	t := rng.Pick(r, names)
	id := rng.Pick(r, idNames)
	depth := rng.Pick(r, []int{0, 1, 1, 2, 2, 2, 3, 3, 3, 4, 4, 4, 5, 6})
	comps := []string{t, id, rng.Pick(r, relNames), rng.Pick(r, relNames), "x", "y"}
	if depth >= 4 && r.Chance(5, 6) {
		comps[2] = "relationships"
	}
	if healthy {
		// a method the endpoint supports, a known type, a relationship the type has
		rq.Method = rng.Pick(r, [][]string{{"GET"}, {"POST"}, {"GET", "PATCH", "DELETE"}, {"GET", "PATCH"}, {"GET", "PATCH", "POST", "DELETE"}, {"GET"}, {"GET"}}[depth])
		if t == "unknown" {
			t = specs[0].Name
			comps[0] = t
		}
		for _, s := range specs {
			if s.Name == t && len(s.Rels) > 0 {
				comps[3] = rng.Pick(r, s.Rels).Name
				if depth == 3 {
					comps[2] = comps[3]
				}
			}
		}
	}
	rq.Path = "/" + strings.Join(comps[:depth], "/")
	if depth == 0 {
		rq.Path = rng.Pick(r, []string{"", "/"})
	}
	if r.Chance(1, 30) {
		rq.Path = strings.TrimPrefix(rq.Path, "/")
	}
	if r.Chance(1, 30) {
		rq.Path += "/"
	}
	// accept: mostly acceptable
	if r.Chance(4, 5) || healthy {
		rq.Accept = rng.Pick(r, [][]string{okAccept, okAccept, acceptVariants[4], acceptVariants[20], acceptVariants[21], acceptVariants[30]})
	} else {
		rq.Accept = rng.Pick(r, acceptVariants)
	}
	// query: mostly fine
	if healthy {
		rq.Query = rng.Pick(r, []string{"", "", "page[size]=1", "Foo=1"})
	} else if r.Chance(1, 6) {
		rq.Query = rng.Pick(r, queryVariants)
	} else if r.Chance(1, 6) {
		rq.Query = randQuery(r)
	} else if r.Chance(1, 3) {
		rq.Query = rng.Pick(r, []string{"page[size]=1", "Foo=1", "page[number]=2&X-y=3"})
	}
	// body addressed to the path's resource, or to a resource the to-one relationship may point to
	wt, wi := t, id
	if depth == 3 && r.Chance(2, 3) {
		related := randRid(r)
		for _, s := range specs {
			if s.Name != t {
				continue
			}
			for _, rel := range s.Rels {
				if rel.Name == comps[2] && !rel.Many && s.Get != nil {
					if h := s.Get.lookup(id); h.Kind == hVal {
						if o := nthOrLast(rel.One, h.V, oneOut{}); o.Kind == oId {
							related = o.Id
						}
					}
				}
			}
		}
		wt, wi = related.Type, related.Id
	}
	rq.Body = randBody(r, wt, wi)
	return rq
}

// ------------------------------------------------------------------------------------------------

func main() {
	hx.Main(func(h *hx.H) {
		emit := func(specs []typeSpec, rq request) {
			h.Case(func(r *rng.R) sexp.Node { return runCase(r, specs, rq) })
		}

		// 0a. NewSchema itself: schema definitions with every kind of name and resolver, accepted or not
		for _, name := range schemaNames {
			for pos := 0; pos < 4; pos++ {
				name, pos := name, pos
				h.Case(func(r *rng.R) sexp.Node { return runNewSchema(namedDef(name, pos)) })
			}
		}
		for kind := 0; kind < 6; kind++ {
			kind := kind
			h.Case(func(r *rng.R) sexp.Node {
				return runNewSchema([]typeDef{{Name: "things", Attrs: []attrDef{{"a", true}}, Rels: []relDefSpec{{"r", kind}}}})
			})
		}
		h.Case(func(r *rng.R) sexp.Node {
			return runNewSchema([]typeDef{{Name: "things", Attrs: []attrDef{{"a", false}}}})
		})
		h.Case(func(r *rng.R) sexp.Node { return runNewSchema(nil) })
		nsd := 1500
		if h.Thorough() {
			nsd = 40000
		}
		for i := 0; i < nsd; i++ {
			h.Case(func(r *rng.R) sexp.Node { return runNewSchema(randDef(r)) })
		}
		// 0. schemas NewSchema must refuse: library resolvers without a Resolve function (calling them
		// would panic at request time); a refusal that is missing is reported as a harness panic
		h.Case(func(r *rng.R) sexp.Node {
			for _, resolver := range []jsonapi.RelationshipResolver[*res]{jsonapi.ToOneRelationshipResolver[*res]{}, jsonapi.ToManyRelationshipResolver[*res]{ResolveByDefault: true}} {
				_, err := jsonapi.NewSchema(&jsonapi.SchemaDefinition{ResourceTypes: map[string]jsonapi.AnyResourceType{
					"things": jsonapi.ResourceType[*res]{Relationships: map[string]*jsonapi.RelationshipDefinition[*res]{"r": {Resolver: resolver}}},
				}})
				if err == nil {
					panic("NewSchema accepted a relationship resolver without a Resolve function")
				}
			}
			return runCase(r, richSchema(15, 15, false), defaultRequest())
		})
		// 1. Accept variants x a few endpoints (everything else fine)
		for _, acc := range acceptVariants {
			for _, p := range []string{"/things/1", "/unknown", "/things/1/relationships/many"} {
				for _, m := range []string{"GET", "PUT"} {
					emit(richSchema(15, 15, false), request{Method: m, Path: p, Accept: acc})
				}
			}
		}
		// 2. query parameter families x a few endpoints
		for _, q := range queryVariants {
			for _, p := range []string{"/things/1", "/unknown/1", "/things/1/many"} {
				for _, acc := range [][]string{okAccept, nil} {
					emit(richSchema(15, 15, false), request{Method: "GET", Path: p, Accept: acc, Query: q})
				}
			}
		}
		nq := 1500
		if h.Thorough() {
			nq = 40000
		}
		for i := 0; i < nq; i++ {
			h.Case(func(r *rng.R) sexp.Node {
				return runCase(r, richSchema(15, 15, false), request{Method: "GET", Path: "/things/1", Accept: okAccept, Query: randQuery(r)})
			})
		}
		// 3. handler subsets x methods x paths x bodies
		rb, lb := resourceBodies(), linkageBodies()
		subsets := 16
		for subset := 0; subset < subsets; subset++ {
			other := (subset*7 + 3) % 16
			// the subsets of add/remove handlers ride along (bits 4, 5), decoupled from the Get bit:
			// AddMembers is absent iff Patch is present, RemoveMembers iff Create is
			specs := richSchema(subset|(((subset>>1)%4)<<4), other, subset%2 == 1)
			for _, p := range paths {
				depth := len(strings.Split(strings.TrimPrefix(p, "/"), "/"))
				for _, m := range methods {
					bodies := []body{rawBody("")}
					switch {
					case m == "POST" && depth == 1, m == "PATCH" && (depth == 2 || depth == 3):
						bodies = rb
					case depth == 4 && (m == "PATCH" || m == "POST" || m == "DELETE"):
						bodies = lb
					}
					if !h.Thorough() && len(bodies) > 1 && subset%4 != 3 {
						// quick tier: the full body list on a quarter of the subsets, a third of it elsewhere
						var few []body
						for i, b := range bodies {
							if i%3 == subset%3 {
								few = append(few, b)
							}
						}
						bodies = few
					}
					for _, b := range bodies {
						emit(specs, request{Method: m, Path: p, Accept: okAccept, Body: b})
					}
				}
			}
		}
		// 3b. custom relationship resolvers: links presets x shared or fresh Links maps; single requests on
		// every path and method, and histories against one API value
		cpaths := []string{"/things/1", "/things/v1", "/things/v2", "/things/v3", "/things/v4", "/things/v5", "/things/v6",
			"/things/1/owner", "/things/v1/owner", "/things/v2/owner", "/things/v3/owner", "/things/v4/owner", "/things/v5/owner", "/things/v6/owner",
			"/things/1/tags", "/things/v1/tags", "/things/v2/tags", "/things/1/one", "/others/1/back", "/others/1",
			"/things/1/relationships/owner", "/things/v1/relationships/owner", "/things/v2/relationships/owner", "/things/v3/relationships/owner",
			"/things/v4/relationships/owner", "/things/v5/relationships/owner", "/things/1/relationships/tags", "/things/v2/relationships/tags",
			"/others/1/relationships/back", "/things"}
		for pi, preset := range linkPresetNames {
			for _, shared := range []bool{true, false} {
				specs := customSchema(preset, shared)
				if shared || h.Thorough() || pi%2 == 0 {
					for _, p := range cpaths {
						depth := len(strings.Split(strings.TrimPrefix(p, "/"), "/"))
						for _, m := range []string{"GET", "POST", "PATCH", "DELETE", "PUT"} {
							bodies := []body{rawBody("")}
							switch {
							case m == "POST" && depth == 1:
								bodies = []body{treeBody(jobj(f("data", jobj(f("type", jstr("things"))))))}
							case m == "PATCH" && (depth == 2 || depth == 3):
								bodies = []body{thingDoc("1"), thingDoc("v1"), thingDoc("v2"), thingDoc("v6")}
							case depth == 4 && m == "PATCH":
								bodies = []body{treeBody(jobj(f("data", jnull()))), treeBody(jobj(f("data", jid("others", "3")))), rawBody("{")}
							case depth == 4 && (m == "POST" || m == "DELETE"):
								bodies = []body{membersDoc(), membersDoc(jid("others", "1"), jid("things", "v1")), rawBody("[")}
							}
							for _, b := range bodies {
								emit(specs, request{Method: m, Path: p, Accept: okAccept, Body: b})
							}
						}
					}
				}
				for _, hist := range customHistories() {
					hist := hist
					h.Case(func(r *rng.R) sexp.Node { return runHistory(r, specs, hist) })
				}
			}
		}
		// 3c. bytes after the request document
		for _, tail := range []string{" ", "\n\t \r", "}", " x", "{}", "\n]", "null", "\x00", ",", " \"data\""} {
			for _, p := range []struct {
				m, path string
				b       jv
			}{
				{"PATCH", "/things/1", jobj(f("data", jid("things", "1")))},
				{"POST", "/things", jobj(f("data", jobj(f("type", jstr("things")))))},
				{"PATCH", "/things/1/one", jobj(f("data", jid("others", "1")))},
				{"PATCH", "/things/1/relationships/one", jobj(f("data", jnull()))},
				{"POST", "/things/1/relationships/many", jobj(f("data", jarr(jid("others", "1"))))},
				{"DELETE", "/things/1/relationships/many", jobj(f("data", jarr()))},
				{"PATCH", "/things/1", jnull()},
			} {
				b := p.b
				emit(richSchema(15, 15, false), request{Method: p.m, Path: p.path, Accept: okAccept, Body: body{Tree: &b, Tail: tail}})
			}
		}
		// 3d. request documents as raw text: repeated member names (which occurrence wins, merging of
		// structs / maps / slices), wrong member types, numbers as ids, escapes in names and values,
		// surrogates, bytes that are no UTF-8, numbers of every shape, NUL / BOM / truncation
		for _, doc := range rawDocuments {
			for _, p := range []struct{ m, path string }{
				{"PATCH", "/things/1"}, {"POST", "/things"}, {"PATCH", "/things/1/one"},
				{"PATCH", "/things/1/relationships/one"}, {"POST", "/things/1/relationships/many"}, {"DELETE", "/things/1/relationships/many"},
			} {
				emit(richSchema(15, 15, false), request{Method: p.m, Path: p.path, Accept: okAccept, Body: rawBody(doc)})
			}
		}
		nraw := 2500
		if h.Thorough() {
			nraw = 100000
		}
		for i := 0; i < nraw; i++ {
			h.Case(func(r *rng.R) sexp.Node {
				p := rng.Pick(r, []struct{ m, path string }{
					{"PATCH", "/things/1"}, {"PATCH", "/things/1"}, {"POST", "/things"}, {"PATCH", "/things/1/one"},
					{"PATCH", "/things/1/relationships/one"}, {"POST", "/things/1/relationships/many"}, {"DELETE", "/things/1/relationships/many"},
				})
				return runCase(r, richSchema(15, 15, false), request{Method: p.m, Path: p.path, Accept: okAccept, Body: rawBody(randRawDocument(r)),
					ContentType: rng.Pick(r, contentTypes)})
			})
		}
		// 3e. request-targets as they arrive on the wire: percent-encoded path segments (an encoded slash
		// inside an id, encoded type names, NUL, blanks, '?'), with and without a query
		for _, target := range []string{
			"/things/a%2Fb", "/things/a%2Fb/one", "/things/1%2Fone", "/things/1%2Frelationships%2Fone", "/th%69ngs/1", "/things%2F1",
			"/things/%00", "/things/a%20b", "/things/1%3Fx", "/things/%C3%A9", "/things/%25", "/things/%5Ba%5D", "/things/1/relationships/%6Fne",
			"/things/1/relation%73hips/one", "/things/v1?page%5Bsize%5D=1", "/things/v1?pa%67e[size]=1", "/things/v1?sort=a", "/things/1/%6Dany?Foo%5Bbar%5D=1",
			"/things//1", "/things/1//", "//things/1", "/things/./1", "/things/../things/1", "/things/1;v=2", "/things/1#frag", "/%74hings",
		} {
			for _, m := range []string{"GET", "PATCH", "DELETE"} {
				emit(richSchema(15, 15, false), request{Method: m, Target: target, Accept: okAccept, Body: thingDoc("1")})
			}
		}
		// 3f. Content-Type of requests with a body: the handler does not look at it (JSON:API asks for 415
		// when the media type carries parameters; the property's status list does not name 415)
		for _, ct := range contentTypes {
			for _, p := range []struct {
				m, path string
				b       body
			}{
				{"PATCH", "/things/1", thingDoc("1")}, {"POST", "/things", treeBody(jobj(f("data", jobj(f("type", jstr("things"))))))},
				{"POST", "/things/1/relationships/many", membersDoc(jid("others", "1"))}, {"GET", "/things/1", rawBody("")},
			} {
				emit(richSchema(15, 15, false), request{Method: p.m, Path: p.path, Accept: okAccept, Body: p.b, ContentType: ct})
			}
		}
		// 4. random schemas and requests
		n := 6000
		if h.Thorough() {
			n = 300000
		}
		for i := 0; i < n; i++ {
			h.Case(func(r *rng.R) sexp.Node {
				var specs []typeSpec
				healthy = r.Chance(1, 2)
				if r.Chance(1, 4) {
					specs = richSchema(r.Intn(64), r.Intn(16), r.Bool())
				} else {
					specs = randSchema(r)
				}
				return runCase(r, specs, randRequest(r, specs))
			})
		}
		// 5. random histories: 2-5 requests (mostly reads) against one API value
		nh := 1500
		if h.Thorough() {
			nh = 60000
		}
		for i := 0; i < nh; i++ {
			h.Case(func(r *rng.R) sexp.Node {
				var specs []typeSpec
				healthy = r.Chance(3, 4)
				if r.Chance(1, 4) {
					specs = customSchema(rng.Pick(r, linkPresetNames), r.Chance(3, 4))
				} else {
					specs = randSchema(r)
				}
				var hist []request
				for k := r.Range(2, 5); k > 0; k-- {
					rq := randRequest(r, specs)
					if r.Chance(1, 2) {
						rq.Method = "GET"
					}
					hist = append(hist, rq)
				}
				return runHistory(r, specs, hist)
			})
		}
	})
}
