// c01: the synchronous executor against generated schemas, documents and resolver-outcome trees.
//
// Every case: a schema description -> a real graphql.Schema whose resolvers are closures over the
// outcome tree (the resolver of field f of an object value answers with the outcome stored under f
// in that value) -> graphql.ParseAndValidate -> graphql.Execute.  The case line carries the schema,
// the document as the parser produced it (with the parser's positions), the coerced boolean
// variables, the outcome tree and what was observed: Response.Data as ordered JSON and
// Errors[].Path/.Locations.
package main

import (
	"bytes"
	"context"
	"encoding/json"
	"fmt"
	"sort"
	"strconv"

	"github.com/ccbrown/api-fu/graphql"
	"github.com/ccbrown/api-fu/graphql/ast"
	"github.com/ccbrown/api-fu/graphql/executor"
	"github.com/ccbrown/api-fu/graphql/parser"
	"github.com/ccbrown/api-fu/graphql/validator"

	"verifharness/internal/hx"
	"verifharness/internal/rng"
	"verifharness/internal/sexp"
)

// ---- real schema from the description ----

func scalarOf(kind string) *graphql.ScalarType {
	switch kind {
	case "int":
		return graphql.IntType
	case "float":
		return graphql.FloatType
	case "string":
		return graphql.StringType
	case "boolean":
		return graphql.BooleanType
	}
	return graphql.IDType
}

func buildSchema(s *schemaDef) (*graphql.Schema, error) {
	named := map[string]graphql.NamedType{}
	objs := map[string]*graphql.ObjectType{}
	ifaces := map[string]*graphql.InterfaceType{}
	for _, t := range s.types {
		switch t.kind {
		case "scalar":
			b := scalarOf(t.scalarKind)
			if t.name == b.Name {
				named[t.name] = b
			} else {
				named[t.name] = &graphql.ScalarType{Name: t.name, LiteralCoercion: b.LiteralCoercion,
					VariableValueCoercion: b.VariableValueCoercion, ResultCoercion: b.ResultCoercion}
			}
		case "enum":
			e := &graphql.EnumType{Name: t.name, Values: map[string]*graphql.EnumValueDefinition{}}
			for _, v := range t.enumVals {
				e.Values[v.name] = &graphql.EnumValueDefinition{Value: v.val.goValue()}
			}
			named[t.name] = e
		case "object":
			name := t.name
			o := &graphql.ObjectType{Name: name, Fields: map[string]*graphql.FieldDefinition{},
				IsTypeOf: func(v interface{}) bool {
					ov, ok := v.(*objVal)
					return ok && ov != nil && ov.tag == name
				}}
			objs[name] = o
			named[name] = o
		case "interface":
			i := &graphql.InterfaceType{Name: t.name, Fields: map[string]*graphql.FieldDefinition{}}
			ifaces[t.name] = i
			named[t.name] = i
		}
	}
	if s.poolArgs != nil {
		for n, t := range stdInputTypes() {
			named[n] = t
		}
	}
	for _, t := range s.types {
		if t.kind == "union" {
			u := &graphql.UnionType{Name: t.name}
			for _, m := range t.members {
				u.MemberTypes = append(u.MemberTypes, objs[m])
			}
			named[t.name] = u
		}
	}
	var mk func(t *tyRef) graphql.Type
	mk = func(t *tyRef) graphql.Type {
		switch t.kind {
		case 'n':
			return named[t.name]
		case 'l':
			return graphql.NewListType(mk(t.inner))
		}
		return graphql.NewNonNullType(mk(t.inner))
	}
	resolver := func(fname string) func(graphql.FieldContext) (interface{}, error) {
		return func(ctx graphql.FieldContext) (interface{}, error) {
			ov, ok := ctx.Object.(*objVal)
			if !ok || ov == nil {
				return nil, &resolverError{"not an object value"}
			}
			o, ok := ov.fields[fieldKey(fname, ctx.Arguments)]
			if !ok {
				return nil, &resolverError{"no outcome"}
			}
			return o.resolve()
		}
	}
	for _, t := range s.types {
		switch t.kind {
		case "object":
			for _, f := range t.fields {
				objs[t.name].Fields[f.name] = &graphql.FieldDefinition{Type: mk(f.ty), Resolve: resolver(f.name),
					Arguments: argumentDefinitions(fieldArgs(s, t, f.name), mk)}
			}
			for _, i := range t.ifaces {
				objs[t.name].ImplementedInterfaces = append(objs[t.name].ImplementedInterfaces, ifaces[i])
			}
		case "interface":
			for _, f := range t.fields {
				ifaces[t.name].Fields[f.name] = &graphql.FieldDefinition{Type: mk(f.ty), Arguments: argumentDefinitions(fieldArgs(s, t, f.name), mk)}
			}
		}
	}
	def := &graphql.SchemaDefinition{
		Query:      objs[s.query],
		Directives: map[string]*graphql.DirectiveDefinition{"skip": graphql.SkipDirective, "include": graphql.IncludeDirective},
	}
	if s.mutation != "" {
		def.Mutation = objs[s.mutation]
	}
	if s.subscription != "" {
		def.Subscription = objs[s.subscription]
	}
	var names []string
	for n := range named {
		names = append(names, n)
	}
	sort.Strings(names)
	for _, n := range names {
		def.AdditionalTypes = append(def.AdditionalTypes, named[n])
	}
	return graphql.NewSchema(def)
}

// ---- s-expressions of schema and document ----

func tySexp(t *tyRef) sexp.Node {
	switch t.kind {
	case 'n':
		return sexp.Str(t.name)
	case 'l':
		return sexp.T("list", tySexp(t.inner))
	}
	return sexp.T("nn", tySexp(t.inner))
}

func strs(l []string) []sexp.Node {
	out := []sexp.Node{}
	for _, x := range l {
		out = append(out, sexp.Str(x))
	}
	return out
}

func opt(s string) sexp.Node {
	if s == "" {
		return sexp.None()
	}
	return sexp.Some(sexp.Str(s))
}

func schemaSexp(s *schemaDef) sexp.Node {
	var ts []sexp.Node
	for _, t := range s.types {
		var d sexp.Node
		switch t.kind {
		case "scalar":
			d = sexp.T("scalar", sexp.Sym(t.scalarKind))
		case "enum":
			var vs []sexp.Node
			for _, v := range t.enumVals {
				vs = append(vs, sexp.L(sexp.Str(v.name), v.val.sexp()))
			}
			d = sexp.T("enum", vs...)
		case "object", "interface":
			fs := []sexp.Node{}
			for _, f := range t.fields {
				fs = append(fs, sexp.L(sexp.Str(f.name), tySexp(f.ty)))
			}
			if t.kind == "object" {
				d = sexp.T("object", sexp.L(fs...), sexp.L(strs(t.ifaces)...))
			} else {
				d = sexp.T("interface", sexp.L(fs...))
			}
		case "union":
			d = sexp.T("union", strs(t.members)...)
		}
		ts = append(ts, sexp.L(sexp.Str(t.name), d))
	}
	ins, ads := inputsSexp(s)
	if s.poolArgs != nil {
		return sexp.T("schema", sexp.L(ts...), sexp.Str(s.query), opt(s.mutation), opt(s.subscription), ins, ads, dtTableSexp())
	}
	return sexp.T("schema", sexp.L(ts...), sexp.Str(s.query), opt(s.mutation), opt(s.subscription), ins, ads)
}

func posSexp(n ast.Node) sexp.Node {
	p := n.Position()
	return sexp.L(sexp.Int(p.Line), sexp.Int(p.Column))
}

func dirsSexp(ds []*ast.Directive) sexp.Node {
	out := []sexp.Node{}
	for _, d := range ds {
		n := d.Name.Name
		if (n == "skip" || n == "include") && len(d.Arguments) == 1 && d.Arguments[0].Name.Name == "if" {
			switch v := d.Arguments[0].Value.(type) {
			case *ast.BooleanValue:
				out = append(out, sexp.T(n, sexp.T("lit", sexp.Bool(v.Value)), posSexp(d), posSexp(v)))
				continue
			case *ast.Variable:
				out = append(out, sexp.T(n, sexp.T("var", sexp.Str(v.Name.Name)), posSexp(d), posSexp(v)))
				continue
			}
		}
		out = append(out, sexp.T("other"))
	}
	return sexp.L(out...)
}

func selsSexp(ss *ast.SelectionSet) (sexp.Node, []selInfo) {
	out := []sexp.Node{}
	var info []selInfo
	if ss == nil {
		return sexp.L(), nil
	}
	for _, s := range ss.Selections {
		switch s := s.(type) {
		case *ast.Field:
			alias := sexp.None()
			if s.Alias != nil {
				alias = sexp.Some(sexp.Str(s.Alias.Name))
			}
			sub, subInfo := selsSexp(s.SelectionSet)
			if len(s.Arguments) > 0 {
				al := []sexp.Node{posSexp(s)}
				for _, a := range s.Arguments {
					al = append(al, sexp.L(sexp.Str(a.Name.Name), astValueSexp(a.Value)))
				}
				nodeArgs = append(nodeArgs, sexp.L(al...))
			}
			out = append(out, sexp.T("field", alias, sexp.Str(s.Name.Name), posSexp(s), dirsSexp(s.Directives), sub))
			info = append(info, selInfo{kind: "field", name: s.Name.Name, sub: subInfo, node: s})
		case *ast.FragmentSpread:
			out = append(out, sexp.T("spread", sexp.Str(s.FragmentName.Name), posSexp(s), dirsSexp(s.Directives)))
			info = append(info, selInfo{kind: "spread", name: s.FragmentName.Name})
		case *ast.InlineFragment:
			tc := sexp.None()
			if s.TypeCondition != nil {
				tc = sexp.Some(sexp.Str(s.TypeCondition.Name.Name))
			}
			sub, subInfo := selsSexp(s.SelectionSet)
			out = append(out, sexp.T("inline", tc, posSexp(s), dirsSexp(s.Directives), sub))
			info = append(info, selInfo{kind: "inline", sub: subInfo})
		}
	}
	return sexp.L(out...), info
}

type parsedDoc struct {
	real   *graphql.Schema        // the schema the case runs against
	vv     map[string]interface{} // the coerced variables of the selected operation (nil: they do not coerce)
	node   sexp.Node
	opSels []selInfo
	frags  map[string]fragInfo
	kind   string
}

// docSexp: the whole document as the parser produced it.  With one operation and no operation
// name the case carries the short form (doc ...), otherwise (request opname (ops) frags).  kind and
// opSels (for the outcome generator only) are those of the operation named opName, or of the
// first one.
// the arguments of the field nodes met by selsSexp, by node position (reset by docSexp)
var nodeArgs []sexp.Node

func docSexp(doc *ast.Document, opName string) parsedDoc {
	nodeArgs = nil
	hasVarDefs := false
	out := parsedDoc{frags: map[string]fragInfo{}, kind: "query"}
	var frs, ops []sexp.Node
	var opPos, opSels sexp.Node
	chosen := false
	for _, d := range doc.Definitions {
		switch d := d.(type) {
		case *ast.OperationDefinition:
			kind := "query"
			if d.OperationType != nil {
				kind = d.OperationType.Value
			}
			name := sexp.None()
			if d.Name != nil {
				name = sexp.Some(sexp.Str(d.Name.Name))
			}
			sels, info := selsSexp(d.SelectionSet)
			var vds []sexp.Node
			for _, vd := range d.VariableDefinitions {
				dv := sexp.None()
				if vd.DefaultValue != nil {
					dv = sexp.Some(astValueSexp(vd.DefaultValue))
				}
				vds = append(vds, sexp.L(sexp.L(sexp.Str(vd.Variable.Name.Name), astTypeSexp(vd.Type), dv), posSexp(vd.Variable)))
			}
			if len(vds) > 0 {
				hasVarDefs = true
			}
			ops = append(ops, sexp.T("op", name, sexp.Sym(kind), posSexp(d), sels, sexp.L(vds...)))
			if !chosen && (len(ops) == 1 || (d.Name != nil && d.Name.Name == opName)) {
				out.kind, out.opSels, opPos, opSels = kind, info, posSexp(d), sels
				chosen = d.Name != nil && d.Name.Name == opName
			}
		case *ast.FragmentDefinition:
			sels, info := selsSexp(d.SelectionSet)
			frs = append(frs, sexp.L(sexp.Str(d.Name.Name), sexp.Str(d.TypeCondition.Name.Name), sels))
			out.frags[d.Name.Name] = fragInfo{cond: d.TypeCondition.Name.Name, sels: info}
		}
	}
	if len(ops) == 1 && opName == "" && len(nodeArgs) == 0 && !hasVarDefs {
		out.node = sexp.T("doc", sexp.Sym(out.kind), opPos, opSels, sexp.L(frs...))
	} else {
		out.node = sexp.T("request", sexp.Str(opName), sexp.L(ops...), sexp.L(frs...), sexp.L(nodeArgs...))
	}
	return out
}

// ---- observation ----

// ordered JSON -> s-expression; numbers become exact dyadics (m odd) of their float64 value
func jsonSexp(dec *json.Decoder) (sexp.Node, error) {
	tok, err := dec.Token()
	if err != nil {
		return sexp.Node{}, err
	}
	switch t := tok.(type) {
	case json.Delim:
		switch t {
		case '{':
			items := []sexp.Node{}
			for dec.More() {
				k, err := dec.Token()
				if err != nil {
					return sexp.Node{}, err
				}
				v, err := jsonSexp(dec)
				if err != nil {
					return sexp.Node{}, err
				}
				items = append(items, sexp.L(sexp.Str(k.(string)), v))
			}
			if _, err := dec.Token(); err != nil {
				return sexp.Node{}, err
			}
			return sexp.T("o", items...), nil
		case '[':
			items := []sexp.Node{}
			for dec.More() {
				v, err := jsonSexp(dec)
				if err != nil {
					return sexp.Node{}, err
				}
				items = append(items, v)
			}
			if _, err := dec.Token(); err != nil {
				return sexp.Node{}, err
			}
			return sexp.T("a", items...), nil
		}
	case json.Number:
		f, err := strconv.ParseFloat(string(t), 64)
		if err != nil {
			return sexp.Node{}, err
		}
		d := dyadicSexp(f)
		return sexp.T("num", d.List[1], d.List[2]), nil
	case string:
		return sexp.T("s", sexp.Str(t)), nil
	case bool:
		return sexp.Bool(t), nil
	case nil:
		return sexp.Sym("null"), nil
	}
	return sexp.Node{}, fmt.Errorf("unexpected token %v", tok)
}

func observe(resp *graphql.Response) sexp.Node {
	b, err := json.Marshal(resp.Data)
	if err != nil {
		return sexp.T("marshal-error")
	}
	dec := json.NewDecoder(bytes.NewReader(b))
	dec.UseNumber()
	data, err := jsonSexp(dec)
	if err != nil {
		panic(fmt.Sprintf("harness: response data does not parse back: %v: %s", err, b))
	}
	d := sexp.Some(data)
	if data.Kind == 'y' && data.Sym == "null" {
		d = sexp.None()
	}
	errs := []sexp.Node{}
	for _, e := range resp.Errors {
		path := []sexp.Node{}
		for _, c := range e.Path {
			switch c := c.(type) {
			case string:
				path = append(path, sexp.Str(c))
			case int:
				path = append(path, sexp.Int(c))
			default:
				panic("harness: unexpected path component")
			}
		}
		locs := []sexp.Node{}
		for _, l := range e.Locations {
			locs = append(locs, sexp.L(sexp.Int(l.Line), sexp.Int(l.Column)))
		}
		errs = append(errs, sexp.L(sexp.L(path...), sexp.L(locs...)))
	}
	return sexp.T("obs", d, sexp.L(errs...))
}

// ---- one case ----

type caseInput struct {
	s    *schemaDef
	text string
	// Request.OperationName
	opName string
	vars   map[string]interface{}
	env    map[string]*bool
	// outcome tree: built after parsing, from the parsed document
	mkW func(p parsedDoc) *outcome
	// the document is not expected to be valid: parse only
	unvalidated bool
}

func runCase(in caseInput) sexp.Node {
	schema, err := buildSchema(in.s)
	if err != nil {
		panic(fmt.Sprintf("harness: generated schema refused: %v", err))
	}
	rawVars := varsSexp(in.vars)
	flags := []sexp.Node{}
	var doc *ast.Document
	var errs []*graphql.Error
	if in.unvalidated {
		parsed, perrs := parser.ParseDocument([]byte(in.text))
		if len(perrs) > 0 {
			panic("harness: hostile document does not parse: " + in.text)
		}
		doc = parsed
		flags = append(flags, sexp.Sym("unvalidated"))
	} else {
		doc, errs = graphql.ParseAndValidate(in.text, schema, nil)
	}
	if len(errs) > 0 {
		// Defect 9 of DESIGN section 6 (property C04): a fragment reached twice while merging one
		// selection set is refused with the secondary error "cycle detected" although the document
		// is valid.  Such a document is still executed (parsed only), and the case is flagged.
		onlyCycle := true
		for _, e := range errs {
			if e.Message != "Validation error: cycle detected" {
				onlyCycle = false
			}
		}
		if onlyCycle {
			if parsed, perrs := parser.ParseDocument([]byte(in.text)); len(perrs) == 0 {
				doc, errs = parsed, nil
				flags = append(flags, sexp.Sym("c04-cycle-bypass"))
			}
		}
	}
	if len(errs) > 0 {
		// either the generator is wrong or validation refuses a valid document
		return sexp.T("case", schemaSexp(in.s), sexp.T("doc", sexp.Sym("query"), sexp.L(sexp.Int(1), sexp.Int(1)), sexp.L(), sexp.L()),
			rawVars, sexp.Sym("nil"), sexp.T("rejected", sexp.Str(in.text), sexp.Str(errs[0].Message)), sexp.L(flags...))
	}
	pd := docSexp(doc, in.opName)
	pd.real = schema
	if op, operr := executor.GetOperation(doc, in.opName); operr == nil {
		if vv, verr := validator.CoerceVariableValues(schema, nil, op, in.vars); verr == nil {
			if vv == nil {
				vv = map[string]interface{}{}
			}
			pd.vv = vv
		}
	}
	w := in.mkW(pd)
	var obs sexp.Node
	func() {
		defer func() {
			if e := recover(); e != nil {
				obs = sexp.T("panic", sexp.Str(fmt.Sprint(e)))
			}
		}()
		resp := graphql.Execute(&graphql.Request{
			Context:        context.Background(),
			Document:       doc,
			OperationName:  in.opName,
			Schema:         schema,
			VariableValues: in.vars,
			InitialValue:   w.value(),
		})
		obs = observe(resp)
	}()
	return sexp.T("case", schemaSexp(in.s), pd.node, rawVars, w.sexp(), obs, sexp.L(flags...))
}

func randomCase(r *rng.R) sexp.Node { return genCase(r, false) }

// hostileCase: a document that validation would refuse (undefined fields, type conditions on
// leaf or unknown types, unknown or cyclic fragments, sub-selections on leaves, variables that
// are not defined) is parsed and handed to the executor directly: the executor's own behaviour on
// such input (blank keys, panics) is part of the model, though not of the property.
func hostileCase(r *rng.R) sexp.Node { return genCase(r, true) }

func genCase(r *rng.R, hostile bool) sexp.Node {
	s := genSchema(r)
	d := genDocument(r, s, hostile)
	pFail := rng.Pick(r, []int{0, 3, 8, 8, 15, 15, 25, 40})
	return runCase(caseInput{s: s, text: d.text, opName: d.opName, vars: d.vars, env: d.env, unvalidated: hostile, mkW: func(p parsedDoc) *outcome {
		g := &wGen{s: s, r: r, pFail: pFail, frags: p.frags, real: p.real, vv: p.vv}
		root := s.query
		if p.kind == "mutation" && s.mutation != "" {
			root = s.mutation
		}
		if p.kind == "subscription" && s.subscription != "" {
			root = s.subscription
		}
		return g.object(root, p.opSels, 3)
	}})
}

func main() {
	hx.Main(func(h *hx.H) {
		leafFamily(h)
		argFamily(h)
		exhaustiveFamily(h)
		n := 16000
		if h.Thorough() {
			n = 200000
		}
		for i := 0; i < n; i++ {
			h.Case(randomCase)
		}
		for i := 0; i < n/4; i++ {
			h.Case(hostileCase)
		}
	})
}
