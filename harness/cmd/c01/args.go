// Field arguments and typed variables (C01 x C05).
//
// A resolver's answer depends on its coerced arguments: the object value stores the outcome of
// field f called with the argument map A under the key f + "\x00" + encArgs(A) (f itself when
// there are no arguments).  encArgs is the canonical text the Coq model computes from ITS coerced
// argument map (ExeA/ArgArgs.v, enc_gval): a disagreement about a coerced value is a different key.
package main

import (
	"fmt"
	"math"
	"math/big"
	"sort"
	"strconv"
	"strings"
	"time"

	apifu "github.com/ccbrown/api-fu"
	"github.com/ccbrown/api-fu/graphql"
	"github.com/ccbrown/api-fu/graphql/ast"
	"github.com/ccbrown/api-fu/graphql/validator"

	"verifharness/internal/hx"
	"verifharness/internal/rng"
	"verifharness/internal/sexp"
)

type argDef struct {
	name string
	ty   *tyRef
	def  interface{} // nil: no default
}

func encValue(v interface{}) string {
	switch v := v.(type) {
	case nil:
		return "n"
	case bool:
		if v {
			return "t"
		}
		return "f"
	case int:
		return "i" + strconv.Itoa(v) + ";"
	case int64:
		return "I" + strconv.FormatInt(v, 10) + ";"
	case float64:
		m, e := dyadicOf(v)
		return "d" + m.String() + "e" + strconv.Itoa(e) + ";"
	case string:
		return "s" + strconv.Itoa(len(v)) + ":" + v
	case time.Time:
		c := v.Format(time.RFC3339Nano)
		return "T" + strconv.Itoa(len(c)) + ":" + c
	case []interface{}:
		out := "["
		for _, x := range v {
			out += encValue(x)
		}
		return out + "]"
	case map[string]interface{}:
		return "{" + encArgs(v) + "}"
	}
	return "?"
}

func encArgs(m map[string]interface{}) string {
	var ks []string
	for k := range m {
		ks = append(ks, k)
	}
	sort.Strings(ks)
	out := ""
	for _, k := range ks {
		out += strconv.Itoa(len(k)) + ":" + k + "=" + encValue(m[k])
	}
	return out
}

func fieldKey(name string, args map[string]interface{}) string {
	if len(args) == 0 {
		return name
	}
	return name + "\x00" + encArgs(args)
}

// dyadicOf: f = m * 2^e with m odd (or 0, 0)
func dyadicOf(f float64) (*big.Int, int) {
	if f == 0 || math.IsNaN(f) || math.IsInf(f, 0) {
		return big.NewInt(0), 0
	}
	fr, exp := math.Frexp(f)
	m := int64(fr * (1 << 53))
	e := exp - 53
	for m%2 == 0 {
		m /= 2
		e++
	}
	return big.NewInt(m), e
}

// ---- AST -> C05's encodings ----

func astTypeSexp(t ast.Type) sexp.Node {
	switch t := t.(type) {
	case *ast.NamedType:
		return sexp.T("named", sexp.Str(t.Name.Name))
	case *ast.ListType:
		return sexp.T("list", astTypeSexp(t.Type))
	case *ast.NonNullType:
		return sexp.T("nn", astTypeSexp(t.Type))
	}
	panic("harness: unknown ast type")
}

func tyRefSexp(t *tyRef) sexp.Node {
	switch t.kind {
	case 'n':
		return sexp.T("named", sexp.Str(t.name))
	case 'l':
		return sexp.T("list", tyRefSexp(t.inner))
	}
	return sexp.T("nn", tyRefSexp(t.inner))
}

// decimal text -> m * 10^k
func decimalSexp(s string) sexp.Node {
	mant, exp := s, 0
	if i := strings.IndexAny(s, "eE"); i >= 0 {
		mant = s[:i]
		exp, _ = strconv.Atoi(s[i+1:])
	}
	if i := strings.Index(mant, "."); i >= 0 {
		exp -= len(mant) - i - 1
		mant = mant[:i] + mant[i+1:]
	}
	m, ok := new(big.Int).SetString(mant, 10)
	if !ok {
		panic("harness: bad decimal " + s)
	}
	return sexp.T("float", sexp.Big(m), sexp.Int(exp))
}

func astValueSexp(v ast.Value) sexp.Node {
	switch v := v.(type) {
	case *ast.Variable:
		return sexp.T("var", sexp.Str(v.Name.Name))
	case *ast.IntValue:
		m, _ := new(big.Int).SetString(v.Value, 10)
		return sexp.T("int", sexp.Big(m))
	case *ast.FloatValue:
		return decimalSexp(v.Value)
	case *ast.StringValue:
		return sexp.T("str", sexp.Str(v.Value))
	case *ast.BooleanValue:
		return sexp.T("bool", sexp.Bool(v.Value))
	case *ast.NullValue:
		return sexp.Sym("null")
	case *ast.EnumValue:
		return sexp.T("enum", sexp.Str(v.Value))
	case *ast.ListValue:
		var l []sexp.Node
		for _, x := range v.Values {
			l = append(l, astValueSexp(x))
		}
		return sexp.T("list", l...)
	case *ast.ObjectValue:
		var l []sexp.Node
		for _, f := range v.Fields {
			l = append(l, sexp.L(sexp.Str(f.Name.Name), astValueSexp(f.Value)))
		}
		return sexp.T("obj", l...)
	}
	panic("harness: unknown ast value")
}

// Go value of a schema default / a raw variable -> C05's gval / jval
func gvalSexp(v interface{}) sexp.Node {
	switch v := v.(type) {
	case nil:
		return sexp.Sym("nil")
	case bool:
		return sexp.T("bool", sexp.Bool(v))
	case int:
		return sexp.T("int", sexp.Int(v))
	case float64:
		m, e := dyadicOf(v)
		return sexp.T("float", sexp.Big(m), sexp.Int(e))
	case string:
		return sexp.T("str", sexp.Str(v))
	case []interface{}:
		var l []sexp.Node
		for _, x := range v {
			l = append(l, gvalSexp(x))
		}
		return sexp.T("list", l...)
	}
	panic(fmt.Sprintf("harness: default value %T", v))
}

func jvalSexp(v interface{}) sexp.Node {
	switch v := v.(type) {
	case nil:
		return sexp.Sym("null")
	case bool:
		return sexp.T("bool", sexp.Bool(v))
	case int:
		return sexp.T("int", sexp.Int(v))
	case float64:
		m, e := dyadicOf(v)
		return sexp.T("num", sexp.Big(m), sexp.Int(e))
	case string:
		return sexp.T("str", sexp.Str(v))
	case []interface{}:
		var l []sexp.Node
		for _, x := range v {
			l = append(l, jvalSexp(x))
		}
		return sexp.T("list", l...)
	case map[string]interface{}:
		var ks []string
		for k := range v {
			ks = append(ks, k)
		}
		sort.Strings(ks)
		var l []sexp.Node
		for _, k := range ks {
			l = append(l, sexp.L(sexp.Str(k), jvalSexp(v[k])))
		}
		return sexp.T("obj", l...)
	}
	return sexp.Sym("other")
}

func varsSexp(vars map[string]interface{}) sexp.Node {
	var ks []string
	for k := range vars {
		ks = append(ks, k)
	}
	sort.Strings(ks)
	var l []sexp.Node
	for _, k := range ks {
		l = append(l, sexp.L(sexp.Str(k), jvalSexp(vars[k])))
	}
	return sexp.T("vars", l...)
}

// the input types of the schema in C05's encoding, and the argument definitions by object type
func inputsSexp(s *schemaDef) (sexp.Node, sexp.Node) {
	ins := []sexp.Node{}
	for _, k := range [][2]string{{"Boolean", "boolean"}, {"Float", "float"}, {"ID", "id"}, {"Int", "int"}, {"String", "string"}} {
		ins = append(ins, sexp.L(sexp.Str(k[0]), sexp.T("scalar", sexp.Sym(k[1]))))
	}
	if s.poolArgs != nil {
		ins = append(ins, stdInputsSexp()...)
	}
	ads := []sexp.Node{}
	for _, t := range s.types {
		if t.kind != "object" {
			continue
		}
		fs := []sexp.Node{sexp.Str(t.name)}
		for _, f := range t.fields {
			fa := t.fargs[f.name]
			if fa == nil {
				fa = s.poolArgs[f.name]
			}
			if len(fa) == 0 {
				continue
			}
			l := []sexp.Node{sexp.Str(f.name)}
			for _, a := range fa {
				d := sexp.None()
				if a.def != nil {
					d = sexp.Some(gvalSexp(a.def))
				}
				l = append(l, sexp.L(sexp.Str(a.name), tyRefSexp(a.ty), d))
			}
			fs = append(fs, sexp.L(l...))
		}
		if len(fs) > 1 {
			ads = append(ads, sexp.L(fs...))
		}
	}
	return sexp.T("inputs", ins...), sexp.T("argdefs", ads...)
}

func argumentDefinitions(args []argDef, mk func(*tyRef) graphql.Type) map[string]*graphql.InputValueDefinition {
	if len(args) == 0 {
		return nil
	}
	out := map[string]*graphql.InputValueDefinition{}
	for _, a := range args {
		out[a.name] = &graphql.InputValueDefinition{Type: mk(a.ty), DefaultValue: a.def}
	}
	return out
}

// ---- the argument family: a fixed schema whose fields take arguments, hand-written documents,
// every combination of a few raw variable values, and outcome tables that answer differently for
// different coerced arguments ----

type argDoc struct {
	text string
	vars []map[string]interface{}
}

func argSchema() *schemaDef {
	s := &schemaDef{byName: map[string]*typeDef{}, query: "Q"}
	for _, n := range [][2]string{{"Int", "int"}, {"Float", "float"}, {"String", "string"}, {"Boolean", "boolean"}, {"ID", "id"}} {
		s.add(&typeDef{name: n[0], kind: "scalar", scalarKind: n[1]})
	}
	q := &typeDef{name: "Q", kind: "object", fargs: map[string][]argDef{
		"f": {{"k", named("Int"), nil}},
		"g": {{"k", nonNull(named("Int")), nil}},
		"d": {{"s", named("String"), "dflt"}, {"b", named("Boolean"), nil}},
		"l": {{"xs", listOf(nonNull(named("Int"))), nil}, {"x", named("Float"), nil}},
		"o": {{"id", named("ID"), nil}},
	}}
	q.fields = []fieldDef{{"f", named("Int")}, {"g", nonNull(named("Int"))}, {"d", named("String")},
		{"l", listOf(named("Int"))}, {"o", named("O")}, {"plain", named("Int")},
		{"il", listOf(named("I"))}, {"iv", named("I")}}
	s.add(q)
	// one interface field, implementations that differ in the argument's default (and one with an
	// argument of its own): ONE field node selected through I is coerced per concrete type
	s.add(&typeDef{name: "IA", kind: "object", ifaces: []string{"I"}, fields: []fieldDef{{"f", named("Int")}, {"plain", named("Int")}},
		fargs: map[string][]argDef{"f": {{"k", named("Int"), 2}}}})
	s.add(&typeDef{name: "IB", kind: "object", ifaces: []string{"I"}, fields: []fieldDef{{"f", named("Int")}, {"plain", named("Int")}},
		fargs: map[string][]argDef{"f": {{"k", named("Int"), 3}, {"xk", named("Int"), 9}}}})
	s.add(&typeDef{name: "IC", kind: "object", ifaces: []string{"I"}, fields: []fieldDef{{"f", named("Int")}, {"plain", named("Int")}},
		fargs: map[string][]argDef{"f": {{"k", named("Int"), nil}}}})
	s.add(&typeDef{name: "I", kind: "interface", fields: []fieldDef{{"f", named("Int")}},
		fargs: map[string][]argDef{"f": {{"k", named("Int"), 1}}}})
	s.add(&typeDef{name: "O", kind: "object", fields: []fieldDef{{"h", named("Int")}, {"plain", named("Int")}},
		fargs: map[string][]argDef{"h": {{"k", named("Int"), 5}}}})
	return s
}

func argFamily(h *hx.H) {
	s := argSchema()
	ints := []interface{}{1, 2, nil, 2147483648, 1.0, 1.5, "1", true}
	absent := struct{}{}
	var intVars []map[string]interface{}
	for _, v := range append(ints, interface{}(absent)) {
		m := map[string]interface{}{}
		if v != interface{}(absent) {
			m["n"] = v
		}
		intVars = append(intVars, m)
	}
	none := []map[string]interface{}{{}}
	docs := []argDoc{
		{`{a: f(k: 1) b: f(k: 2) c: f plain}`, none},
		{`{f(k: 1) f(k: 1)}`, none},
		{`{a: f(k: null) b: g(k: 2) c: g(k: 1)}`, none},
		{`query($n: Int) {f(k: $n) plain}`, intVars},
		{`query($n: Int = 2) {f(k: $n) g(k: $n) plain}`, intVars},
		{`query($n: Int!) {a: g(k: $n) b: f(k: $n)}`, intVars},
		{`query($n: Int = 1) {x: o(id: "a") {h(k: $n) plain} y: o(id: 7) {h} z: o {h(k: null)}}`, intVars},
		{`{a: d b: d(s: "x") c: d(s: null, b: true) e: d(b: false)}`, none},
		{`query($s: String = "x", $b: Boolean) {a: d(s: $s, b: $b) b: d(s: $s)}`,
			[]map[string]interface{}{{}, {"s": "y", "b": true}, {"s": nil}, {"b": nil}, {"s": 1}, {"b": "t"}}},
		{`{a: l(xs: [1, 2]) b: l(xs: 3) c: l(xs: [], x: 1.5) e: l(x: 2) g: l(x: 1e2)}`, none},
		{`{il {f ... on IA {plain}} iv {f}}`, none},
		{`{il {f ... on IB {b: f(xk: 1)} ... on IA {a: f(k: 7)}} iv {f(k: null)}}`, none},
		{`query($n: Int) {il {f(k: $n)} iv {f(k: $n)}}`, intVars},
		{`{il {...F} iv {...F}} fragment F on I {f}`, none},
		{`query($xs: [Int!], $x: Float) {a: l(xs: $xs, x: $x) b: l(xs: [1, 2])}`,
			[]map[string]interface{}{{}, {"xs": []interface{}{1, 2}}, {"xs": 3}, {"xs": []interface{}{1, nil}}, {"x": 2}, {"x": 1.5}, {"x": "z"}, {"xs": nil, "x": nil}}},
	}
	// the outcome table: what the resolvers answer for the coerced argument maps the documents can produce
	tbl := func(r *rng.R) *outcome {
		root := &outcome{kind: "obj", tag: "Q", fields: map[string]*outcome{}}
		put := func(o *outcome, name string, args map[string]interface{}, v *outcome) {
			k := fieldKey(name, args)
			if _, ok := o.fields[k]; !ok {
				o.names = append(o.names, k)
			}
			o.fields[k] = v
		}
		pick := func(i int) *outcome {
			switch r.Intn(6) {
			case 0:
				return &outcome{kind: "nil"}
			case 1:
				return &outcome{kind: "err"}
			}
			return &outcome{kind: "leaf", leaf: leaf{kind: "int", ik: "int", z: int64(i)}}
		}
		for i, k := range []interface{}{1, 2, nil} {
			put(root, "f", map[string]interface{}{"k": k}, pick(10+i))
			put(root, "g", map[string]interface{}{"k": k}, pick(20+i))
		}
		put(root, "plain", nil, pick(1))
		for i, a := range []map[string]interface{}{{"s": "dflt"}, {"s": "x"}, {"s": nil, "b": true}, {"s": "dflt", "b": false}, {"s": "x", "b": nil},
			{"s": "y", "b": true}, {"s": "y"}, {"s": nil}, {"s": "dflt", "b": nil}} {
			put(root, "d", a, &outcome{kind: "leaf", leaf: leaf{kind: "str", s: fmt.Sprintf("d%d", i)}})
		}
		for i, a := range []map[string]interface{}{{"xs": []interface{}{1, 2}}, {"xs": []interface{}{3}}, {"xs": []interface{}{}, "x": 1.5},
			{"x": 2.0}, {"x": 100.0}, {"xs": []interface{}{1, 2}, "x": nil}, {"xs": nil, "x": nil}, {"x": 1.5}, {"xs": []interface{}{3}, "x": nil}} {
			put(root, "l", a, &outcome{kind: "list", items: []*outcome{pick(30 + i), pick(40 + i)}})
		}
		// objects of the three implementations of I, each answering differently per coerced k
		impl := func(tag string, dflt interface{}) *outcome {
			o := &outcome{kind: "obj", tag: tag, fields: map[string]*outcome{}}
			for i, k := range []interface{}{1, 2, 3, 7, nil} {
				a := map[string]interface{}{"k": k}
				if tag == "IB" {
					a["xk"] = 9
				}
				put(o, "f", a, &outcome{kind: "leaf", leaf: leaf{kind: "int", ik: "int", z: int64(100*len(tag) + 10*int(tag[1]-'A') + i)}})
			}
			if tag == "IB" {
				put(o, "f", map[string]interface{}{"k": 3, "xk": 1}, pick(77))
			}
			if tag == "IC" {
				put(o, "f", nil, pick(78)) // IC's k has no default: omitted means no argument at all
			}
			put(o, "plain", nil, pick(3))
			return o
		}
		var items []*outcome
		for i, n := 0, 2+r.Intn(3); i < n; i++ {
			items = append(items, impl(rng.Pick(r, []string{"IA", "IB", "IC"}), nil))
		}
		put(root, "il", nil, &outcome{kind: "list", items: items})
		put(root, "iv", nil, impl(rng.Pick(r, []string{"IA", "IB", "IC"}), nil))
		for _, a := range []map[string]interface{}{{"id": "a"}, {"id": "7"}, {"id": 7}} {
			o := &outcome{kind: "obj", tag: "O", fields: map[string]*outcome{}}
			for i, k := range []interface{}{1, 2, 5, nil} {
				put(o, "h", map[string]interface{}{"k": k}, pick(50+i))
			}
			put(o, "plain", nil, pick(2))
			put(root, "o", a, o)
		}
		return root
	}
	for _, d := range docs {
		for _, vars := range d.vars {
			d, vars := d, vars
			for rep := 0; rep < 6; rep++ {
				h.Case(func(r *rng.R) sexp.Node {
					n := runCase(caseInput{s: s, text: d.text, vars: vars, mkW: func(parsedDoc) *outcome { return tbl(r) }})
					n.List[6].List = append(n.List[6].List, sexp.Sym("argument-family"))
					return n
				})
			}
		}
	}
}

// ---- arguments in the random and hostile streams ----

// The input types every random schema carries: an enum, two input objects (defaults, a list
// field, nesting, a required field) and package apifu's LongInt scalar.
func stdInputTypes() map[string]graphql.NamedType {
	ein := &graphql.EnumType{Name: "EIn", Values: map[string]*graphql.EnumValueDefinition{
		"EA": {Value: "EA"}, "EB": {Value: "EB"}, "EC": {Value: "EC"}}}
	inb := &graphql.InputObjectType{Name: "InB", Fields: map[string]*graphql.InputValueDefinition{
		"e": {Type: ein, DefaultValue: "EB"},
		"n": {Type: graphql.NewNonNullType(graphql.IntType)},
	}}
	ina := &graphql.InputObjectType{Name: "InA", Fields: map[string]*graphql.InputValueDefinition{
		"x": {Type: graphql.IntType, DefaultValue: 3},
		"y": {Type: graphql.NewListType(graphql.NewNonNullType(graphql.StringType))},
		"z": {Type: inb},
	}}
	return map[string]graphql.NamedType{"EIn": ein, "InA": ina, "InB": inb, "LongInt": apifu.LongIntType,
		"DateTime": apifu.DateTimeType}
}

// the strings the generator offers to DateTime positions, and what time.Time.UnmarshalText says
// of each (C05's parser oracle table)
var dtStrings = []string{"2020-01-01T00:00:00Z", "2021-05-06T07:08:09.123456789+02:00", "2020-02-30T00:00:00Z",
	"2016-12-31T23:59:60Z", "0000-01-01T00:00:00Z", "2020-01-01 00:00:00", "x", "zz", "", "a", "xy", "d", "7", "EA", "EB", "EC", "ED", "b"}

func dtTableSexp() sexp.Node {
	ks := append([]string{}, dtStrings...)
	sort.Strings(ks)
	var out []sexp.Node
	for _, k := range ks {
		t := time.Time{}
		if err := t.UnmarshalText([]byte(k)); err == nil {
			out = append(out, sexp.L(sexp.Str(k), sexp.Some(sexp.Str(t.Format(time.RFC3339Nano)))))
		} else {
			out = append(out, sexp.L(sexp.Str(k), sexp.None()))
		}
	}
	return sexp.T("dt", out...)
}

func stdInputsSexp() []sexp.Node {
	idef := func(n string, t sexp.Node, d sexp.Node) sexp.Node { return sexp.L(sexp.Str(n), t, d) }
	nm := func(n string) sexp.Node { return sexp.T("named", sexp.Str(n)) }
	return []sexp.Node{
		sexp.L(sexp.Str("EIn"), sexp.T("enum", sexp.L(sexp.Str("EA"), sexp.T("str", sexp.Str("EA"))),
			sexp.L(sexp.Str("EB"), sexp.T("str", sexp.Str("EB"))), sexp.L(sexp.Str("EC"), sexp.T("str", sexp.Str("EC"))))),
		sexp.L(sexp.Str("InA"), sexp.T("input", sexp.Sym("none"),
			idef("x", nm("Int"), sexp.Some(sexp.T("int", sexp.Int(3)))),
			idef("y", sexp.T("list", sexp.T("nn", nm("String"))), sexp.None()),
			idef("z", nm("InB"), sexp.None()))),
		sexp.L(sexp.Str("InB"), sexp.T("input", sexp.Sym("none"),
			idef("e", nm("EIn"), sexp.Some(sexp.T("str", sexp.Str("EB")))),
			idef("n", sexp.T("nn", nm("Int")), sexp.None()))),
		sexp.L(sexp.Str("LongInt"), sexp.T("scalar", sexp.Sym("longint"))),
		sexp.L(sexp.Str("DateTime"), sexp.T("scalar", sexp.Sym("datetime"))),
	}
}

var argMenu = []argDef{
	{"k", named("Int"), nil}, {"kn", nonNull(named("Int")), nil}, {"s", named("String"), "d"}, {"b", named("Boolean"), nil},
	{"xs", listOf(nonNull(named("Int"))), nil}, {"fl", named("Float"), nil}, {"id", named("ID"), nil},
	{"e", named("EIn"), "EB"}, {"o", named("InA"), nil}, {"os", listOf(nonNull(named("InA"))), nil},
	{"li", named("LongInt"), nil}, {"kd", nonNull(named("Int")), 4}, {"dt", named("DateTime"), nil}, {"dts", listOf(named("DateTime")), nil},
}

// poolArgs: the arguments of a pool field (the same for every type that has the field)
func poolArgs(r *rng.R) []argDef {
	if !r.Chance(2, 5) {
		return nil
	}
	var out []argDef
	for _, i := range permN(r, len(argMenu))[:r.Range(1, 3)] {
		out = append(out, argMenu[i])
	}
	sort.Slice(out, func(i, j int) bool { return out[i].name < out[j].name })
	return out
}

type typedVar struct {
	decl string
}

func (g *docGen) litOf(t *tyRef, depth int) string {
	r := g.r
	switch t.kind {
	case '!':
		return g.litOf(t.inner, depth)
	case 'l':
		if r.Chance(1, 3) {
			return g.litOf(t.inner, depth) // a single item stands for a list
		}
		var items []string
		for i, n := 0, r.Intn(3); i < n; i++ {
			items = append(items, g.varOrLit(t.inner, depth))
		}
		return "[" + strings.Join(items, ", ") + "]"
	}
	switch t.name {
	case "Int":
		return rng.Pick(r, []string{"0", "1", "-1", "7", "2147483647", "-2147483648"})
	case "Float":
		return rng.Pick(r, []string{"1.5", "2", "1e2", "-0.25", "0.1", "3"})
	case "String":
		return rng.Pick(r, []string{`"a"`, `""`, `"xy"`, `"d"`})
	case "Boolean":
		return rng.Pick(r, []string{"true", "false"})
	case "ID":
		return rng.Pick(r, []string{`"a"`, "7", `"7"`})
	case "EIn":
		return rng.Pick(r, []string{"EA", "EB", "EC"})
	case "LongInt":
		return rng.Pick(r, []string{"1", "9007199254740991", "-5", "2147483648"})
	case "DateTime":
		// an invalid literal is refused by validation (and an invalid default by variable coercion,
		// with an error located at the default): only the hostile stream writes them, as arguments
		if g.hostile && !g.constOnly && r.Chance(1, 3) {
			return strconv.Quote(rng.Pick(r, dtStrings[:7]))
		}
		return strconv.Quote(rng.Pick(r, dtStrings[:2]))
	case "InB":
		s := "n: " + g.varOrLit(nonNull(named("Int")), depth)
		if r.Bool() {
			s += ", e: " + g.varOrLit(named("EIn"), depth)
		}
		return "{" + s + "}"
	case "InA":
		var fs []string
		if r.Bool() {
			fs = append(fs, "x: "+rng.Pick(r, []string{"1", "null", "5"}))
		}
		if r.Bool() {
			fs = append(fs, "y: "+g.litOf(listOf(nonNull(named("String"))), depth))
		}
		if depth > 0 && r.Bool() {
			fs = append(fs, "z: "+g.litOf(named("InB"), depth-1))
		}
		return "{" + strings.Join(fs, ", ") + "}"
	}
	return "null"
}

// rawOf: a raw variable value for the type (mostly one that coerces)
func (g *docGen) rawOf(t *tyRef, depth int) interface{} {
	r := g.r
	num := func(i int) interface{} {
		if r.Bool() {
			return float64(i)
		}
		return i
	}
	switch t.kind {
	case '!':
		return g.rawOf(t.inner, depth)
	case 'l':
		if r.Chance(1, 4) {
			return g.rawOf(t.inner, depth)
		}
		out := []interface{}{}
		for i, n := 0, r.Intn(3); i < n; i++ {
			out = append(out, g.rawOf(t.inner, depth))
		}
		return out
	}
	if r.Chance(1, 12) {
		return rng.Pick(r, []interface{}{"zz", true, 1.5, []interface{}{}, map[string]interface{}{}}) // often the wrong kind
	}
	switch t.name {
	case "Int":
		return num(rng.Pick(r, []int{0, 1, -1, 7, 2147483647}))
	case "Float":
		return rng.Pick(r, []interface{}{1.5, 2.0, 3, -0.25})
	case "String":
		return rng.Pick(r, []interface{}{"a", "", "xy"})
	case "Boolean":
		return r.Bool()
	case "ID":
		return rng.Pick(r, []interface{}{"a", 7, "7", 7.0})
	case "EIn":
		return rng.Pick(r, []interface{}{"EA", "EB", "EC", "ED"})
	case "LongInt":
		return rng.Pick(r, []interface{}{1, 9007199254740991.0, -5.0, 2147483648.0})
	case "DateTime":
		return rng.Pick(r, dtStrings[:7])
	case "InB":
		m := map[string]interface{}{"n": num(2)}
		if r.Bool() {
			m["e"] = "EA"
		}
		return m
	case "InA":
		m := map[string]interface{}{}
		if r.Bool() {
			m["x"] = rng.Pick(r, []interface{}{1, nil, 5.0})
		}
		if r.Bool() {
			m["y"] = rng.Pick(r, []interface{}{[]interface{}{"a"}, "b", []interface{}{}})
		}
		if depth > 0 && r.Bool() {
			m["z"] = g.rawOf(named("InB"), depth-1)
		}
		return m
	}
	return nil
}

// varOrLit: an element of a list literal / a field of an object literal: now and then a variable
func (g *docGen) varOrLit(t *tyRef, depth int) string {
	if !g.constOnly && g.r.Chance(1, 6) {
		return "$" + g.newVar(t)
	}
	return g.litOf(t, depth)
}

// constLit: a literal without variables (default values are constants)
func (g *docGen) constLit(t *tyRef) string {
	old := g.constOnly
	g.constOnly = true
	defer func() { g.constOnly = old }()
	return g.litOf(t, 0)
}

// newVar declares a typed variable for a position of type t and decides its raw value
func (g *docGen) newVar(t *tyRef) string {
	r := g.r
	v := fmt.Sprintf("a%d", len(g.typed))
	decl := "$" + v + ": " + t.String()
	switch y := r.Intn(8); {
	case y < 4: // given
		g.typedVals[v] = g.rawOf(t, 1)
	case y == 4: // explicit null
		g.typedVals[v] = nil
	case y == 5 && t.kind != '!': // nullable with a default, absent
		decl += " = " + g.constLit(t)
	case y == 6 && t.kind != '!': // nullable with a default, explicit null
		decl += " = " + g.constLit(t)
		g.typedVals[v] = nil
	default: // absent
	}
	g.typed = append(g.typed, decl)
	return v
}

// argsText: the argument list of one selection of field fname
func (g *docGen) argsText(fname string, own bool, scope *typeDef) string {
	defs := g.s.poolArgs[fname]
	if own {
		defs = fieldArgs(g.s, scope, fname)
	}
	if len(defs) == 0 {
		return ""
	}
	r := g.r
	var parts []string
	for _, d := range defs {
		required := d.ty.kind == '!' && d.def == nil
		if !required && r.Chance(1, 4) {
			continue
		}
		if g.hostile && r.Chance(1, 12) {
			continue // possibly a missing required argument
		}
		switch x := r.Intn(12); {
		case x < 7:
			parts = append(parts, d.name+": "+g.litOf(d.ty, 1))
		case x == 7 && d.ty.kind != '!':
			parts = append(parts, d.name+": null")
		default:
			parts = append(parts, d.name+": $"+g.newVar(d.ty))
		}
	}
	if len(parts) == 0 {
		return ""
	}
	return "(" + strings.Join(parts, ", ") + ")"
}

// keyOf: the outcome-table key the resolver of this field node will look up on an object of type
// ot: computed with the library's own CoerceArgumentValues, so that an entry exists exactly where
// the implementation looks (a model that coerces differently looks elsewhere and finds nothing).
func (g *wGen) keyOf(ot string, s selInfo) (string, bool) {
	if g.real == nil || s.node == nil {
		return s.name, true
	}
	o, ok := g.real.NamedTypes()[ot].(*graphql.ObjectType)
	if !ok || o.Fields[s.name] == nil || (len(o.Fields[s.name].Arguments) == 0 && len(s.node.Arguments) == 0) {
		return s.name, true
	}
	args, err := validator.CoerceArgumentValues(s.node, o.Fields[s.name].Arguments, s.node.Arguments, g.vv)
	if err != nil {
		return "", false
	}
	return fieldKey(s.name, args), true
}

// perturbed: another argument map close to args (a decoy entry of the outcome table)
func perturbed(args string) string {
	for _, p := range [][2]string{{"=i1;", "=i2;"}, {"=i7;", "=i8;"}, {"=t", "=f"}, {"=f", "=t"}, {"=n", "=i0;"}, {"=s1:a", "=s1:b"}, {"=s2:EB", "=s2:EA"}, {"=i3;", "=i4;"}} {
		if strings.Contains(args, p[0]) {
			return strings.Replace(args, p[0], p[1], 1)
		}
	}
	return args + "1:_=n"
}

func fieldArgs(s *schemaDef, t *typeDef, fname string) []argDef {
	if a := t.fargs[fname]; a != nil {
		return a
	}
	return s.poolArgs[fname]
}
