package main

// The bounded-exhaustive family: a fixed schema with the type shapes T, T!, [T], [T!], [T]!,
// [T!]!, [[T!]], object / non-null object / list of non-null objects, interface, union; every
// document made of one or two root fields (ordered) over a fixed set of sub-selections plus
// a few hand-written documents with fragments and merged fields; and for each document EVERY
// assignment of {value, null, error, wrong kind} to every field (and {value, null, wrong kind} to
// every list item; lists have length 0 or 2).

import (
	"math"
	"strings"

	"verifharness/internal/hx"
	"verifharness/internal/rng"
	"verifharness/internal/sexp"
)

func fixedSchema() *schemaDef {
	s := &schemaDef{byName: map[string]*typeDef{}, query: "Q"}
	for _, b := range builtinScalars {
		s.add(&typeDef{name: b.name, kind: "scalar", scalarKind: b.kind})
	}
	i := named("Int")
	s.add(&typeDef{name: "Q", kind: "object", fields: []fieldDef{
		{"s", i}, {"sn", nonNull(i)},
		{"l", listOf(i)}, {"ln", listOf(nonNull(i))}, {"nl", nonNull(listOf(i))}, {"nln", nonNull(listOf(nonNull(i)))},
		{"ll", listOf(listOf(nonNull(i)))},
		{"o", named("O")}, {"on", nonNull(named("O"))}, {"lo", listOf(nonNull(named("O")))},
		{"i", named("I")}, {"u", nonNull(named("U"))},
	}})
	s.add(&typeDef{name: "O", kind: "object", ifaces: []string{"I"}, fields: []fieldDef{
		{"s", i}, {"sn", nonNull(i)}, {"o", named("O")}}})
	s.add(&typeDef{name: "P", kind: "object", ifaces: []string{"I"}, fields: []fieldDef{
		{"s", i}, {"sn", nonNull(i)}, {"t", i}}})
	s.add(&typeDef{name: "I", kind: "interface", fields: []fieldDef{{"s", i}}})
	s.add(&typeDef{name: "U", kind: "union", members: []string{"O", "P"}})
	return s
}

// need: the fields an object outcome must have, with what their values need
type need map[string]need

type enumerator struct {
	s *schemaDef
}

var goodInt = leaf{kind: "int", ik: "int", z: 5}
var wrongLeaf = leaf{kind: "str", s: "x"}

// all outcomes for a position of type t; resolver: an error is possible
func (e *enumerator) options(t *tyRef, n need, resolver bool) []*outcome {
	for t.kind == '!' {
		t = t.inner
	}
	out := []*outcome{{kind: "nil"}}
	if resolver {
		out = append(out, &outcome{kind: "err"})
	}
	if t.kind == 'l' {
		out = append(out, &outcome{kind: "leaf", leaf: goodInt}) // wrong kind
		out = append(out, &outcome{kind: "list"})
		items := e.options(t.inner, n, false)
		for _, a := range items {
			for _, b := range items {
				out = append(out, &outcome{kind: "list", items: []*outcome{a, b}})
			}
		}
		return out
	}
	nt := e.s.byName[t.name]
	if !nt.composite() {
		out = append(out, &outcome{kind: "leaf", leaf: goodInt})
		out = append(out, &outcome{kind: "leaf", leaf: wrongLeaf})
		return out
	}
	out = append(out, &outcome{kind: "leaf", leaf: goodInt}) // wrong kind
	if nt.kind != "object" {
		out = append(out, &outcome{kind: "obj", tag: "Nope", fields: map[string]*outcome{}})
	}
	for _, ot := range e.s.possible(t.name) {
		out = append(out, e.objects(ot, n)...)
	}
	return out
}

// all object values of concrete type ot providing the needed fields
func (e *enumerator) objects(ot string, n need) []*outcome {
	t := e.s.byName[ot]
	var names []string
	var opts [][]*outcome
	for _, f := range t.fields {
		if sub, ok := n[f.name]; ok {
			names = append(names, f.name)
			opts = append(opts, e.options(f.ty, sub, true))
		}
	}
	total := 1
	for _, o := range opts {
		total *= len(o)
	}
	out := make([]*outcome, 0, total)
	for k := 0; k < total; k++ {
		o := &outcome{kind: "obj", tag: ot, names: names, fields: map[string]*outcome{}}
		x := k
		for i, n := range names {
			o.fields[n] = opts[i][x%len(opts[i])]
			x /= len(opts[i])
		}
		out = append(out, o)
	}
	return out
}

type exDoc struct {
	text string
	need need
}

type exSel struct {
	text string
	need need
}

func exhaustiveDocs(thorough bool) []exDoc {
	leafNeed := need{}
	objSubs := []exSel{
		{"{s}", need{"s": leafNeed}},
		{"{sn}", need{"sn": leafNeed}},
		{"{a: sn s}", need{"s": leafNeed, "sn": leafNeed}},
		{"{o {sn}}", need{"o": need{"sn": leafNeed}}},
	}
	rootSels := []exSel{}
	for _, f := range []string{"s", "sn", "l", "ln", "nl", "nln", "ll"} {
		rootSels = append(rootSels, exSel{f, need{f: leafNeed}})
	}
	for _, f := range []string{"o", "on", "lo"} {
		for _, sub := range objSubs {
			rootSels = append(rootSels, exSel{f + " " + sub.text, need{f: sub.need}})
		}
	}
	rootSels = append(rootSels,
		exSel{"i {s}", need{"i": need{"s": leafNeed}}},
		exSel{"i {s ... on O {sn}}", need{"i": need{"s": leafNeed, "sn": leafNeed}}},
		exSel{"i {... on P {x: t} ... on O {x: s}}", need{"i": need{"s": leafNeed, "t": leafNeed}}},
		exSel{"u {__typename ... on O {sn} ... on P {s}}", need{"u": need{"s": leafNeed, "sn": leafNeed}}},
		exSel{"u {... on I {s}}", need{"u": need{"s": leafNeed}}},
	)
	var docs []exDoc
	for _, a := range rootSels {
		docs = append(docs, exDoc{"{" + a.text + "}", a.need})
	}
	merge := func(a, b need) need {
		out := need{}
		for k, v := range a {
			out[k] = v
		}
		for k, v := range b {
			if _, ok := out[k]; ok {
				return nil // same root field twice: handled by the hand-written documents
			}
			out[k] = v
		}
		return out
	}
	for _, a := range rootSels {
		for _, b := range rootSels {
			if n := merge(a.need, b.need); n != nil && (thorough || len(a.text) < 12 || len(b.text) < 12) {
				docs = append(docs, exDoc{"{" + a.text + " " + b.text + "}", n})
			}
		}
	}
	if thorough {
		small := rootSels[:7]
		for _, a := range small {
			for _, b := range small {
				for _, c := range small {
					n := merge(a.need, b.need)
					if n == nil {
						continue
					}
					if n = merge(n, c.need); n != nil {
						docs = append(docs, exDoc{"{" + a.text + " " + b.text + " " + c.text + "}", n})
					}
				}
			}
		}
	}
	// hand-written: merged fields, repeated spreads, aliases, skip/include
	sn := need{"s": leafNeed, "sn": leafNeed}
	docs = append(docs,
		exDoc{"{sn sn}", need{"sn": leafNeed}},
		exDoc{"{a: sn b: sn s}", need{"sn": leafNeed, "s": leafNeed}},
		exDoc{"{o {s} o {sn}}", need{"o": sn}},
		exDoc{"{on {s} ... on Q {on {sn}}}", need{"on": sn}},
		exDoc{"{...F ...F s} fragment F on Q {sn o {s}}", need{"s": leafNeed, "sn": leafNeed, "o": need{"s": leafNeed}}},
		exDoc{"{...F o {sn}} fragment F on Q {o {s ...G}} fragment G on O {x: sn}", need{"o": sn}},
		exDoc{"{i {s} i {... on O {sn}} ... {i {... on P {sn}}}}", need{"i": sn}},
		exDoc{"{s @skip(if: true) sn @include(if: false) l}", need{"s": leafNeed, "sn": leafNeed, "l": leafNeed}},
		exDoc{"{lo {s} lo {sn}}", need{"lo": sn}},
		exDoc{"{u {... on O {o {sn}} ... on P {sn}}}", need{"u": need{"o": need{"sn": leafNeed}, "sn": leafNeed}}},
		// ONE field node (o inside F) takes part in two DIFFERENT merged sub-selection lists of the
		// same object type, the same length and the same first node: [__typename@F, s] and
		// [__typename@F, sn].  A memo key of collectFields that does not contain every selection's
		// position confuses the two.
		exDoc{"{p: o {...F o {s}} q: o {...F o {sn}}} fragment F on O {o {__typename}}", need{"o": need{"o": sn}}},
		exDoc{"{p: o {...F o {x: s}} q: o {...F o {x: sn}}} fragment F on O {o {a: s}}", need{"o": need{"o": sn}}},
		exDoc{"{p: lo {...F o {sn s}} q: lo {...F o {s o {s}}}} fragment F on O {o {s}}",
			need{"lo": need{"o": need{"s": leafNeed, "sn": leafNeed, "o": need{"s": leafNeed}}}}},
		exDoc{"{p: on {o {s} ...F} q: on {o {s} o {sn} ...F} r: on {o {s} o {a: sn} ...F}} fragment F on O {o {b: s}}", need{"on": need{"o": sn}}},
	)
	return docs
}

func exhaustiveFamily(h *hx.H) {
	s := fixedSchema()
	e := &enumerator{s: s}
	limit := 300
	if h.Thorough() {
		limit = 2500
	}
	for _, d := range exhaustiveDocs(h.Thorough()) {
		d := d
		roots := e.objects("Q", d.need)
		if len(roots) > limit {
			// too many assignments for this tier: every k-th one (k fixed by the count)
			step := (len(roots) + limit - 1) / limit
			var sample []*outcome
			for i := 0; i < len(roots); i += step {
				sample = append(sample, roots[i])
			}
			roots = sample
		}
		for _, w := range roots {
			w := w
			h.Case(func(*rng.R) sexp.Node {
				n := runCase(caseInput{s: s, text: d.text, vars: nil, env: map[string]*bool{},
					mkW: func(parsedDoc) *outcome { return w }})
				if strings.HasPrefix(d.text, "{") {
					n.List[6].List = append(n.List[6].List, sexp.Sym("exhaustive"))
				}
				return n
			})
		}
	}
}

// The leaf-coercion family: one field per built-in scalar (and an enum, and custom scalars reusing
// the built-in coercers); for each, EVERY value of a table of boundary values of every Go dynamic
// type result coercion switches on.
func leafTable() []leaf {
	var out []leaf
	out = append(out, leaf{kind: "bool", b: true}, leaf{kind: "bool", b: false}, leaf{kind: "other"})
	ints := []int64{0, 1, -1, 127, -128, 255, 32767, -32768, 65535, 2147483646, 2147483647, 2147483648, -2147483647, -2147483648, -2147483649,
		4294967295, 9007199254740991, 9007199254740992, 9007199254740993, 9007199254740995, -9007199254740993, 9223372036854775807, -9223372036854775808}
	for _, ik := range []string{"i8", "u8", "i16", "u16", "i32", "u32", "i64", "u64", "int", "uint"} {
		seen := map[string]bool{}
		for _, v := range ints {
			l := leaf{kind: "int", ik: ik}
			switch ik {
			case "i8":
				l.z = int64(int8(v))
			case "u8":
				l.z = int64(uint8(v))
			case "i16":
				l.z = int64(int16(v))
			case "u16":
				l.z = int64(uint16(v))
			case "i32":
				l.z = int64(int32(v))
			case "u32":
				l.u = uint64(uint32(v))
			case "u64", "uint":
				l.u = uint64(v)
			default:
				l.z = v
			}
			k := l.bigInt().String()
			if !seen[k] {
				seen[k] = true
				out = append(out, l)
			}
		}
		if ik == "u64" || ik == "uint" {
			for _, u := range []uint64{1 << 63, 1<<63 - 1, 1<<63 + 1024, 1<<63 + 1025, 1<<64 - 1, 1<<64 - 1024, 1<<64 - 1025, 9223372036854775807 + 1} {
				out = append(out, leaf{kind: "int", ik: ik, u: u})
			}
		}
	}
	for _, f := range []float64{0, math.Copysign(0, -1), 1, -1, 0.5, 1.5, -2.25, 0.1, 2147483647, 2147483647.5, 2147483648, -2147483648, -2147483648.5, -2147483649,
		1e10, 1e21, 1e-7, 123456789.125, 1e300, 5e-324, 1.7976931348623157e308, math.NaN(), math.Inf(1), math.Inf(-1), 4294967296, 9007199254740993} {
		out = append(out, leaf{kind: "f64", f: f})
	}
	for _, f := range []float64{0, 1, -7, 0.5, 16777216, 16777217, 3.4028234663852886e38, float64(float32(0.1)), 2147483648, -2147483648, math.NaN(), math.Inf(1), math.Inf(-1)} {
		out = append(out, leaf{kind: "f32", f: f})
	}
	for _, s := range []string{"", "a", "10", "-5", "v0", "v1", "X_V0", "with \"quotes\" and \\", "<tag>&", "caf\u00e9 \u2603 \U0001F600", "line\nbreak\ttab\x01"} {
		out = append(out, leaf{kind: "str", s: s})
	}
	return out
}

func leafFamily(h *hx.H) {
	s := &schemaDef{byName: map[string]*typeDef{}, query: "Q"}
	for _, b := range builtinScalars {
		s.add(&typeDef{name: b.name, kind: "scalar", scalarKind: b.kind})
	}
	q := &typeDef{name: "Q", kind: "object"}
	for _, b := range builtinScalars {
		s.add(&typeDef{name: "C" + b.name, kind: "scalar", scalarKind: b.kind})
		q.fields = append(q.fields, fieldDef{"f" + b.name, named(b.name)}, fieldDef{"n" + b.name, nonNull(named(b.name))}, fieldDef{"c" + b.name, named("C" + b.name)})
	}
	s.add(&typeDef{name: "X", kind: "enum", enumVals: []enumVal{{"X_V0", leaf{kind: "int", ik: "int", z: 0}}, {"X_V1", leaf{kind: "str", s: "v1"}},
		{"X_V2", leaf{kind: "f64", f: 1.5}}, {"X_V3", leaf{kind: "bool", b: true}}, {"X_V4", leaf{kind: "int", ik: "u8", z: 1}}}})
	q.fields = append(q.fields, fieldDef{"x", named("X")})
	s.add(q)
	table := leafTable()
	for _, f := range q.fields {
		f := f
		for _, l := range table {
			l := l
			h.Case(func(*rng.R) sexp.Node {
				w := &outcome{kind: "obj", tag: "Q", names: []string{f.name}, fields: map[string]*outcome{f.name: {kind: "leaf", leaf: l}}}
				n := runCase(caseInput{s: s, text: "{" + f.name + "}", env: map[string]*bool{}, mkW: func(parsedDoc) *outcome { return w }})
				n.List[6].List = append(n.List[6].List, sexp.Sym("exhaustive"), sexp.Sym("leaf-family"))
				return n
			})
		}
	}
}
