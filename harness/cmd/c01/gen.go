package main

// Generators: schema description -> valid-by-construction document text -> outcome tree.

import (
	"fmt"
	"sort"
	"strings"

	"verifharness/internal/rng"
)

// ---- schema description ----

type tyRef struct {
	kind  byte // 'n' named, 'l' list, '!' non-null
	name  string
	inner *tyRef
}

func named(n string) *tyRef   { return &tyRef{kind: 'n', name: n} }
func listOf(t *tyRef) *tyRef  { return &tyRef{kind: 'l', inner: t} }
func nonNull(t *tyRef) *tyRef { return &tyRef{kind: '!', inner: t} }
func (t *tyRef) base() string {
	for t.kind != 'n' {
		t = t.inner
	}
	return t.name
}
func (t *tyRef) String() string {
	switch t.kind {
	case 'n':
		return t.name
	case 'l':
		return "[" + t.inner.String() + "]"
	}
	return t.inner.String() + "!"
}

type fieldDef struct {
	name string
	ty   *tyRef
}

type enumVal struct {
	name string
	val  leaf
}

type typeDef struct {
	name       string
	kind       string // scalar enum object interface union
	scalarKind string // int float string boolean id
	enumVals   []enumVal
	fields     []fieldDef
	ifaces     []string
	members    []string
	fargs      map[string][]argDef // arguments of the fields that take some
}

func (t *typeDef) field(n string) *fieldDef {
	for i := range t.fields {
		if t.fields[i].name == n {
			return &t.fields[i]
		}
	}
	return nil
}
func (t *typeDef) composite() bool {
	return t.kind == "object" || t.kind == "interface" || t.kind == "union"
}

type schemaDef struct {
	types    []*typeDef
	byName   map[string]*typeDef
	query    string
	mutation string
	// the subscription root type: graphql.Execute on a subscription operation executes one event
	// (executor.executeSubscriptionEvent) on the initial value
	subscription string
	// random schemas: the arguments of the pool fields (by field name: the same on every type
	// that has the field); non-nil also means "the schema carries the standard input types"
	poolArgs map[string][]argDef
}

func (s *schemaDef) add(t *typeDef) { s.types = append(s.types, t); s.byName[t.name] = t }

// possible object types of a composite type, in schema order
func (s *schemaDef) possible(n string) []string {
	t := s.byName[n]
	switch t.kind {
	case "object":
		return []string{n}
	case "union":
		return append([]string(nil), t.members...)
	case "interface":
		var out []string
		for _, o := range s.types {
			if o.kind == "object" && contains(o.ifaces, n) {
				out = append(out, o.name)
			}
		}
		return out
	}
	return nil
}

func contains(l []string, x string) bool {
	for _, y := range l {
		if x == y {
			return true
		}
	}
	return false
}

func intersects(a, b []string) bool {
	for _, x := range a {
		if contains(b, x) {
			return true
		}
	}
	return false
}

// composite types whose possible types overlap those of scope (valid fragment type conditions)
func (s *schemaDef) applicable(scope string) []string {
	ps := s.possible(scope)
	var out []string
	for _, t := range s.types {
		if t.composite() && intersects(ps, s.possible(t.name)) {
			out = append(out, t.name)
		}
	}
	return out
}

var builtinScalars = []struct{ name, kind string }{
	{"Int", "int"}, {"Float", "float"}, {"String", "string"}, {"Boolean", "boolean"}, {"ID", "id"},
}

func wrapRandom(r *rng.R, base string, maxDepth int) *tyRef {
	t := named(base)
	if r.Chance(1, 3) {
		t = nonNull(t)
	}
	lists := 0
	switch x := r.Intn(10); {
	case x < 4:
		lists = 0
	case x < 8:
		lists = 1
	case x < 9:
		lists = 2
	default:
		lists = 3
	}
	if lists > maxDepth {
		lists = maxDepth
	}
	for i := 0; i < lists; i++ {
		t = listOf(t)
		if r.Chance(2, 5) {
			t = nonNull(t)
		}
	}
	return t
}

func genSchema(r *rng.R) *schemaDef {
	s := &schemaDef{byName: map[string]*typeDef{}, query: "Q"}
	for _, b := range builtinScalars {
		s.add(&typeDef{name: b.name, kind: "scalar", scalarKind: b.kind})
	}
	for i, n := 0, r.Intn(3); i < n; i++ {
		s.add(&typeDef{name: fmt.Sprintf("S%d", i+1), kind: "scalar", scalarKind: rng.Pick(r, builtinScalars).kind})
	}
	for i, n := 0, r.Intn(3); i < n; i++ {
		e := &typeDef{name: []string{"E", "F"}[i], kind: "enum"}
		strs := r.Bool()
		for j, m := 0, r.Range(1, 3); j < m; j++ {
			v := leaf{kind: "int", ik: "int", z: int64(10 + j)}
			if strs {
				v = leaf{kind: "str", s: fmt.Sprintf("v%d", j)}
			}
			e.enumVals = append(e.enumVals, enumVal{name: fmt.Sprintf("%s_V%d", e.name, j), val: v})
		}
		s.add(e)
	}
	objNames := []string{"Q", "A", "B", "C", "D"}[:r.Range(2, 5)]
	if r.Chance(1, 4) {
		objNames = append(objNames, "M")
		s.mutation = "M"
	}
	if r.Chance(1, 5) {
		objNames = append(objNames, "T")
		s.subscription = "T"
	}
	ifaceNames := []string{"I", "J", "K"}[:r.Intn(4)]
	unionNames := []string{"U", "V"}[:r.Intn(3)]
	var leafNames, compNames []string
	for _, t := range s.types {
		leafNames = append(leafNames, t.name)
	}
	compNames = append(compNames, objNames...)
	compNames = append(compNames, ifaceNames...)
	compNames = append(compNames, unionNames...)
	// the pool: every field name has ONE type in the whole schema, so un-aliased fields always merge
	nPool := r.Range(6, 12)
	pool := make([]fieldDef, nPool)
	for i := range pool {
		base := rng.Pick(r, leafNames)
		if r.Chance(2, 5) {
			base = rng.Pick(r, compNames)
		}
		pool[i] = fieldDef{name: fmt.Sprintf("f%d", i), ty: wrapRandom(r, base, 3)}
	}
	s.poolArgs = map[string][]argDef{}
	for i := range pool {
		if a := poolArgs(r); len(a) > 0 {
			s.poolArgs[pool[i].name] = a
		}
	}
	pick := func(lo, hi int) []fieldDef {
		n := r.Range(lo, hi)
		if n > nPool {
			n = nPool
		}
		idx := map[int]bool{}
		for len(idx) < n {
			idx[r.Intn(nPool)] = true
		}
		var keys []int
		for k := range idx {
			keys = append(keys, k)
		}
		sort.Ints(keys)
		var out []fieldDef
		for _, k := range keys {
			out = append(out, pool[k])
		}
		return out
	}
	var ifaces []*typeDef
	for _, n := range ifaceNames {
		t := &typeDef{name: n, kind: "interface", fields: pick(1, 3)}
		ifaces = append(ifaces, t)
	}
	var objs []*typeDef
	for _, n := range objNames {
		t := &typeDef{name: n, kind: "object", fields: pick(2, 5)}
		for _, i := range ifaces {
			if r.Chance(3, 5) {
				t.ifaces = append(t.ifaces, i.name)
				for _, f := range i.fields {
					if t.field(f.name) == nil {
						t.fields = append(t.fields, f)
					}
				}
			}
		}
		objs = append(objs, t)
	}
	// Object types may differ from the interface (and from each other) in the DEFAULTS of a field's
	// arguments and may add nullable arguments of their own: one field node selected through an
	// interface is then coerced against different argument definitions, item by item.
	for _, t := range objs {
		for _, f := range t.fields {
			base := s.poolArgs[f.name]
			if len(base) == 0 || !r.Chance(1, 2) {
				continue
			}
			var own []argDef
			for _, a := range base {
				switch {
				case a.ty.kind == '!' && a.def == nil: // required: nothing to vary
				case a.ty.String() == "Int" || a.ty.String() == "Int!":
					a.def = r.Range(1, 9)
				case a.ty.String() == "String":
					a.def = rng.Pick(r, []interface{}{"d", "own", nil})
				case a.ty.String() == "Boolean":
					a.def = rng.Pick(r, []interface{}{true, false, nil})
				case a.ty.String() == "EIn":
					a.def = rng.Pick(r, []interface{}{"EA", "EB", "EC"})
				}
				own = append(own, a)
			}
			if r.Chance(1, 3) {
				own = append(own, argDef{"xk", named("Int"), r.Range(1, 9)})
				sort.Slice(own, func(i, j int) bool { return own[i].name < own[j].name })
			}
			if t.fargs == nil {
				t.fargs = map[string][]argDef{}
			}
			t.fargs[f.name] = own
		}
	}
	for _, t := range objs {
		s.add(t)
	}
	for _, t := range ifaces {
		s.add(t)
	}
	for _, n := range unionNames {
		t := &typeDef{name: n, kind: "union"}
		k := r.Range(1, 3)
		for _, i := range permN(r, len(objs)) {
			if len(t.members) < k {
				t.members = append(t.members, objs[i].name)
			}
		}
		s.add(t)
	}
	return s
}

func permN(r *rng.R, n int) []int {
	p := make([]int, n)
	for i := range p {
		p[i] = i
	}
	for i := n - 1; i > 0; i-- {
		j := r.Intn(i + 1)
		p[i], p[j] = p[j], p[i]
	}
	return p
}

// ---- document generation (text) ----

type fragment struct {
	name, cond, body string
}

type docGen struct {
	s         *schemaDef
	r         *rng.R
	frags     []fragment // completed fragments
	nfrag     int
	budget    int // remaining field nodes
	usedVars  map[string]bool
	vars      []string // available variable names
	mShape    string   // type string the special alias "m" stands for
	root      bool
	hostile   bool
	constOnly bool                   // generating a default value: no variables inside
	argTexts  map[string]string      // response key / field name -> argument list
	typed     []string               // declarations of the typed variables used as arguments
	typedVals map[string]interface{} // their raw values (absent: no value)
}

func (g *docGen) directives() string {
	if !g.r.Chance(1, 4) {
		return ""
	}
	out := ""
	for i, n := 0, 1+g.r.Intn(5)/4; i < n; i++ {
		d := "skip"
		if g.r.Bool() {
			d = "include"
		}
		// validation forbids repeating a directive at one location
		if strings.Contains(out, "@"+d) {
			continue
		}
		var c string
		if len(g.vars) > 0 && g.r.Chance(1, 2) {
			v := rng.Pick(g.r, g.vars)
			g.usedVars[v] = true
			c = "$" + v
		} else if g.r.Bool() {
			c = "true"
		} else {
			c = "false"
		}
		out += fmt.Sprintf(" @%s(if: %s)", d, c)
	}
	return out
}

func (g *docGen) leafFieldsOf(t *typeDef) []fieldDef {
	var out []fieldDef
	for _, f := range t.fields {
		if !g.s.byName[f.ty.base()].composite() {
			out = append(out, f)
		}
	}
	return out
}

// singleRoot: exactly one root field (what a subscription operation may select)
func (g *docGen) singleRoot(scope string, depth int) string {
	t := g.s.byName[scope]
	g.root = false
	f := rng.Pick(g.r, t.fields)
	bt := g.s.byName[f.ty.base()]
	if bt.composite() && depth <= 0 {
		if lf := g.leafFieldsOf(t); len(lf) > 0 {
			f = rng.Pick(g.r, lf)
			bt = g.s.byName[f.ty.base()]
		}
	}
	g.budget--
	rkey := "/" + f.name
	argText := g.argsText(f.name, false, t)
	g.argTexts[rkey] = argText
	sel := f.name + argText
	if bt.composite() {
		sel += " {" + g.selSet(bt.name, depth-1, 3) + "}"
	}
	return sel
}

// selSet returns the inside of a selection set (without braces) for the given scope type.
func (g *docGen) selSet(scope string, depth int, fragDepth int) string {
	t := g.s.byName[scope]
	var items []string
	n := 1 + g.r.Intn(4)
	isRoot := g.root
	g.root = false
	for i := 0; i < n; i++ {
		switch x := g.r.Intn(20); {
		case x < 11 && len(t.fields) > 0: // a field
			f := rng.Pick(g.r, t.fields)
			bt := g.s.byName[f.ty.base()]
			if bt.composite() && (depth <= 0 || g.budget <= 1) {
				lf := g.leafFieldsOf(t)
				if len(lf) == 0 {
					items = append(items, "__typename")
					continue
				}
				f = rng.Pick(g.r, lf)
				bt = g.s.byName[f.ty.base()]
			}
			g.budget--
			alias := ""
			switch y := g.r.Intn(12); {
			case y == 0:
				alias = "y_" + f.name + ": "
			case y == 1:
				alias = "z_" + f.name + ": "
			case y == 2 && t.kind == "object" && !bt.composite() && f.ty.String() == g.mShape:
				// "m" may name different fields on different object types (same shape)
				for _, f2 := range t.fields {
					if f2.ty.String() == g.mShape {
						f = f2
						break
					}
				}
				alias = "m: "
			}
			// one response key, one argument list (fields under one key must have identical arguments)
			// an argument only this object type declares can only be given where the scope is that
			// object type, and under a response key of its own
			if alias == "" && t.kind == "object" && g.r.Chance(1, 3) {
				for _, a := range t.fargs[f.name] {
					if a.name == "xk" {
						alias = "xa_" + t.name + "_" + f.name + ": "
					}
				}
			}
			rkey := strings.TrimSuffix(strings.TrimSpace(alias), ":") + "/" + f.name
			// twin sites: ONE field node (inside a new named fragment) merges with different sibling
			// nodes at two spread sites of the same type; the two merged sub-selection lists have
			// the same first node and the same length (what a too coarse memo key of collectFields
			// cannot tell apart)
			if bt.composite() && bt.kind != "union" && len(g.s.possible(bt.name)) > 0 && depth >= 2 && fragDepth > 0 && g.nfrag < 5 && g.budget > 6 && g.r.Chance(1, 5) {
				var inner []fieldDef
				for _, f2 := range bt.fields {
					if b2 := g.s.byName[f2.ty.base()]; b2.composite() && len(g.s.poolArgs[f2.name]) == 0 {
						inner = append(inner, f2)
					}
				}
				if len(inner) > 0 && len(g.s.poolArgs[f.name]) == 0 {
					f2 := rng.Pick(g.r, inner)
					b2 := g.s.byName[f2.ty.base()].name
					g.nfrag++
					name := fmt.Sprintf("F%d", g.nfrag)
					g.frags = append(g.frags, fragment{name, bt.name, f2.name + " {" + g.selSet(b2, 0, 0) + "}"})
					g.budget -= 4
					for _, al := range []string{"ta", "tb", "tc"}[:2+g.r.Intn(2)] {
						sub := f2.name + " {" + g.selSet(b2, 0, 0) + "}"
						site := "..." + name + " " + sub
						if g.r.Bool() {
							site = sub + " ..." + name
						}
						items = append(items, al+"_"+f.name+": "+f.name+" {"+site+"}")
					}
					continue
				}
			}
			argText, ok := g.argTexts[rkey]
			if !ok || (g.hostile && g.r.Chance(1, 6)) { // hostile: differing arguments under one response key
				argText = g.argsText(f.name, strings.HasPrefix(alias, "xa_"), t)
				g.argTexts[rkey] = argText
			}
			sel := alias + f.name + argText + g.directives()
			if bt.composite() {
				sel += " {" + g.selSet(bt.name, depth-1, fragDepth) + "}"
			}
			items = append(items, sel)
			// the same field again under the same response key: the two field nodes are merged
			// (a resolver error carries both locations, the sub-selections are concatenated)
			if g.budget > 0 && g.r.Chance(1, 5) {
				g.budget--
				again := alias + f.name + argText + g.directives() // merged field nodes must have identical arguments
				if bt.composite() {
					again += " {" + g.selSet(bt.name, depth-1, fragDepth) + "}"
				}
				if g.r.Chance(1, 3) && fragDepth > 0 {
					again = "... {" + again + "}"
				}
				items = append(items, again)
			}
		case x < 13:
			g.budget--
			if g.r.Chance(1, 3) {
				items = append(items, "zt: __typename"+g.directives())
			} else {
				items = append(items, "__typename"+g.directives())
			}
		case x < 16 && fragDepth > 0: // inline fragment
			if app := g.s.applicable(scope); len(app) == 0 || g.r.Chance(1, 4) {
				items = append(items, "..."+g.directives()+" {"+g.selSet(scope, depth, fragDepth-1)+"}")
			} else {
				c := rng.Pick(g.r, g.s.applicable(scope))
				items = append(items, "... on "+c+g.directives()+" {"+g.selSet(c, depth, fragDepth-1)+"}")
			}
		case x < 19 && fragDepth > 0: // named fragment
			app := g.s.applicable(scope)
			var cands []fragment
			for _, f := range g.frags {
				if contains(app, f.cond) {
					cands = append(cands, f)
				}
			}
			if len(cands) > 0 && g.r.Chance(1, 2) {
				items = append(items, "..."+rng.Pick(g.r, cands).name+g.directives())
			} else if g.nfrag < 5 && len(app) > 0 {
				c := rng.Pick(g.r, app)
				g.nfrag++
				name := fmt.Sprintf("F%d", g.nfrag)
				body := g.selSet(c, depth, fragDepth-1)
				g.frags = append(g.frags, fragment{name, c, body})
				sp := "..." + name + g.directives()
				items = append(items, sp)
				if g.r.Chance(1, 5) { // repeated spread of the same fragment
					items = append(items, "..."+name+g.directives())
				}
			}
		case x == 19 && isRoot && scope == g.s.query:
			if g.r.Bool() {
				items = append(items, "__schema {queryType {name}}")
			} else {
				items = append(items, "zm: __type(name: \"Q\") {name kind}")
			}
		}
		if g.budget <= 0 {
			break
		}
	}
	if len(items) == 0 {
		items = append(items, "__typename")
	}
	return strings.Join(items, " ")
}

type genDoc struct {
	text     string
	vars     map[string]interface{} // VariableValues handed to Execute
	env      map[string]*bool       // coerced values of the declared variables (nil: an explicit null)
	mutation bool
	kw       string // query, mutation or subscription
	opName   string // Request.OperationName
}

func genDocument(r *rng.R, s *schemaDef, hostile bool) genDoc {
	g := &docGen{s: s, r: r, budget: r.Range(2, 25), usedVars: map[string]bool{}, root: true, hostile: hostile,
		typedVals: map[string]interface{}{}, argTexts: map[string]string{}}
	for i, n := 0, r.Intn(3); i < n; i++ {
		g.vars = append(g.vars, fmt.Sprintf("v%d", i))
	}
	// the shape of alias m: the type of some leaf field
	var shapes []string
	for _, t := range s.types {
		if t.kind == "object" {
			for _, f := range g.leafFieldsOf(t) {
				shapes = append(shapes, f.ty.String())
			}
		}
	}
	if len(shapes) > 0 {
		g.mShape = rng.Pick(r, shapes)
	}
	out := genDoc{vars: map[string]interface{}{}, env: map[string]*bool{}}
	rootT := s.query
	out.kw = "query"
	single := false
	switch {
	case s.mutation != "" && r.Chance(1, 2):
		rootT = s.mutation
		out.mutation = true
		out.kw = "mutation"
		g.root = false
	case s.subscription != "" && r.Chance(1, 2):
		// a subscription operation has exactly one root field (5.2.3.1); the hostile stream also more
		rootT = s.subscription
		out.kw = "subscription"
		g.root = false
		single = !hostile || r.Bool()
	case hostile && r.Chance(1, 12):
		// an operation type the schema has no root type for: "This schema cannot perform ..."
		if s.mutation == "" && r.Bool() {
			out.kw = "mutation"
			g.root = false
		} else if s.subscription == "" {
			out.kw = "subscription"
			g.root = false
		}
	}
	var body string
	if single {
		body = g.singleRoot(rootT, r.Range(1, 4))
	} else {
		body = g.selSet(rootT, r.Range(1, 4), 3)
	}
	if hostile {
		// selections validation would refuse: the executor is handed the parsed document directly
		rt := s.byName[rootT]
		extras := []string{"... on Int {__typename}", "... on Nope {__typename}", "...Missing", "zz9", "zz9 {__typename}",
			"__typename @skip(if: $nope)", "__typename @include(if: $nope)", "...CY", "... on String {zz9}", "zq: __schema"}
		for _, f := range rt.fields {
			if s.byName[f.ty.base()].composite() {
				extras = append(extras, f.name, f.name+" {zz9}", f.name+" {... on Boolean {__typename}}", f.name+" {zz9 {zz8} __typename}")
			} else {
				extras = append(extras, f.name+" {__typename}", f.name+" {zz9}")
			}
		}
		for i, n := 0, r.Range(1, 2); i < n; i++ {
			x := rng.Pick(r, extras)
			if x == "...CY" && !strings.Contains(body, "...CY") {
				g.frags = append(g.frags, fragment{"CY", rootT, "__typename ...CY ...F1"})
			}
			if r.Bool() {
				body = x + " " + body
			} else {
				body = body + " " + x
			}
		}
	}
	var decls []string
	for _, v := range g.vars {
		if !g.usedVars[v] {
			continue
		}
		val := r.Bool()
		switch r.Intn(10) {
		case 0, 1, 2: // required, given
			decls = append(decls, "$"+v+": Boolean!")
			out.vars[v] = val
			out.env[v] = &val
		case 3, 4, 5: // default, absent
			decls = append(decls, fmt.Sprintf("$%s: Boolean = %v", v, val))
			out.env[v] = &val
		case 6, 7, 8: // default, overridden
			decls = append(decls, fmt.Sprintf("$%s: Boolean! = %v", v, !val))
			out.vars[v] = val
			out.env[v] = &val
		default: // nullable with a default, explicitly null: passes validation and variable
			// coercion, the directive's Boolean! argument cannot be coerced at run time
			decls = append(decls, fmt.Sprintf("$%s: Boolean = %v", v, val))
			out.vars[v] = nil
			out.env[v] = nil
		}
	}
	decls = append(decls, g.typed...)
	for v, val := range g.typedVals {
		out.vars[v] = val
	}
	head := ""
	switch {
	case out.kw != "query":
		head = out.kw
	case len(decls) > 0 || r.Chance(1, 3):
		head = "query"
	}
	if len(decls) > 0 {
		head += " (" + strings.Join(decls, ", ") + ")"
	}
	var sb strings.Builder
	layout := func(s string) string { // vary lines so that positions have different line numbers
		if r.Chance(1, 2) {
			return strings.ReplaceAll(s, " {", " {\n  ")
		}
		return s
	}
	// fragments before or after the operation
	fr := ""
	for _, f := range g.frags {
		fr += fmt.Sprintf("fragment %s on %s {%s}\n", f.name, f.cond, f.body)
	}
	// several operations in one document, one of them selected by Request.OperationName
	before, after := "", ""
	if r.Chance(1, 4) {
		kw := out.kw
		head = kw + " Main" + strings.TrimPrefix(head, kw)
		extras := []string{"query X1 {__typename}", "query X2 {zt: __typename}"}
		if s.mutation != "" {
			extras = append(extras, "mutation X3 {__typename}")
		}
		if hostile {
			// validation refuses these: a second operation of the same name, an anonymous one among others
			extras = append(extras, kw+" Main {__typename}", "{__typename}", "query X1 {zz: __typename}")
		}
		var names []string
		for i, n := 0, r.Range(1, 3); i < n; i++ {
			x := rng.Pick(r, extras)
			if !hostile && (strings.Contains(before, x) || strings.Contains(after, x)) {
				continue
			}
			if f := strings.Fields(x); len(f) > 1 && f[1] != "Main" && !strings.HasPrefix(f[1], "{") {
				names = append(names, f[1])
			}
			if r.Bool() {
				before += x + "\n"
			} else {
				after += x + "\n"
			}
		}
		switch y := r.Intn(10); {
		case y < 6:
			out.opName = "Main"
		case y == 6:
			out.opName = "" // several operations and no name: refused
		case y == 7:
			out.opName = "Nope"
		default:
			if len(names) > 0 {
				out.opName = rng.Pick(r, names)
				out.env = map[string]*bool{}
			} else {
				out.opName = "Main"
			}
		}
	}
	op := before + head + " {" + body + "}\n" + after
	if r.Bool() {
		sb.WriteString(layout(fr) + layout(op))
	} else {
		sb.WriteString(layout(op) + layout(fr))
	}
	out.text = sb.String()
	return out
}
