// Selection-set documents: several selections per selection set, aliases, inline fragments with and
// without a type condition, named fragments (spread once or several times).  Every selection and
// every fragment definition sits on its own source line, so that a validation error identifies its
// node; the structure crosses to the model, which predicts the error lines, the resolver call log
// and the shape of the response data.
//
// The generator stays inside what FeaturesDocModel.v transcribes: response keys are pairwise
// distinct (no field merging), no arguments, variables or directives, fragments are defined, used
// and acyclic.  Like the other generators it ignores gating on purpose.
package main

import (
	"fmt"
	"strings"

	"verifharness/internal/rng"
	"verifharness/internal/sexp"
)

type snode struct {
	kind    byte // 'f' field, 't' __typename, 'i' inline fragment, 's' spread
	id      int
	key     string
	name    string // field name / fragment name
	tc      string // inline: type condition ("" = none)
	missing bool   // a field name the parent type does not have
	sub     []*snode
}

type sfrag struct {
	name string
	id   int
	tc   string
	sels []*snode
}

type sdocument struct {
	frags []*sfrag
	sels  []*snode
	text  string
	tkeys map[string]bool
	head  string // what precedes the operation's selection set ("" for a query, "subscription")
}

type sdocGen struct {
	r     *rng.R
	d     *desc
	n     int
	frags []*sfrag // completed definitions only: a body can never spread a fragment that is still open
	tidy  bool     // avoid the edits that make a document invalid whatever the feature set is
}

func (g *sdocGen) fresh(p string) string { g.n++; return fmt.Sprintf("%s%d", p, g.n) }

func (g *sdocGen) typename() *snode { return &snode{kind: 't', key: g.fresh("k")} }

func (g *sdocGen) selset(parent string, depth int) []*snode {
	pt := g.d.typ(parent)
	if pt == nil || !isComposite(pt.Kind) || depth >= 4 {
		return []*snode{g.typename()}
	}
	var out []*snode
	for i, n := 0, g.r.Range(1, 3); i < n; i++ {
		x := g.r.Intn(24)
		switch {
		case pt.Kind != "union" && x < 11:
			if !g.tidy && g.r.Chance(1, 15) {
				out = append(out, &snode{kind: 'f', key: g.fresh("k"), name: missingField(g.r, pt), missing: true})
				continue
			}
			f := rng.Pick(g.r, pt.Fields)
			if g.r.Chance(1, 3) { // prefer fields of an abstract type: object type resolution
				var abs []fieldDesc
				for _, c := range pt.Fields {
					if k := g.d.kindOf(c.Type.Name); k == "interface" || k == "union" {
						abs = append(abs, c)
					}
				}
				if len(abs) > 0 {
					f = rng.Pick(g.r, abs)
				}
			}
			nd := &snode{kind: 'f', key: g.fresh("k"), name: f.Name}
			comp := isComposite(g.d.kindOf(f.Type.Name))
			if !g.tidy && g.r.Chance(1, 40) {
				comp = !comp // a leaf with a subselection / a composite without one
			}
			if comp {
				nd.sub = g.selset(f.Type.Name, depth+1)
			}
			out = append(out, nd)
		case x < 13:
			out = append(out, g.typename())
		case x < 17:
			t := g.fragmentType(parent)
			out = append(out, &snode{kind: 'i', tc: t, sub: g.selset(t, depth+1)})
		case x < 19:
			out = append(out, &snode{kind: 'i', sub: g.selset(parent, depth+1)})
		default:
			if len(g.frags) > 0 && g.r.Chance(1, 3) { // spread an existing fragment again
				out = append(out, &snode{kind: 's', name: rng.Pick(g.r, g.frags).name})
				continue
			}
			t := g.fragmentType(parent)
			name := g.fresh("F")
			body := g.selset(t, depth+1)
			g.frags = append(g.frags, &sfrag{name: name, tc: t, sels: body})
			out = append(out, &snode{kind: 's', name: name})
			if g.r.Chance(1, 4) { // twice in the same selection set: visitedFragments
				out = append(out, &snode{kind: 's', name: name})
			}
		}
	}
	// equal response keys: a field of this selection set selected once more under the same key, in
	// the same scope and without arguments (the merging rule lets that pass): a leaf is resolved
	// once, the selection sets of a composite field are merged
	if g.r.Chance(1, 4) {
		var fields []*snode
		for _, n := range out {
			if n.kind == 'f' && !n.missing {
				fields = append(fields, n)
			}
		}
		if len(fields) > 0 {
			orig := rng.Pick(g.r, fields)
			dup := &snode{kind: 'f', key: orig.key, name: orig.name}
			if len(orig.sub) > 0 {
				var ft string
				for _, f := range pt.Fields {
					if f.Name == orig.name {
						ft = f.Type.Name
					}
				}
				dup.sub = g.selset(ft, depth+1)
			}
			if g.r.Chance(1, 3) {
				out = append(out, &snode{kind: 'i', sub: []*snode{dup}})
			} else {
				out = append(out, dup)
			}
		}
	}
	return out
}

func (g *sdocGen) fragmentType(parent string) string {
	if g.tidy {
		return rng.Pick(g.r, g.d.related(parent))
	}
	return pickFragmentType(g.r, g.d, parent)
}

func genSdoc(r *rng.R, d *desc) *sdocument {
	g := &sdocGen{r: r, d: d, tidy: r.Chance(3, 5)}
	doc := &sdocument{sels: g.selset(d.Query, 0), tkeys: map[string]bool{}}
	doc.frags = g.frags
	doc.render()
	return doc
}

func (doc *sdocument) render() {
	var b strings.Builder
	line := 0
	emit := func(s string) int { line++; b.WriteString(s + "\n"); return line }
	var sels func(ns []*snode)
	sels = func(ns []*snode) {
		for _, n := range ns {
			switch n.kind {
			case 't':
				doc.tkeys[n.key] = true
				n.id = emit(n.key + ": __typename")
			case 'f':
				if len(n.sub) == 0 {
					n.id = emit(n.key + ": " + n.name)
				} else {
					n.id = emit(n.key + ": " + n.name + " {")
					sels(n.sub)
					emit("}")
				}
			case 'i':
				if n.tc == "" {
					n.id = emit("... {")
				} else {
					n.id = emit("... on " + n.tc + " {")
				}
				sels(n.sub)
				emit("}")
			case 's':
				n.id = emit("..." + n.name)
			}
		}
	}
	if doc.head != "" {
		emit(doc.head + " {")
	} else {
		emit("{")
	}
	sels(doc.sels)
	emit("}")
	for _, f := range doc.frags {
		f.id = emit("fragment " + f.name + " on " + f.tc + " {")
		sels(f.sels)
		emit("}")
	}
	doc.text = b.String()
}

func selsSexp(ns []*snode) sexp.Node {
	out := make([]sexp.Node, len(ns))
	for i, n := range ns {
		switch n.kind {
		case 't':
			out[i] = sexp.T("typename", sexp.Int(n.id), sexp.Str(n.key))
		case 'f':
			out[i] = sexp.T("field", sexp.Int(n.id), sexp.Str(n.key), sexp.Str(n.name), selsSexp(n.sub))
		case 'i':
			tc := sexp.None()
			if n.tc != "" {
				tc = sexp.Some(sexp.Str(n.tc))
			}
			out[i] = sexp.T("inline", sexp.Int(n.id), tc, selsSexp(n.sub))
		case 's':
			out[i] = sexp.T("spread", sexp.Int(n.id), sexp.Str(n.name))
		}
	}
	return sexp.L(out...)
}

func (doc *sdocument) sexp() sexp.Node {
	fs := make([]sexp.Node, len(doc.frags))
	for i, f := range doc.frags {
		fs[i] = sexp.T("frag", sexp.Str(f.name), sexp.Int(f.id), sexp.Str(f.tc), selsSexp(f.sels))
	}
	return sexp.T("doc", sexp.T("frags", fs...), sexp.T("sels", selsSexp(doc.sels).List...))
}

// the shape of the response data: objects with their keys in response order, lists, null, the
// string under a __typename key; every other scalar is a leaf
func treeSexp(v jv, tkeys map[string]bool, key string) sexp.Node {
	switch v.kind {
	case 'o':
		items := make([]sexp.Node, len(v.keys))
		for i := range v.keys {
			items[i] = sexp.L(sexp.Str(v.keys[i]), treeSexp(v.vals[i], tkeys, v.keys[i]))
		}
		return sexp.T("obj", items...)
	case 'a':
		items := make([]sexp.Node, len(v.vals))
		for i := range v.vals {
			items[i] = treeSexp(v.vals[i], tkeys, key)
		}
		return sexp.T("list", items...)
	case 'z':
		return sexp.Sym("null")
	case 's':
		if tkeys[key] {
			return sexp.T("typename", sexp.Str(v.text))
		}
	}
	return sexp.Sym("leaf")
}

func (o *observation) tree(tkeys map[string]bool) sexp.Node {
	if o.data == nil {
		return sexp.T("tree", sexp.Sym("no-data"))
	}
	return sexp.T("tree", treeSexp(*o.data, tkeys, ""))
}

// hand-written subscriptions over the apifu schema with subscriptions (apifu.go): the two fields
// tick (ungated) and betaTick (gated by fa), with fragments
func subscriptionDocs() []*sdocument {
	fld := func(key, name string, sub ...*snode) *snode { return &snode{kind: 'f', key: key, name: name, sub: sub} }
	tn := func(key string) *snode { return &snode{kind: 't', key: key} }
	inl := func(tc string, sub ...*snode) *snode { return &snode{kind: 'i', tc: tc, sub: sub} }
	spr := func(name string) *snode { return &snode{kind: 's', name: name} }
	docs := []*sdocument{
		{sels: []*snode{fld("a", "tick", fld("b", "id"), fld("c", "n"))}},
		{sels: []*snode{fld("a", "betaTick", fld("b", "id"))}},
		{sels: []*snode{fld("a", "tick", tn("t"), inl("Thing", fld("b", "n")), inl("Node", fld("c", "id")))}},
		{sels: []*snode{fld("a", "betaTick", spr("T"))}, frags: []*sfrag{{name: "T", tc: "Thing", sels: []*snode{fld("b", "id"), fld("c", "n")}}}},
		{sels: []*snode{inl("Subscription", fld("a", "betaTick", fld("b", "n")))}},
	}
	for _, d := range docs {
		d.head = "subscription"
		d.tkeys = map[string]bool{}
		d.render()
	}
	return docs
}
