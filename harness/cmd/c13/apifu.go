// The apifu route: a schema assembled by apifu.Config with a query field and an apifu.Connection
// gated by feature "fa", served through API.ServeGraphQL with Config.Features reading the request's
// feature set from the request context (api.go:236-238).  Side b is the Config a developer would
// write without the gated field and connection.
package main

import (
	"bytes"
	"context"
	"crypto/sha256"
	"encoding/hex"
	"encoding/json"
	"net/http"
	"net/http/httptest"
	"reflect"
	"sync"

	apifu "github.com/ccbrown/api-fu"
	"github.com/ccbrown/api-fu/graphql"
)

type thing struct {
	id string
	n  int
}

type featKey struct{}

// what Config.Features would answer at this moment (the "environment" of a connection: it can
// change while the connection lives)
type featBox struct {
	mu  sync.Mutex
	now graphql.FeatureSet
}

func (b *featBox) get() graphql.FeatureSet {
	b.mu.Lock()
	defer b.mu.Unlock()
	return b.now
}

func (b *featBox) set(f graphql.FeatureSet) {
	b.mu.Lock()
	b.now = f
	b.mu.Unlock()
}

type memStorage struct {
	mu sync.Mutex
	m  map[string]string
}

func (s *memStorage) GetPersistedQuery(ctx context.Context, hash []byte) string {
	s.mu.Lock()
	defer s.mu.Unlock()
	return s.m[string(hash)]
}

func (s *memStorage) PersistQuery(ctx context.Context, query string, hash []byte) {
	s.mu.Lock()
	defer s.mu.Unlock()
	s.m[string(hash)] = query
}

// the description of what apifuAPI(true, _) builds, written by hand; the check compares it with the
// real schema's introspection answers like any other description
func apifuDesc(subs bool) *desc {
	nn := func(n string) tref { return tref{n, "N"} }
	d := &desc{Query: "Query", Directives: stdDirectives()}
	for _, s := range []string{"ID", "Int", "String", "Boolean"} {
		d.Types = append(d.Types, typeDesc{Kind: "scalar", Name: s})
	}
	fa := []string{"fa"}
	d.Types = append(d.Types,
		typeDesc{Kind: "interface", Name: "Node", Fields: []fieldDesc{{Name: "id", Type: nn("ID")}}},
		typeDesc{Kind: "object", Name: "Thing", Ifaces: []string{"Node"}, Fields: []fieldDesc{{Name: "id", Type: nn("ID")}, f("n", "Int")}},
		typeDesc{Kind: "object", Name: "PageInfo", Fields: []fieldDesc{
			{Name: "hasPreviousPage", Type: nn("Boolean")}, {Name: "hasNextPage", Type: nn("Boolean")},
			{Name: "startCursor", Type: nn("String")}, {Name: "endCursor", Type: nn("String")}}},
		typeDesc{Kind: "object", Name: "QueryThingsEdge", Req: fa, Fields: []fieldDesc{
			{Name: "cursor", Type: nn("String")}, {Name: "node", Type: nn("Thing"), Ret: "Thing"}}},
		typeDesc{Kind: "object", Name: "QueryThingsConnection", Req: fa, Fields: []fieldDesc{
			{Name: "edges", Type: tref{"QueryThingsEdge", "NLN"}, Ret: "QueryThingsEdge"},
			{Name: "pageInfo", Type: nn("PageInfo"), Ret: "PageInfo"}, {Name: "totalCount", Type: nn("Int")}}},
		typeDesc{Kind: "object", Name: "Query", Fields: []fieldDesc{
			{Name: "node", Type: tref{"Node", ""}, Args: []argDesc{{"id", nn("ID")}}, Ret: "Thing"},
			{Name: "nodes", Type: tref{"Node", "L"}, Args: []argDesc{{"ids", tref{"ID", "NLN"}}}, Ret: "Thing"},
			f("ping", "Int"),
			{Name: "beta", Type: tref{"Int", ""}, Req: fa},
			{Name: "things", Type: tref{"QueryThingsConnection", ""}, Req: fa, Ret: "QueryThingsConnection",
				Args: []argDesc{{"first", tref{"Int", ""}}, {"after", tref{"String", ""}}, {"last", tref{"Int", ""}}, {"before", tref{"String", ""}}}},
		}},
	)
	d.Additional = []string{"Thing"}
	if subs {
		d.Subscription = "Subscription"
		d.Types = append(d.Types, typeDesc{Kind: "object", Name: "Subscription", Fields: []fieldDesc{
			{Name: "tick", Type: tref{"Thing", ""}, Ret: "Thing"},
			{Name: "betaTick", Type: tref{"Thing", ""}, Req: fa, Ret: "Thing"}}})
	}
	return d
}

func apifuAPI(gated, registerPageInfo, subs bool, log *calls) (*apifu.API, error) {
	logged := func(key string, v func(graphql.FieldContext) interface{}) func(graphql.FieldContext) (interface{}, error) {
		return func(ctx graphql.FieldContext) (interface{}, error) {
			log.add(key)
			return v(ctx), nil
		}
	}
	things := []*thing{{"t1", 1}, {"t2", 2}, {"t3", 3}}
	cfg := &apifu.Config{
		PersistedQueryStorage: &memStorage{m: map[string]string{}},
		Features: func(ctx context.Context) graphql.FeatureSet {
			if box, ok := ctx.Value(featKey{}).(*featBox); ok {
				return box.get() // whatever the environment says NOW
			}
			fs, _ := ctx.Value(featKey{}).(graphql.FeatureSet)
			return fs
		},
		ResolveNodesByGlobalIds: func(ctx context.Context, ids []string) ([]interface{}, error) {
			var out []interface{}
			for _, id := range ids {
				for _, t := range things {
					if t.id == id {
						out = append(out, t)
					}
				}
			}
			return out, nil
		},
	}
	thingType := &graphql.ObjectType{
		Name:                  "Thing",
		ImplementedInterfaces: []*graphql.InterfaceType{cfg.NodeInterface()},
		IsTypeOf:              func(v interface{}) bool { _, ok := v.(*thing); return ok },
	}
	thingType.Fields = map[string]*graphql.FieldDefinition{
		"id": {Type: graphql.NewNonNullType(graphql.IDType), Resolve: logged("Thing.id", func(ctx graphql.FieldContext) interface{} { return ctx.Object.(*thing).id })},
		"n":  {Type: graphql.IntType, Resolve: logged("Thing.n", func(ctx graphql.FieldContext) interface{} { return ctx.Object.(*thing).n })},
	}
	cfg.AddNamedType(thingType)
	cfg.AddQueryField("ping", &graphql.FieldDefinition{Type: graphql.IntType, Resolve: logged("Query.ping", func(graphql.FieldContext) interface{} { return 7 })})
	if gated {
		fa := graphql.NewFeatureSet("fa")
		cfg.AddQueryField("beta", &graphql.FieldDefinition{Type: graphql.IntType, RequiredFeatures: fa,
			Resolve: logged("Query.beta", func(graphql.FieldContext) interface{} { return 8 })})
		cfg.AddQueryField("things", apifu.Connection(&apifu.ConnectionConfig{
			NamePrefix:       "QueryThings",
			RequiredFeatures: fa,
			CursorType:       reflect.TypeOf(""),
			EdgeCursor:       func(e interface{}) interface{} { return e.(*thing).id },
			EdgeFields: map[string]*graphql.FieldDefinition{
				"node": {Type: graphql.NewNonNullType(thingType), Resolve: logged("QueryThingsEdge.node", func(ctx graphql.FieldContext) interface{} { return ctx.Object })},
			},
			ResolveAllEdges: func(ctx graphql.FieldContext) (interface{}, func(a, b interface{}) bool, error) {
				log.add("Query.things")
				return things, func(a, b interface{}) bool { return a.(string) < b.(string) }, nil
			},
		}))
	}
	if registerPageInfo {
		cfg.AddNamedType(apifu.PageInfoType)
	}
	if subs {
		// a source stream of two events, then the end of the stream
		sub := func(key string) *graphql.FieldDefinition {
			return &graphql.FieldDefinition{Type: thingType, Resolve: func(ctx graphql.FieldContext) (interface{}, error) {
				log.add(key)
				if ctx.IsSubscribe {
					ch := make(chan *thing, 2)
					ch <- things[0]
					ch <- things[1]
					close(ch)
					return &apifu.SubscriptionSourceStream{EventChannel: ch, Stop: func() {}}, nil
				}
				return ctx.Object, nil
			}}
		}
		cfg.AddSubscription("tick", sub("Subscription.tick"))
		if gated {
			def := sub("Subscription.betaTick")
			def.RequiredFeatures = graphql.NewFeatureSet("fa")
			cfg.AddSubscription("betaTick", def)
		}
	}
	return apifu.NewAPI(cfg)
}

// runHTTP serves one request through API.ServeGraphQL; the verdict is read off the response (no
// data member = refused before execution).
func (s *side) post(payload map[string]interface{}, features graphql.FeatureSet) *httptest.ResponseRecorder {
	body, _ := json.Marshal(payload)
	ctx := context.WithValue(context.Background(), featKey{}, features)
	r := httptest.NewRequest("POST", "/graphql", bytes.NewReader(body)).WithContext(ctx)
	r.Header.Set("Content-Type", "application/json")
	w := httptest.NewRecorder()
	s.api.ServeGraphQL(w, r)
	return w
}

func (s *side) runHTTP(query string, vars map[string]interface{}) *observation {
	o := &observation{}
	payload := map[string]interface{}{"query": query, "variables": vars}
	if s.persisted {
		sum := sha256.Sum256([]byte(query))
		ext := map[string]interface{}{"persistedQuery": map[string]interface{}{"version": 1, "sha256Hash": hex.EncodeToString(sum[:])}}
		// registered by a request that may see everything ...
		s.post(map[string]interface{}{"query": query, "variables": vars, "extensions": ext}, graphql.NewFeatureSet(alphabet...))
		// ... replayed by hash alone with this side's features
		payload = map[string]interface{}{"variables": vars, "extensions": ext}
	}
	s.log.take()
	w := s.post(payload, s.features)
	o.calls = s.log.take()
	if w.Code != http.StatusOK {
		panic("ServeGraphQL answered " + w.Result().Status)
	}
	o.readResponse(w.Body.Bytes())
	if o.data == nil {
		if es, ok := o.raw.get("errors"); ok {
			for _, e := range es.vals {
				o.verrs = append(o.verrs, errLocs(e))
			}
		}
	}
	return o
}

// over a WebSocket connection with subscriptions
var apifuSubscriptionDocs = []string{
	`subscription { tick { id n } }`,
	`subscription { betaTick { id } }`,
	`subscription { tick { __typename ... on Thing { n } ... on Node { id } } }`,
	`subscription S { betaTick { ...T } } fragment T on Thing { id n }`,
}

var apifuDocs = []string{
	`{ ping }`,
	`{ beta }`,
	`{ ping ... on Query { beta } }`,
	`{ things(first: 2) { edges { cursor node { id n } } pageInfo { hasNextPage hasPreviousPage } totalCount } }`,
	`query($n: Int) { things(first: $n) { totalCount } }`,
	`{ node(id: "t2") { id ... on Thing { n } } nodes(ids: ["t1", "t3"]) { id } }`,
	`{ things(last: 1) { ...C } } fragment C on QueryThingsConnection { edges { ...E } } fragment E on QueryThingsEdge { node { n } }`,
	`{ __type(name: "QueryThingsConnection") { name fields { name } } e: __type(name: "QueryThingsEdge") { name } p: __type(name: "PageInfo") { name fields { name } } }`,
	`{ __schema { types { name } } }`,
	`{ __type(name: "Query") { fields { name args { name } type { name kind } } } }`,
}
