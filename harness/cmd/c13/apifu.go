// The apifu route: a schema assembled by apifu.Config with a query field and an apifu.Connection
// gated by feature "fa", served through API.ServeGraphQL with Config.Features reading the request's
// feature set from the request context (api.go:236-238).  Side b is the Config a developer would
// write without the gated field and connection.
package main

import (
	"bytes"
	"context"
	"crypto/sha256"
	"encoding/hex"
	"encoding/json"
	"net/http"
	"net/http/httptest"
	"reflect"
	"sync"
	"time"

	apifu "github.com/ccbrown/api-fu"
	"github.com/ccbrown/api-fu/graphql"
)

type thing struct {
	id string
	n  int
	N  int // read by the helper apifu.NonNull through reflection
	at time.Time
}

// the features a connection_init payload granted (stored by Config.HandleGraphQLWSInit)
type initFeatKey struct{}

type featKey struct{}

// what Config.Features would answer at this moment (the "environment" of a connection: it can
// change while the connection lives)
type featBox struct {
	mu  sync.Mutex
	now graphql.FeatureSet
}

func (b *featBox) get() graphql.FeatureSet {
	b.mu.Lock()
	defer b.mu.Unlock()
	return b.now
}

func (b *featBox) set(f graphql.FeatureSet) {
	b.mu.Lock()
	b.now = f
	b.mu.Unlock()
}

type memStorage struct {
	mu sync.Mutex
	m  map[string]string
}

func (s *memStorage) GetPersistedQuery(ctx context.Context, hash []byte) string {
	s.mu.Lock()
	defer s.mu.Unlock()
	return s.m[string(hash)]
}

func (s *memStorage) PersistQuery(ctx context.Context, query string, hash []byte) {
	s.mu.Lock()
	defer s.mu.Unlock()
	s.m[string(hash)] = query
}

// the description of what apifuAPI(true, _) builds, written by hand; the check compares it with the
// real schema's introspection answers like any other description
func apifuDesc(subs bool) *desc {
	nn := func(n string) tref { return tref{n, "N"} }
	d := &desc{Query: "Query", Mutation: "Mutation", Directives: stdDirectives()}
	for _, s := range []string{"ID", "Int", "String", "Boolean", "DateTime"} {
		d.Types = append(d.Types, typeDesc{Kind: "scalar", Name: s})
	}
	fa, fb := []string{"fa"}, []string{"fb"}
	paging := []argDesc{{"first", tref{"Int", ""}}, {"after", tref{"String", ""}}, {"last", tref{"Int", ""}}, {"before", tref{"String", ""}}}
	timed := append(append([]argDesc(nil), paging...), argDesc{"atOrAfterTime", tref{"DateTime", ""}}, argDesc{"beforeTime", tref{"DateTime", ""}})
	edge := func(prefix string, req []string, extra fieldDesc) typeDesc {
		return typeDesc{Kind: "object", Name: prefix + "Edge", Req: req, Fields: []fieldDesc{
			{Name: "cursor", Type: nn("String")}, {Name: "node", Type: nn("Thing"), Ret: "Thing"}, extra}}
	}
	conn := func(prefix string, req []string, total bool) typeDesc {
		t := typeDesc{Kind: "object", Name: prefix + "Connection", Req: req, Fields: []fieldDesc{
			{Name: "edges", Type: tref{prefix + "Edge", "NLN"}, Ret: prefix + "Edge"},
			{Name: "pageInfo", Type: nn("PageInfo"), Ret: "PageInfo"}}}
		if total {
			t.Fields = append(t.Fields, fieldDesc{Name: "totalCount", Type: nn("Int")})
		}
		return t
	}
	d.Types = append(d.Types,
		// Config.AdditionalNodeFields: a gated field of the Node interface
		typeDesc{Kind: "interface", Name: "Node", Fields: []fieldDesc{{Name: "id", Type: nn("ID")}, {Name: "betaId", Type: tref{"ID", ""}, Req: fa}}},
		// Thing.nn is built by the helper apifu.NonNull and gated afterwards
		typeDesc{Kind: "object", Name: "Thing", Ifaces: []string{"Node"}, Fields: []fieldDesc{
			{Name: "id", Type: nn("ID")}, f("n", "Int"), {Name: "betaId", Type: tref{"ID", ""}, Req: fa}, {Name: "nn", Type: nn("Int"), Req: fb}}},
		typeDesc{Kind: "object", Name: "PageInfo", Fields: []fieldDesc{
			{Name: "hasPreviousPage", Type: nn("Boolean")}, {Name: "hasNextPage", Type: nn("Boolean")},
			{Name: "startCursor", Type: nn("String")}, {Name: "endCursor", Type: nn("String")}}},
		// apifu.Connection gated as a whole (fa), with an edge field gated by another feature (fb)
		edge("QueryThings", fa, fieldDesc{Name: "weight", Type: tref{"Int", ""}, Req: fb}), conn("QueryThings", fa, true),
		// apifu.Connection that is NOT gated, with a gated edge field (EdgeFields are copied by Connection)
		edge("QueryItems", nil, fieldDesc{Name: "secret", Type: tref{"Int", ""}, Req: fa}), conn("QueryItems", nil, true),
		// apifu.TimeBasedConnection gated as a whole (fb), with an edge field gated by fa
		edge("QueryEvents", fb, fieldDesc{Name: "extra", Type: tref{"Int", ""}, Req: fa}), conn("QueryEvents", fb, false),
		typeDesc{Kind: "object", Name: "Query", Fields: []fieldDesc{
			{Name: "node", Type: tref{"Node", ""}, Args: []argDesc{{"id", nn("ID")}}, Ret: "Thing"},
			{Name: "nodes", Type: tref{"Node", "L"}, Args: []argDesc{{"ids", tref{"ID", "NLN"}}}, Ret: "Thing"},
			f("ping", "Int"),
			{Name: "beta", Type: tref{"Int", ""}, Req: fa},
			{Name: "things", Type: tref{"QueryThingsConnection", ""}, Req: fa, Ret: "QueryThingsConnection", Args: paging},
			{Name: "items", Type: tref{"QueryItemsConnection", ""}, Ret: "QueryItemsConnection", Args: paging},
			{Name: "events", Type: tref{"QueryEventsConnection", ""}, Req: fb, Ret: "QueryEventsConnection", Args: timed},
		}},
		// Config.AddMutation
		typeDesc{Kind: "object", Name: "Mutation", Fields: []fieldDesc{f("bump", "Int"), {Name: "betaBump", Type: tref{"Int", ""}, Req: fa}}},
	)
	d.Additional = []string{"Thing"}
	if subs {
		d.Subscription = "Subscription"
		d.Types = append(d.Types, typeDesc{Kind: "object", Name: "Subscription", Fields: []fieldDesc{
			{Name: "tick", Type: tref{"Thing", ""}, Ret: "Thing"},
			{Name: "betaTick", Type: tref{"Thing", ""}, Req: fa, Ret: "Thing"}}})
	}
	return d
}

// has(req...) says whether an element with these required features is part of the Config: side a
// has everything; side b and side c are the Config a developer would write for a request feature
// set F, without the elements F does not cover.  registerOrphans: list PageInfo and DateTime in
// AdditionalTypes (side b: every surviving type registered).
func apifuAPI(has func(req ...string) bool, registerOrphans, subs bool, log *calls) (*apifu.API, error) {
	logged := func(key string, v func(graphql.FieldContext) interface{}) func(graphql.FieldContext) (interface{}, error) {
		return func(ctx graphql.FieldContext) (interface{}, error) {
			log.add(key)
			return v(ctx), nil
		}
	}
	fs := func(req ...string) graphql.FeatureSet {
		if len(req) == 0 {
			return nil
		}
		return graphql.NewFeatureSet(req...)
	}
	t0 := time.Unix(1700000000, 0)
	things := []*thing{{"t1", 1, 1, t0}, {"t2", 2, 2, t0.Add(time.Second)}, {"t3", 3, 3, t0.Add(2 * time.Second)}}
	cfg := &apifu.Config{
		PersistedQueryStorage: &memStorage{m: map[string]string{}},
		// the features granted by the connection_init payload, if any, else what the environment says
		HandleGraphQLWSInit: func(ctx context.Context, parameters json.RawMessage) (context.Context, error) {
			var p struct {
				Features *[]string `json:"features"`
			}
			if json.Unmarshal(parameters, &p) == nil && p.Features != nil {
				return context.WithValue(ctx, initFeatKey{}, graphql.NewFeatureSet(*p.Features...)), nil
			}
			return ctx, nil
		},
		Features: func(ctx context.Context) graphql.FeatureSet {
			if f, ok := ctx.Value(initFeatKey{}).(graphql.FeatureSet); ok {
				return f
			}
			if box, ok := ctx.Value(featKey{}).(*featBox); ok {
				return box.get() // whatever the environment says NOW
			}
			f, _ := ctx.Value(featKey{}).(graphql.FeatureSet)
			return f
		},
		ResolveNodesByGlobalIds: func(ctx context.Context, ids []string) ([]interface{}, error) {
			var out []interface{}
			for _, id := range ids {
				for _, t := range things {
					if t.id == id {
						out = append(out, t)
					}
				}
			}
			return out, nil
		},
	}
	if has("fa") {
		cfg.AdditionalNodeFields = map[string]*graphql.FieldDefinition{"betaId": {Type: graphql.IDType, RequiredFeatures: fs("fa")}}
	}
	thingType := &graphql.ObjectType{
		Name:                  "Thing",
		ImplementedInterfaces: []*graphql.InterfaceType{cfg.NodeInterface()},
		IsTypeOf:              func(v interface{}) bool { _, ok := v.(*thing); return ok },
	}
	thingType.Fields = map[string]*graphql.FieldDefinition{
		"id": {Type: graphql.NewNonNullType(graphql.IDType), Resolve: logged("Thing.id", func(ctx graphql.FieldContext) interface{} { return ctx.Object.(*thing).id })},
		"n":  {Type: graphql.IntType, Resolve: logged("Thing.n", func(ctx graphql.FieldContext) interface{} { return ctx.Object.(*thing).n })},
	}
	if has("fa") {
		thingType.Fields["betaId"] = &graphql.FieldDefinition{Type: graphql.IDType, RequiredFeatures: fs("fa"),
			Resolve: logged("Thing.betaId", func(ctx graphql.FieldContext) interface{} { return "b-" + ctx.Object.(*thing).id })}
	}
	if has("fb") {
		def := apifu.NonNull(graphql.IntType, "N") // the helper builds the definition; the gate is added to it
		def.RequiredFeatures = fs("fb")
		inner := def.Resolve
		def.Resolve = func(ctx graphql.FieldContext) (interface{}, error) { log.add("Thing.nn"); return inner(ctx) }
		thingType.Fields["nn"] = def
	}
	cfg.AddNamedType(thingType)
	cfg.AddQueryField("ping", &graphql.FieldDefinition{Type: graphql.IntType, Resolve: logged("Query.ping", func(graphql.FieldContext) interface{} { return 7 })})
	cfg.AddMutation("bump", &graphql.FieldDefinition{Type: graphql.IntType, Resolve: logged("Mutation.bump", func(graphql.FieldContext) interface{} { return 1 })})
	if has("fa") {
		cfg.AddQueryField("beta", &graphql.FieldDefinition{Type: graphql.IntType, RequiredFeatures: fs("fa"),
			Resolve: logged("Query.beta", func(graphql.FieldContext) interface{} { return 8 })})
		cfg.AddMutation("betaBump", &graphql.FieldDefinition{Type: graphql.IntType, RequiredFeatures: fs("fa"),
			Resolve: logged("Mutation.betaBump", func(graphql.FieldContext) interface{} { return 2 })})
	}
	// edge fields: node, and one more that is gated (when the Config has it at all)
	edgeFields := func(prefix, extra string, req ...string) map[string]*graphql.FieldDefinition {
		m := map[string]*graphql.FieldDefinition{
			"node": {Type: graphql.NewNonNullType(thingType), Resolve: logged(prefix+"Edge.node", func(ctx graphql.FieldContext) interface{} { return ctx.Object })},
		}
		if has(req...) {
			m[extra] = &graphql.FieldDefinition{Type: graphql.IntType, RequiredFeatures: fs(req...),
				Resolve: logged(prefix+"Edge."+extra, func(ctx graphql.FieldContext) interface{} { return ctx.Object.(*thing).n })}
		}
		return m
	}
	allEdges := func(key string) func(ctx graphql.FieldContext) (interface{}, func(a, b interface{}) bool, error) {
		return func(ctx graphql.FieldContext) (interface{}, func(a, b interface{}) bool, error) {
			log.add(key)
			return things, func(a, b interface{}) bool { return a.(string) < b.(string) }, nil
		}
	}
	if has("fa") {
		cfg.AddQueryField("things", apifu.Connection(&apifu.ConnectionConfig{
			NamePrefix:       "QueryThings",
			RequiredFeatures: fs("fa"),
			CursorType:       reflect.TypeOf(""),
			EdgeCursor:       func(e interface{}) interface{} { return e.(*thing).id },
			EdgeFields:       edgeFields("QueryThings", "weight", "fb"),
			ResolveAllEdges:  allEdges("Query.things"),
		}))
	}
	cfg.AddQueryField("items", apifu.Connection(&apifu.ConnectionConfig{
		NamePrefix:      "QueryItems",
		CursorType:      reflect.TypeOf(""),
		EdgeCursor:      func(e interface{}) interface{} { return e.(*thing).id },
		EdgeFields:      edgeFields("QueryItems", "secret", "fa"),
		ResolveAllEdges: allEdges("Query.items"),
	}))
	if has("fb") {
		cfg.AddQueryField("events", apifu.TimeBasedConnection(&apifu.TimeBasedConnectionConfig{
			NamePrefix:       "QueryEvents",
			RequiredFeatures: fs("fb"),
			EdgeCursor: func(e interface{}) apifu.TimeBasedCursor {
				return apifu.NewTimeBasedCursor(e.(*thing).at, e.(*thing).id)
			},
			EdgeFields: edgeFields("QueryEvents", "extra", "fa"),
			EdgeGetter: func(ctx graphql.FieldContext, minTime, maxTime time.Time, limit int) (interface{}, error) {
				log.add("Query.events")
				var out []*thing
				for _, t := range things {
					if !t.at.Before(minTime) && !t.at.After(maxTime) {
						out = append(out, t)
					}
				}
				return out, nil
			},
		}))
	}
	if registerOrphans {
		cfg.AddNamedType(apifu.PageInfoType)
		cfg.AddNamedType(apifu.DateTimeType)
	}
	if subs {
		// a source stream of two events, then the end of the stream
		sub := func(key string) *graphql.FieldDefinition {
			return &graphql.FieldDefinition{Type: thingType, Resolve: func(ctx graphql.FieldContext) (interface{}, error) {
				log.add(key)
				if ctx.IsSubscribe {
					ch := make(chan *thing, 2)
					ch <- things[0]
					ch <- things[1]
					close(ch)
					return &apifu.SubscriptionSourceStream{EventChannel: ch, Stop: func() {}}, nil
				}
				return ctx.Object, nil
			}}
		}
		cfg.AddSubscription("tick", sub("Subscription.tick"))
		if has("fa") {
			def := sub("Subscription.betaTick")
			def.RequiredFeatures = fs("fa")
			cfg.AddSubscription("betaTick", def)
		}
	}
	return apifu.NewAPI(cfg)
}

// runHTTP serves one request through API.ServeGraphQL; the verdict is read off the response (no
// data member = refused before execution).
func (s *side) post(payload map[string]interface{}, features graphql.FeatureSet) *httptest.ResponseRecorder {
	body, _ := json.Marshal(payload)
	ctx := context.WithValue(context.Background(), featKey{}, features)
	r := httptest.NewRequest("POST", "/graphql", bytes.NewReader(body)).WithContext(ctx)
	r.Header.Set("Content-Type", "application/json")
	w := httptest.NewRecorder()
	s.api.ServeGraphQL(w, r)
	return w
}

func (s *side) runHTTP(query string, vars map[string]interface{}) *observation {
	o := &observation{}
	payload := map[string]interface{}{"query": query, "variables": vars}
	if s.persisted {
		sum := sha256.Sum256([]byte(query))
		ext := map[string]interface{}{"persistedQuery": map[string]interface{}{"version": 1, "sha256Hash": hex.EncodeToString(sum[:])}}
		// registered by a request that may see everything ...
		s.post(map[string]interface{}{"query": query, "variables": vars, "extensions": ext}, graphql.NewFeatureSet(alphabet...))
		// ... replayed by hash alone with this side's features
		payload = map[string]interface{}{"variables": vars, "extensions": ext}
	}
	s.log.take()
	w := s.post(payload, s.features)
	o.calls = s.log.take()
	if w.Code != http.StatusOK {
		panic("ServeGraphQL answered " + w.Result().Status)
	}
	o.readResponse(w.Body.Bytes())
	if o.data == nil {
		if es, ok := o.raw.get("errors"); ok {
			for _, e := range es.vals {
				o.verrs = append(o.verrs, errLocs(e))
			}
		}
	}
	return o
}

// over a WebSocket connection with subscriptions
var apifuSubscriptionDocs = []string{
	`subscription { tick { id n } }`,
	`subscription { betaTick { id } }`,
	`subscription { tick { __typename ... on Thing { n } ... on Node { id } } }`,
	`subscription S { betaTick { ...T } } fragment T on Thing { id n }`,
}

var apifuDocs = []string{
	`{ ping }`,
	`{ beta }`,
	`{ ping ... on Query { beta } }`,
	`{ things(first: 2) { edges { cursor node { id n } } pageInfo { hasNextPage hasPreviousPage } totalCount } }`,
	`query($n: Int) { things(first: $n) { totalCount } }`,
	`{ node(id: "t2") { id ... on Thing { n } } nodes(ids: ["t1", "t3"]) { id } }`,
	`{ things(last: 1) { ...C } } fragment C on QueryThingsConnection { edges { ...E } } fragment E on QueryThingsEdge { node { n } }`,
	`{ __type(name: "QueryThingsConnection") { name fields { name } } e: __type(name: "QueryThingsEdge") { name } p: __type(name: "PageInfo") { name fields { name } } }`,
	`{ __schema { types { name } } }`,
	`{ __type(name: "Query") { fields { name args { name } type { name kind } } } }`,
	// gated edge fields of a connection that is not gated itself / gated by another feature
	`{ items(first: 2) { edges { cursor node { id } secret } totalCount } }`,
	`{ items(last: 1) { edges { node { n betaId nn } } pageInfo { hasPreviousPage } } }`,
	`{ things(first: 1) { edges { weight node { nn } } } }`,
	`{ events(first: 2) { edges { extra cursor node { id } } pageInfo { hasNextPage } } }`,
	`{ node(id: "t1") { id betaId ... on Thing { nn n } } }`,
	`{ i: __type(name: "QueryItemsEdge") { fields { name } } e: __type(name: "QueryEventsEdge") { fields { name } } n: __type(name: "Node") { fields { name } } }`,
	`mutation { bump }`,
	`mutation { betaBump }`,
	// names one or two edits away from a gated element's name, and from a visible one as control
	`{ bet }`,
	`{ betaa }`,
	`{ pin }`,
	`{ thing(first: 1) { totalCount } }`,
	`{ items(firs: 1) { totalCount } }`,
	`{ things(firs: 1) { totalCount } }`,
	`{ items(first: 1) { edges { secre nod { id } } } }`,
	`{ node(id: "t1") { betaI ... on Thin { n } ... on Thing { n nnn } } }`,
	`{ ... on Quer { ping } ... on QueryThingsEdg { cursor } }`,
	`mutation { betaBum }`,
	`query($x: QueryThingsEdg, $y: DateTim) { ping }`,
	`{ ping @includ(if: true) }`,
}
