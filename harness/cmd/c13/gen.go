// Random schema descriptions that satisfy the construction rules of schema.New by construction,
// and single-step mutations of them that mostly do not (the hostile stream).
package main

import (
	"fmt"

	"verifharness/internal/rng"
)

var alphabet = []string{"fa", "fb", "fc"}

func randReq(r *rng.R) []string {
	switch x := r.Intn(20); {
	case x < 11:
		return nil
	case x < 18:
		return []string{rng.Pick(r, alphabet)}
	default:
		a, b := rng.Pick(r, alphabet), rng.Pick(r, alphabet)
		return union([]string{a}, []string{b})
	}
}

func randSubset(r *rng.R, xs []string) []string {
	var out []string
	for _, x := range xs {
		if r.Bool() {
			out = append(out, x)
		}
	}
	return out
}

func minus(a, b []string) []string {
	var out []string
	for _, x := range a {
		if !subset([]string{x}, b) {
			out = append(out, x)
		}
	}
	return out
}

func randWrapOut(r *rng.R) string {
	return rng.Pick(r, []string{"", "", "", "N", "L", "NL", "LN", "NLN"})
}

func randWrapIn(r *rng.R) string {
	// arguments and input fields stay nullable at the top, so that omitting them is always allowed
	return rng.Pick(r, []string{"", "", "", "L", "LN"})
}

type genState struct {
	r *rng.R
	d *desc
}

func (g *genState) names(kinds ...string) []string {
	var out []string
	for _, t := range g.d.Types {
		for _, k := range kinds {
			if t.Kind == k {
				out = append(out, t.Name)
			}
		}
	}
	return out
}

func (g *genState) req(name string) []string { return g.d.typ(name).Req }

// pick a type name among cands, preferring those that need nothing beyond `have`
func (g *genState) pickType(cands []string, have []string) string {
	var cheap []string
	for _, c := range cands {
		if subset(g.req(c), have) {
			cheap = append(cheap, c)
		}
	}
	if len(cheap) > 0 && g.r.Chance(3, 5) {
		return rng.Pick(g.r, cheap)
	}
	return rng.Pick(g.r, cands)
}

func (g *genState) genArgs(ownerReq []string) []argDesc {
	n := rng.Pick(g.r, []int{0, 0, 0, 1, 1, 2})
	var out []argDesc
	for i := 0; i < n; i++ {
		t := g.pickType(g.names("scalar", "enum", "input"), ownerReq)
		out = append(out, argDesc{Name: fmt.Sprintf("a%d", i), Type: tref{t, randWrapIn(g.r)}})
	}
	return out
}

// a field of an object or interface type `owner` obeying: type and argument types need nothing
// beyond field ∪ owner requirements
func (g *genState) genField(owner *typeDesc, name string) fieldDesc {
	t := g.pickType(g.names("scalar", "scalar", "enum", "object", "object", "interface", "interface", "union"), owner.Req)
	f := fieldDesc{Name: name, Type: tref{t, randWrapOut(g.r)}, Args: g.genArgs(owner.Req), Dep: g.r.Chance(1, 7)}
	need := g.req(t)
	for _, a := range f.Args {
		need = union(need, g.req(a.Type.Name))
	}
	f.Req = union(randReq(g.r), minus(need, owner.Req))
	if g.r.Chance(1, 2) {
		f.Req = union(nil, minus(need, owner.Req)) // exactly what is needed: a field visible as often as possible
	}
	return f
}

func genDesc(r *rng.R) *desc {
	g := &genState{r: r, d: &desc{Query: "Query"}}
	d := g.d
	for _, s := range []string{"Int", "String", "Boolean", "ID", "Float"} {
		d.Types = append(d.Types, typeDesc{Kind: "scalar", Name: s})
	}
	if r.Chance(1, 2) {
		d.Types = append(d.Types, typeDesc{Kind: "scalar", Name: "Cs", Req: randReq(r)})
	}
	for i, n := 0, r.Range(1, 2); i < n; i++ {
		t := typeDesc{Kind: "enum", Name: fmt.Sprintf("E%d", i), Req: randReq(r)}
		for j, m := 0, r.Range(1, 3); j < m; j++ {
			t.Values = append(t.Values, enumVal{Name: fmt.Sprintf("V%d", j), Dep: j > 0 && r.Chance(1, 4)})
		}
		d.Types = append(d.Types, t)
	}
	for i, n := 0, r.Range(0, 2); i < n; i++ {
		t := typeDesc{Kind: "input", Name: fmt.Sprintf("In%d", i), Req: randReq(r)}
		var ok []string
		for _, c := range g.names("scalar", "enum", "input") {
			if subset(g.req(c), t.Req) {
				ok = append(ok, c)
			}
		}
		for j, m := 0, r.Range(1, 3); j < m; j++ {
			t.Inputs = append(t.Inputs, argDesc{Name: fmt.Sprintf("x%d", j), Type: tref{rng.Pick(r, ok), randWrapIn(r)}})
		}
		d.Types = append(d.Types, t)
	}
	// shells of the composite types first, so that fields can refer to any of them
	nI, nO, nU := r.Range(1, 3), r.Range(2, 5), r.Range(0, 2)
	for i := 0; i < nI; i++ {
		d.Types = append(d.Types, typeDesc{Kind: "interface", Name: fmt.Sprintf("I%d", i), Req: randReq(r)})
	}
	for i := 0; i < nO; i++ {
		d.Types = append(d.Types, typeDesc{Kind: "object", Name: fmt.Sprintf("O%d", i), Req: randReq(r)})
	}
	for i := 0; i < nU; i++ {
		t := typeDesc{Kind: "union", Name: fmt.Sprintf("U%d", i), Req: randReq(r)}
		for _, o := range g.names("object") {
			if subset(g.req(o), t.Req) && r.Chance(2, 3) {
				t.Members = append(t.Members, o)
			}
		}
		if len(t.Members) > 0 {
			d.Types = append(d.Types, t)
		}
	}
	d.Types = append(d.Types, typeDesc{Kind: "object", Name: "Query"})
	if r.Chance(1, 3) {
		d.Mutation = "Mutation"
		d.Types = append(d.Types, typeDesc{Kind: "object", Name: "Mutation", Fields: []fieldDesc{{Name: "m", Type: tref{"Int", ""}}}})
	}
	// interface fields
	for _, in := range g.names("interface") {
		t := d.typ(in)
		t.Fields = append(t.Fields, fieldDesc{Name: "id", Type: tref{"ID", ""}})
		for j, m := 0, r.Range(0, 2); j < m; j++ {
			t.Fields = append(t.Fields, g.genField(t, fmt.Sprintf("%s_f%d", lower(in), j)))
		}
	}
	// object fields and implementations
	for _, on := range g.names("object") {
		if on == "Query" || on == "Mutation" {
			continue
		}
		t := d.typ(on)
		t.Fields = append(t.Fields, fieldDesc{Name: "name", Type: tref{"String", ""}})
		for j, m := 0, r.Range(0, 3); j < m; j++ {
			t.Fields = append(t.Fields, g.genField(t, fmt.Sprintf("f%d", j)))
		}
		for _, in := range g.names("interface") {
			if !r.Chance(1, 2) {
				continue
			}
			it := d.typ(in)
			var add []fieldDesc
			ok := true
			for _, ifd := range it.Fields {
				if t.field(ifd.Name) != nil {
					continue // "id", shared by all interfaces with one definition
				}
				f := ifd
				need := g.req(f.Type.Name)
				for _, a := range f.Args {
					need = union(need, g.req(a.Type.Name))
				}
				f.Req = union(randSubset(r, ifd.Req), minus(need, t.Req))
				f.Dep = r.Chance(1, 7)
				if !subset(f.Req, ifd.Req) {
					ok = false // this object cannot implement the interface under the feature rules
				}
				add = append(add, f)
			}
			if ok {
				t.Fields = append(t.Fields, add...)
				t.Ifaces = append(t.Ifaces, in)
			}
		}
	}
	// root fields: one per composite type (gated exactly as the type), plus leaves with arguments
	q := d.typ("Query")
	q.Fields = append(q.Fields, fieldDesc{Name: "ping", Type: tref{"Int", ""}})
	for _, cn := range g.names("object", "interface", "union") {
		if cn == "Query" || cn == "Mutation" {
			continue
		}
		f := fieldDesc{Name: "r" + cn, Type: tref{cn, randWrapOut(r)}, Req: g.req(cn)}
		if r.Chance(1, 5) {
			f.Req = union(f.Req, randReq(r))
		}
		q.Fields = append(q.Fields, f)
	}
	for j, m := 0, r.Range(1, 3); j < m; j++ {
		q.Fields = append(q.Fields, g.genField(q, fmt.Sprintf("q%d", j)))
	}
	// what resolvers of composite-typed fields return
	objs := g.names("object")
	for ti := range d.Types {
		t := &d.Types[ti]
		if t.Kind != "object" {
			continue
		}
		for fi := range t.Fields {
			f := &t.Fields[fi]
			b := d.typ(f.Type.Name)
			switch b.Kind {
			case "object":
				f.Ret = b.Name
			case "interface":
				var impl []string
				for _, o := range objs {
					if subset([]string{b.Name}, d.typ(o).Ifaces) {
						impl = append(impl, o)
					}
				}
				f.Ret = pickRet(r, impl, objs)
			case "union":
				f.Ret = pickRet(r, b.Members, objs)
			}
		}
	}
	d.Directives = []dirDesc{{Name: "include", Args: []argDesc{{"if", tref{"Boolean", "N"}}}}, {Name: "skip", Args: []argDesc{{"if", tref{"Boolean", "N"}}}}}
	if r.Chance(1, 3) {
		var ok []string
		for _, c := range g.names("scalar", "enum", "input") {
			if len(g.req(c)) == 0 {
				ok = append(ok, c)
			}
		}
		d.Directives = append(d.Directives, dirDesc{Name: "dd", Args: []argDesc{{"x", tref{rng.Pick(r, ok), randWrapIn(r)}}}})
	}
	// AdditionalTypes: what schema.New would not reach by itself, and usually everything else too;
	// in a quarter of the schemas only a random part of the rest (then erasing a gated element can
	// leave a type that needs no feature unreferenced)
	reach := d.reachable(nil)
	sparse := r.Chance(1, 4)
	for _, t := range d.Types {
		if !reach[t.Name] || !sparse || r.Chance(1, 3) {
			d.Additional = append(d.Additional, t.Name)
		}
	}
	return d
}

func pickRet(r *rng.R, good, all []string) string {
	switch x := r.Intn(20); {
	case x < 17 && len(good) > 0:
		return rng.Pick(r, good)
	case x < 19:
		return rng.Pick(r, all)
	default:
		return "Nope"
	}
}

func lower(s string) string {
	b := []byte(s)
	for i, c := range b {
		if c >= 'A' && c <= 'Z' {
			b[i] = c + 32
		}
	}
	return string(b)
}

// mutate applies one random edit aimed at a construction rule; the result may or may not still be
// acceptable — schema.New and the model's schema_ok have to agree on that.
func mutate(r *rng.R, d *desc) string {
	pickT := func(kinds ...string) *typeDesc {
		var c []*typeDesc
		for i := range d.Types {
			for _, k := range kinds {
				if d.Types[i].Kind == k {
					c = append(c, &d.Types[i])
				}
			}
		}
		if len(c) == 0 {
			return nil
		}
		return rng.Pick(r, c)
	}
	feat := rng.Pick(r, alphabet)
	// a type of input kind that needs `feat`, made so if necessary
	gatedInput := func() *typeDesc {
		t := pickT("enum", "input")
		if t != nil && !subset([]string{feat}, t.Req) {
			t.Req = union(t.Req, []string{feat})
		}
		return t
	}
	implementers := func(iface string) []*typeDesc {
		var out []*typeDesc
		for i := range d.Types {
			if d.Types[i].Kind == "object" && subset([]string{iface}, d.Types[i].Ifaces) {
				out = append(out, &d.Types[i])
			}
		}
		return out
	}
	for tries := 0; tries < 20; tries++ {
		switch r.Intn(15) {
		case 12: // an argument of a gated type on an interface field (and on the implementing fields)
			if it, gt := pickT("interface"), gatedInput(); it != nil && gt != nil {
				f := &it.Fields[r.Intn(len(it.Fields))]
				a := argDesc{Name: fmt.Sprintf("ax%d", len(f.Args)), Type: tref{gt.Name, ""}}
				f.Args = append(f.Args, a)
				for _, o := range implementers(it.Name) {
					if of := o.field(f.Name); of != nil {
						of.Args = append(of.Args, a)
					}
				}
				return "iface-arg-gated"
			}
		case 13: // an argument of a gated type on an object field that implements nothing
			if ot, gt := pickT("object"), gatedInput(); ot != nil && gt != nil && len(ot.Ifaces) == 0 {
				f := &ot.Fields[r.Intn(len(ot.Fields))]
				f.Args = append(f.Args, argDesc{Name: fmt.Sprintf("ax%d", len(f.Args)), Type: tref{gt.Name, ""}})
				return "object-arg-gated"
			}
		case 14: // an interface field of a gated leaf type (and the implementing fields)
			if it, gt := pickT("interface"), gatedInput(); it != nil && gt != nil && gt.Kind == "enum" {
				f := &it.Fields[r.Intn(len(it.Fields))]
				if f.Name != "id" {
					f.Type = tref{gt.Name, ""}
					for _, o := range implementers(it.Name) {
						if of := o.field(f.Name); of != nil {
							of.Type = f.Type
						}
					}
					return "iface-field-type-gated"
				}
			}
		case 0: // loosen a field
			if t := pickT("object", "interface"); t != nil {
				f := &t.Fields[r.Intn(len(t.Fields))]
				if len(f.Req) > 0 {
					f.Req = minus(f.Req, []string{rng.Pick(r, f.Req)})
					return "field-req-removed"
				}
			}
		case 1: // tighten a field (breaks interface satisfaction / the unconditional-field rule)
			if t := pickT("object", "interface"); t != nil {
				f := &t.Fields[r.Intn(len(t.Fields))]
				f.Req = union(f.Req, []string{feat})
				return "field-req-added"
			}
		case 2: // tighten a type
			if t := pickT("scalar", "enum", "input", "object", "interface", "union"); t != nil && builtinScalars[t.Name] == nil {
				t.Req = union(t.Req, []string{feat})
				return "type-req-added"
			}
		case 3: // loosen a type
			if t := pickT("enum", "input", "object", "interface", "union"); t != nil && len(t.Req) > 0 {
				t.Req = minus(t.Req, []string{rng.Pick(r, t.Req)})
				return "type-req-removed"
			}
		case 4: // gate a root type
			if r.Bool() || d.Mutation == "" {
				d.typ(d.Query).Req = []string{feat}
				return "query-gated"
			}
			d.typ(d.Mutation).Req = []string{feat}
			return "mutation-gated"
		case 5: // directive argument of a gated type
			if t := pickT("enum", "input", "scalar"); t != nil && len(t.Req) > 0 {
				d.Directives = append(d.Directives, dirDesc{Name: fmt.Sprintf("gd%d", len(d.Directives)), Args: []argDesc{{"x", tref{t.Name, ""}}}})
				return "directive-arg-gated"
			}
		case 6: // every field conditional
			if t := pickT("object", "interface"); t != nil && !subset([]string{feat}, t.Req) {
				for i := range t.Fields {
					t.Fields[i].Req = union(t.Fields[i].Req, []string{feat})
				}
				return "all-fields-conditional"
			}
		case 7: // drop a field (an implemented interface field may go missing)
			if t := pickT("object"); t != nil && len(t.Fields) > 1 {
				i := r.Intn(len(t.Fields))
				t.Fields = append(t.Fields[:i:i], t.Fields[i+1:]...)
				return "field-dropped"
			}
		case 8: // union without members, or with an extra member
			if t := pickT("union"); t != nil {
				if r.Bool() {
					t.Members = nil
					return "union-emptied"
				}
				o := pickT("object")
				if !subset([]string{o.Name}, t.Members) {
					t.Members = append(t.Members, o.Name)
					return "union-member-added"
				}
			}
		case 9: // enum / input without members
			if t := pickT("enum", "input"); t != nil {
				t.Values, t.Inputs = nil, nil
				return "members-emptied"
			}
		case 10: // an extra implementation link
			if t, i := pickT("object"), pickT("interface"); t != nil && i != nil && !subset([]string{i.Name}, t.Ifaces) {
				t.Ifaces = append(t.Ifaces, i.Name)
				return "iface-link-added"
			}
		case 11: // input field of another input type / enum (may need more than the owner)
			if t := pickT("input"); t != nil {
				if u := pickT("enum", "input", "scalar"); u != nil && u.Name != t.Name {
					t.Inputs = append(t.Inputs, argDesc{Name: fmt.Sprintf("xx%d", len(t.Inputs)), Type: tref{u.Name, ""}})
					return "input-field-added"
				}
			}
		}
	}
	return "unchanged"
}
