// Request generators.  All of them look at the FULL description (they ignore gating on purpose): a
// request uses gated fields, fragments on gated types, variables of gated input types and spreads
// across abstract types whose only common implementation is gated as readily as visible ones.
package main

import (
	"fmt"
	"strings"

	"verifharness/internal/rng"
	"verifharness/internal/sexp"
)

func isComposite(k string) bool { return k == "object" || k == "interface" || k == "union" }

// nearMiss: a name within one or two edits of one of `names` (gated and visible ones alike) that is
// none of `names` — the input on which a "did you mean ..?" would name the original
func nearMiss(r *rng.R, names []string, fallback string) string {
	if len(names) == 0 {
		return fallback
	}
	taken := map[string]bool{}
	for _, n := range names {
		taken[n] = true
	}
	for try := 0; try < 8; try++ {
		n := rng.Pick(r, names)
		for k, edits := 0, r.Range(1, 2); k < edits && len(n) > 0; k++ {
			i := r.Intn(len(n))
			switch r.Intn(4) {
			case 0: // drop a character
				if len(n) > 1 {
					n = n[:i] + n[i+1:]
				}
			case 1: // double a character
				n = n[:i] + n[i:i+1] + n[i:]
			case 2: // replace a character
				n = n[:i] + "z" + n[i+1:]
			default: // swap two neighbours
				if i+1 < len(n) {
					n = n[:i] + n[i+1:i+2] + n[i:i+1] + n[i+2:]
				}
			}
		}
		if n != "" && !taken[n] && !(n[0] >= '0' && n[0] <= '9') && !strings.HasPrefix(n, "__") {
			return n
		}
	}
	return fallback
}

func fieldNames(fs []fieldDesc) []string {
	out := make([]string, len(fs))
	for i, f := range fs {
		out[i] = f.Name
	}
	return out
}

// a field name that does not exist on the type: usually a near miss of one that does
func missingField(r *rng.R, pt *typeDesc) string {
	if r.Chance(1, 4) {
		return "nofield"
	}
	return nearMiss(r, fieldNames(pt.Fields), "nofield")
}

// a type name that does not exist: usually a near miss of one that does
func missingType(r *rng.R, d *desc) string {
	if r.Chance(1, 4) {
		return "Nope"
	}
	return nearMiss(r, d.allTypeNames(), "Nope")
}

func (d *desc) kindOf(name string) string {
	if t := d.typ(name); t != nil {
		return t.Kind
	}
	return ""
}

// types related to p through implementation / membership (spreads that can be possible)
func (d *desc) related(p string) []string {
	pt := d.typ(p)
	out := []string{p}
	switch pt.Kind {
	case "interface":
		for _, t := range d.Types {
			if t.Kind == "object" && subset([]string{p}, t.Ifaces) {
				out = append(out, t.Name)
				out = append(out, t.Ifaces...) // sibling interfaces: common implementation
			}
		}
	case "object":
		out = append(out, pt.Ifaces...)
		for _, t := range d.Types {
			if t.Kind == "union" && subset([]string{p}, t.Members) {
				out = append(out, t.Name)
			}
		}
	case "union":
		out = append(out, pt.Members...)
		for _, m := range pt.Members {
			out = append(out, d.typ(m).Ifaces...)
		}
	}
	return out
}

func (d *desc) allNames(pred func(string) bool) []string {
	var out []string
	for _, t := range d.Types {
		if pred(t.Kind) {
			out = append(out, t.Name)
		}
	}
	return out
}

func pickFragmentType(r *rng.R, d *desc, parent string) string {
	switch x := r.Intn(20); {
	case x < 11:
		return rng.Pick(r, d.related(parent))
	case x < 16:
		return rng.Pick(r, d.allNames(isComposite))
	case x < 18:
		return rng.Pick(r, d.allNames(func(k string) bool { return !isComposite(k) }))
	default:
		return missingType(r, d)
	}
}

// ---- chains: one selection per selection set, every node on its own line ----

type chainNode struct {
	Kind byte // 'f' field, 'g' fragment, 't' __typename
	Name string
}

func genChain(r *rng.R, d *desc) []chainNode {
	var out []chainNode
	p := d.Query
	for depth := 0; ; depth++ {
		pt := d.typ(p)
		x := r.Intn(20)
		if depth >= 6 || (pt.Kind == "union" && x < 6) || (pt.Kind != "union" && x < 3) {
			return append(out, chainNode{'t', ""})
		}
		if pt.Kind != "union" && x < 15 {
			if r.Chance(1, 12) {
				return append(out, chainNode{'f', missingField(r, pt)})
			}
			f := rng.Pick(r, pt.Fields)
			if r.Chance(1, 2) { // prefer going deeper
				var comp []fieldDesc
				for _, c := range pt.Fields {
					if isComposite(d.kindOf(c.Type.Name)) {
						comp = append(comp, c)
					}
				}
				if len(comp) > 0 {
					f = rng.Pick(r, comp)
				}
			}
			out = append(out, chainNode{'f', f.Name})
			if !isComposite(d.kindOf(f.Type.Name)) {
				return out
			}
			p = f.Type.Name
			continue
		}
		t := pickFragmentType(r, d, p)
		out = append(out, chainNode{'g', t})
		if !isComposite(d.kindOf(t)) {
			return append(out, chainNode{'t', ""})
		}
		p = t
	}
}

// every well-formed chain of at most maxLen nodes over the names of d (plus an unknown field and an
// unknown type).  Well-formed: nothing follows a leaf field, an unknown field or __typename; a
// fragment is never last; a fragment on something that is not a composite type is followed by
// __typename only (the pinned validator panics on deeper fragments there, DESIGN §6 #6).
func enumChains(d *desc, maxLen int) [][]chainNode {
	var out [][]chainNode
	emit := func(c []chainNode) { out = append(out, append([]chainNode(nil), c...)) }
	types := append(d.allTypeNames(), "Nope")
	var rec func(prefix []chainNode, parent string)
	rec = func(prefix []chainNode, parent string) {
		emit(append(prefix, chainNode{'t', ""}))
		pt := d.typ(parent)
		emit(append(prefix, chainNode{'f', "nofield"}))
		for _, f := range pt.Fields {
			emit(append(prefix, chainNode{'f', f.Name + "z"})) // one edit away from an existing (maybe gated) field
			c := append(prefix, chainNode{'f', f.Name})
			emit(c)
			if isComposite(d.kindOf(f.Type.Name)) && len(c) < maxLen {
				rec(c, f.Type.Name)
			}
		}
		if len(prefix)+2 > maxLen {
			return
		}
		for _, t := range types {
			c := append(prefix, chainNode{'g', t})
			if isComposite(d.kindOf(t)) {
				rec(c, t)
			} else {
				emit(append(c, chainNode{'t', ""}))
			}
		}
	}
	rec(nil, d.Query)
	return out
}

func chainText(c []chainNode) string {
	var b strings.Builder
	b.WriteString("{\n")
	closers := 0
	for i, n := range c {
		last := i == len(c)-1
		switch n.Kind {
		case 't':
			b.WriteString("__typename\n")
		case 'f':
			b.WriteString(n.Name)
			if !last {
				b.WriteString(" {")
				closers++
			}
			b.WriteString("\n")
		case 'g':
			b.WriteString("... on " + n.Name + " {\n")
			closers++
		}
	}
	b.WriteString(strings.Repeat("}", closers+1))
	return b.String()
}

func chainSexp(c []chainNode) sexp.Node {
	out := make([]sexp.Node, len(c))
	for i, n := range c {
		switch n.Kind {
		case 't':
			out[i] = sexp.T("typename")
		case 'f':
			out[i] = sexp.T("field", sexp.Str(n.Name))
		case 'g':
			out[i] = sexp.T("frag", sexp.Str(n.Name))
		}
	}
	return sexp.L(out...)
}

func chainKeys(c []chainNode) []string {
	out := make([]string, len(c))
	for i, n := range c {
		switch n.Kind {
		case 't':
			out[i] = "__typename"
		case 'f':
			out[i] = n.Name
		}
	}
	return out
}

// ---- rich documents ----

type docGen struct {
	r     *rng.R
	d     *desc
	n     int
	vars  []string
	vals  map[string]interface{}
	frags []string
	tags  map[string]bool
}

func (g *docGen) fresh(p string) string { g.n++; return fmt.Sprintf("%s%d", p, g.n) }

func trefText(t tref) string {
	s := t.Name
	for i := len(t.Wrap) - 1; i >= 0; i-- {
		if t.Wrap[i] == 'L' {
			s = "[" + s + "]"
		} else {
			s += "!"
		}
	}
	return s
}

// a literal and the equivalent JSON value of type t
func (g *docGen) value(t tref, depth int) (string, interface{}) {
	if strings.HasPrefix(t.Wrap, "N") {
		return g.value(tref{t.Name, t.Wrap[1:]}, depth)
	}
	if strings.HasPrefix(t.Wrap, "L") {
		l, j := g.value(tref{t.Name, t.Wrap[1:]}, depth)
		return "[" + l + "]", []interface{}{j}
	}
	td := g.d.typ(t.Name)
	switch td.Kind {
	case "enum":
		if g.r.Chance(1, 8) { // a value the enum does not have: usually a near miss of one it has
			var vs []string
			for _, v := range td.Values {
				vs = append(vs, v.Name)
			}
			v := nearMiss(g.r, vs, "NOPE")
			return v, v
		}
		v := rng.Pick(g.r, td.Values).Name
		return v, v
	case "input":
		var parts []string
		j := map[string]interface{}{}
		for _, f := range td.Inputs {
			if depth < 3 && g.r.Chance(2, 3) {
				l, v := g.value(f.Type, depth+1)
				parts = append(parts, f.Name+": "+l)
				j[f.Name] = v
			}
		}
		return "{" + strings.Join(parts, ", ") + "}", j
	}
	switch t.Name {
	case "Int":
		return "3", 3
	case "Float":
		return "1.5", 1.5
	case "Boolean":
		return "true", true
	}
	return `"x"`, "x"
}

func (g *docGen) args(as []argDesc) string {
	var parts []string
	for _, a := range as {
		if !g.r.Chance(2, 3) {
			continue
		}
		lit, j := g.value(a.Type, 0)
		if g.r.Chance(1, 3) {
			v := g.fresh("v")
			g.vars = append(g.vars, "$"+v+": "+trefText(a.Type))
			g.vals[v] = j
			g.tags["variable"] = true
			lit = "$" + v
		}
		name := a.Name
		if g.r.Chance(1, 12) { // an argument the field does not have: a near miss of one it has
			var ns []string
			for _, x := range as {
				ns = append(ns, x.Name)
			}
			name = nearMiss(g.r, ns, "noarg")
		}
		parts = append(parts, name+": "+lit)
	}
	if len(parts) == 0 {
		return ""
	}
	return "(" + strings.Join(parts, ", ") + ")"
}

func (g *docGen) selset(parent string, depth int) string {
	pt := g.d.typ(parent)
	if pt == nil || !isComposite(pt.Kind) || depth >= 4 {
		return "{ " + g.fresh("k") + ": __typename }"
	}
	var sels []string
	for i, n := 0, g.r.Range(1, 3); i < n; i++ {
		x := g.r.Intn(20)
		switch {
		case pt.Kind != "union" && x < 11:
			f := rng.Pick(g.r, pt.Fields)
			if g.r.Chance(1, 10) { // a field the type does not have
				sels = append(sels, g.fresh("k")+": "+missingField(g.r, pt))
				continue
			}
			s := g.fresh("k") + ": " + f.Name + g.args(f.Args)
			if g.r.Chance(1, 10) {
				s += " @include(if: true)"
			} else if g.r.Chance(1, 20) { // a directive the schema does not have: a near miss of one it has
				var ds []string
				for _, dd := range g.d.Directives {
					ds = append(ds, dd.Name)
				}
				s += " @" + nearMiss(g.r, ds, "nodirective")
			}
			if isComposite(g.d.kindOf(f.Type.Name)) {
				s += " " + g.selset(f.Type.Name, depth+1)
			}
			sels = append(sels, s)
		case x < 13:
			sels = append(sels, g.fresh("k")+": __typename")
		case x < 17:
			t := pickFragmentType(g.r, g.d, parent)
			g.tags["fragment"] = true
			sels = append(sels, "... on "+t+" "+g.selset(t, depth+1))
		case x < 19:
			t := pickFragmentType(g.r, g.d, parent)
			name := g.fresh("F")
			g.tags["fragment"] = true
			g.frags = append(g.frags, "fragment "+name+" on "+t+" "+g.selset(t, depth+1))
			sels = append(sels, "..."+name)
		default:
			sels = append(sels, "... "+g.selset(parent, depth+1))
		}
	}
	return "{ " + strings.Join(sels, " ") + " }"
}

func genDoc(r *rng.R, d *desc) (string, map[string]interface{}, []string) {
	g := &docGen{r: r, d: d, vals: map[string]interface{}{}, tags: map[string]bool{}}
	if d.Mutation != "" && r.Chance(1, 8) {
		return "mutation { m }", nil, []string{"mutation"}
	}
	body := g.selset(d.Query, 0)
	if r.Chance(1, 15) { // a variable that is declared and never used, of any input type
		t := rng.Pick(r, d.allNames(func(k string) bool { return k == "scalar" || k == "enum" || k == "input" }))
		if r.Chance(1, 3) { // a type the schema does not have
			t = missingType(r, d)
		}
		g.vars = append(g.vars, "$"+g.fresh("u")+": "+t)
		g.tags["variable"] = true
	}
	head := "query Q"
	if len(g.vars) > 0 {
		head += "(" + strings.Join(g.vars, ", ") + ")"
	}
	doc := head + " " + body
	for _, f := range g.frags {
		doc += "\n" + f
	}
	var tags []string
	for _, t := range []string{"fragment", "variable"} {
		if g.tags[t] {
			tags = append(tags, t)
		}
	}
	return doc, g.vals, tags
}
