// The graphql-ws route of the apifu cases: the feature set is taken once, at connection_init, from
// Config.Features(connection context) (graphqlws.go:46-49) and used for every start message
// (graphqlws.go:59-64).
package main

import (
	"context"
	"encoding/json"
	"fmt"
	"net/http"
	"net/http/httptest"
	"strings"
	"time"

	"github.com/gorilla/websocket"

	apifu "github.com/ccbrown/api-fu"
	"github.com/ccbrown/api-fu/graphql"
)

type wsSession struct {
	api  *apifu.API
	srv  *httptest.Server
	conn *websocket.Conn
	n    int
	// "graphql-ws": start / data / complete, keep-alive "ka";
	// "graphql-transport-ws": subscribe / next / complete, keep-alive "pong"
	proto string
}

type wsMessage struct {
	Type    string          `json:"type"`
	Id      string          `json:"id"`
	Payload json.RawMessage `json:"payload"`
}

// later: when not nil, Config.Features reads a box that holds `features` until the connection is
// acknowledged and `*later` from then on — the environment changes while the connection lives
// inits: the payloads' feature lists of the connection_init messages to send, one after the other
// (nil: one init with an empty payload)
func openWS(api *apifu.API, features graphql.FeatureSet, proto string, later *graphql.FeatureSet, inits [][]string) *wsSession {
	s := &wsSession{api: api, proto: proto}
	var val interface{} = features
	var box *featBox
	if later != nil {
		box = &featBox{now: features}
		val = box
	}
	s.srv = httptest.NewServer(http.HandlerFunc(func(w http.ResponseWriter, r *http.Request) {
		api.ServeGraphQLWS(w, r.WithContext(context.WithValue(r.Context(), featKey{}, val)))
	}))
	dialer := &websocket.Dialer{HandshakeTimeout: 5 * time.Second, Subprotocols: []string{proto}}
	conn, _, err := dialer.Dial("ws"+strings.TrimPrefix(s.srv.URL, "http"), nil)
	if err != nil {
		panic(fmt.Sprintf("websocket dial: %v", err))
	}
	s.conn = conn
	payloads := []map[string]interface{}{{}}
	if inits != nil {
		payloads = nil
		for _, fs := range inits {
			if fs == nil {
				fs = []string{}
			}
			payloads = append(payloads, map[string]interface{}{"features": fs})
		}
	}
	for _, p := range payloads {
		s.send(map[string]interface{}{"type": "connection_init", "payload": p})
		if m := s.read(); m.Type != "connection_ack" {
			panic("expected connection_ack, got " + m.Type)
		}
	}
	if box != nil {
		box.set(*later)
	}
	return s
}

func (s *wsSession) send(m map[string]interface{}) {
	s.conn.SetWriteDeadline(time.Now().Add(5 * time.Second))
	if err := s.conn.WriteJSON(m); err != nil {
		panic(fmt.Sprintf("websocket write: %v", err))
	}
}

// the next message that is not a keep-alive (5 s watchdog)
func (s *wsSession) read() wsMessage {
	for {
		var m wsMessage
		s.conn.SetReadDeadline(time.Now().Add(5 * time.Second))
		if err := s.conn.ReadJSON(&m); err != nil {
			panic(fmt.Sprintf("websocket read: %v", err))
		}
		if m.Type != "ka" && m.Type != "pong" {
			return m
		}
	}
}

func (s *wsSession) close() {
	s.conn.WriteMessage(websocket.CloseMessage, websocket.FormatCloseMessage(websocket.CloseNormalClosure, "done"))
	s.conn.Close()
	s.api.CloseHijackedConnections()
	s.srv.Close()
}

// a subscription: every data message until complete; the observation is the list of the events'
// data (under the synthetic key "events") with all their errors, or the refusal
func (s *side) runWSSubscription(query string, vars map[string]interface{}) *observation {
	o := &observation{}
	s.ws.n++
	id := fmt.Sprintf("q%d", s.ws.n)
	start, data := "start", "data"
	if s.ws.proto == "graphql-transport-ws" {
		start, data = "subscribe", "next"
	}
	s.log.take()
	s.ws.send(map[string]interface{}{"id": id, "type": start, "payload": map[string]interface{}{"query": query, "variables": vars}})
	var datas, errs []string
	refused := false
	for {
		m := s.ws.read()
		if m.Id != id {
			panic(fmt.Sprintf("message for %s while waiting for %s", m.Id, id))
		}
		if m.Type == "complete" {
			break
		}
		if m.Type != data {
			panic("unexpected message type " + m.Type)
		}
		var p struct {
			Data   json.RawMessage   `json:"data"`
			Errors []json.RawMessage `json:"errors"`
		}
		if err := json.Unmarshal(m.Payload, &p); err != nil {
			panic(err)
		}
		if p.Data == nil {
			refused = true
			o.readResponse(m.Payload)
			if es, ok := o.raw.get("errors"); ok {
				for _, e := range es.vals {
					o.verrs = append(o.verrs, errLocs(e))
				}
			}
			continue
		}
		datas = append(datas, string(p.Data))
		for _, e := range p.Errors {
			errs = append(errs, string(e))
		}
	}
	o.calls = s.log.take()
	if !refused {
		body := `{"data":{"events":[` + strings.Join(datas, ",") + `]}`
		if len(errs) > 0 {
			body += `,"errors":[` + strings.Join(errs, ",") + `]`
		}
		o.readResponse([]byte(body + "}"))
	}
	return o
}

// one start message; the data message's payload is the response
func (s *side) runWS(query string, vars map[string]interface{}) *observation {
	if strings.HasPrefix(query, "subscription") {
		return s.runWSSubscription(query, vars)
	}
	o := &observation{}
	s.ws.n++
	id := fmt.Sprintf("q%d", s.ws.n)
	s.log.take()
	start, data := "start", "data"
	if s.ws.proto == "graphql-transport-ws" {
		start, data = "subscribe", "next"
	}
	s.ws.send(map[string]interface{}{"id": id, "type": start, "payload": map[string]interface{}{"query": query, "variables": vars}})
	m := s.ws.read()
	if m.Type != data || m.Id != id {
		panic(fmt.Sprintf("expected data for %s, got %s for %s", id, m.Type, m.Id))
	}
	if c := s.ws.read(); c.Type != "complete" || c.Id != id {
		panic(fmt.Sprintf("expected complete for %s, got %s for %s", id, c.Type, c.Id))
	}
	o.calls = s.log.take()
	o.readResponse(m.Payload)
	if o.data == nil {
		if es, ok := o.raw.get("errors"); ok {
			for _, e := range es.vals {
				o.verrs = append(o.verrs, errLocs(e))
			}
		}
	}
	return o
}
