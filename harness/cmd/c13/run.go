// Running one request against one schema and abstracting what came back.
package main

import (
	"bytes"
	"context"
	"encoding/json"
	"fmt"
	"sort"
	"strings"

	apifu "github.com/ccbrown/api-fu"
	"github.com/ccbrown/api-fu/graphql"

	"verifharness/internal/sexp"
)

// ---- ordered JSON ----

type jv struct {
	kind byte // 'o' 'a' 's' 'n' 't' 'f' 'z'(null)
	keys []string
	vals []jv
	text string
}

func parseJSON(b []byte) jv {
	dec := json.NewDecoder(bytes.NewReader(b))
	dec.UseNumber()
	var val func() jv
	val = func() jv {
		tok, err := dec.Token()
		if err != nil {
			panic(fmt.Sprintf("response is not JSON: %v", err))
		}
		switch t := tok.(type) {
		case json.Delim:
			if t == '{' {
				o := jv{kind: 'o'}
				for dec.More() {
					k, _ := dec.Token()
					o.keys = append(o.keys, k.(string))
					o.vals = append(o.vals, val())
				}
				dec.Token()
				return o
			}
			a := jv{kind: 'a'}
			for dec.More() {
				a.vals = append(a.vals, val())
			}
			dec.Token()
			return a
		case string:
			return jv{kind: 's', text: t}
		case json.Number:
			return jv{kind: 'n', text: t.String()}
		case bool:
			if t {
				return jv{kind: 't'}
			}
			return jv{kind: 'f'}
		case nil:
			return jv{kind: 'z'}
		}
		panic("unexpected token")
	}
	return val()
}

func (v jv) get(k string) (jv, bool) {
	for i, x := range v.keys {
		if x == k {
			return v.vals[i], true
		}
	}
	return jv{}, false
}

func (v jv) str(k string) string {
	x, _ := v.get(k)
	return x.text
}

// lists the introspection resolvers produce by ranging over Go maps (or, for possibleTypes, in
// schema-construction order, which is itself map-ordered)
var mapOrdered = map[string]bool{"types": true, "fields": true, "args": true, "enumValues": true, "inputFields": true, "possibleTypes": true, "directives": true}

func (v jv) sexp(sortLists bool, key string) sexp.Node {
	switch v.kind {
	case 'o':
		items := make([]sexp.Node, len(v.keys))
		for i := range v.keys {
			items[i] = sexp.L(sexp.Str(v.keys[i]), v.vals[i].sexp(sortLists, v.keys[i]))
		}
		return sexp.T("obj", items...)
	case 'a':
		items := make([]sexp.Node, len(v.vals))
		for i := range v.vals {
			items[i] = v.vals[i].sexp(sortLists, "")
		}
		if sortLists && mapOrdered[key] {
			sort.Slice(items, func(i, j int) bool { return items[i].String() < items[j].String() })
		}
		return sexp.T("arr", items...)
	case 's':
		return sexp.T("str", sexp.Str(v.text))
	case 'n':
		return sexp.T("num", sexp.Str(v.text))
	case 't':
		return sexp.Sym("true")
	case 'f':
		return sexp.Sym("false")
	}
	return sexp.Sym("null")
}

// ---- one side of a request ----

type side struct {
	schema   *graphql.Schema
	api      *apifu.API // when set, requests go through API.ServeGraphQL instead
	ws       *wsSession // when set, through a graphql-ws connection to API.ServeGraphQLWS
	features graphql.FeatureSet
	log      *calls
	// with api: every query is first registered as a persisted query by a request that has every
	// feature, then replayed by its hash alone with this side's feature set
	persisted bool
}

type observation struct {
	msgs  []string   // the message text of every validation and execution error that names at most one node
	verrs [][][2]int // per validation error its locations
	data  *jv        // nil when the response has no data member
	errs  []sexp.Node
	calls []string
	raw   jv
}

func locsOf(ls []graphql.Location) [][2]int {
	out := make([][2]int, len(ls))
	for i, l := range ls {
		out[i] = [2]int{l.Line, l.Column}
	}
	return out
}

func locsSexp(ls [][2]int) sexp.Node {
	out := make([]sexp.Node, len(ls))
	for i, l := range ls {
		out[i] = sexp.L(sexp.Int(l[0]), sexp.Int(l[1]))
	}
	return sexp.T("locs", out...)
}

func errLocs(e jv) [][2]int {
	var locs [][2]int
	if l, ok := e.get("locations"); ok {
		for _, x := range l.vals {
			var a, c int
			fmt.Sscan(x.str("line"), &a)
			fmt.Sscan(x.str("column"), &c)
			locs = append(locs, [2]int{a, c})
		}
	}
	return locs
}

func (o *observation) readResponse(b []byte) {
	o.raw = parseJSON(b)
	if d, ok := o.raw.get("data"); ok {
		o.data = &d
	}
	if es, ok := o.raw.get("errors"); ok {
		for _, e := range es.vals {
			var path []sexp.Node
			if p, ok := e.get("path"); ok {
				for _, c := range p.vals {
					path = append(path, c.sexp(false, ""))
				}
			}
			o.errs = append(o.errs, sexp.T("err", sexp.T("path", path...), locsSexp(errLocs(e))))
			if len(errLocs(e)) < 2 { // which of several merge conflicts is reported depends on Go map order
				o.msgs = append(o.msgs, e.str("message"))
			}
		}
		sort.Slice(o.errs, func(i, j int) bool { return o.errs[i].String() < o.errs[j].String() })
	}
}

func (s *side) run(query string, vars map[string]interface{}) *observation {
	if s.ws != nil {
		return s.runWS(query, vars)
	}
	if s.api != nil {
		return s.runHTTP(query, vars)
	}
	o := &observation{}
	_, verrs := graphql.ParseAndValidate(query, s.schema, s.features)
	for _, e := range verrs {
		o.verrs = append(o.verrs, locsOf(e.Locations))
		if len(e.Locations) < 2 {
			o.msgs = append(o.msgs, "validation: "+e.Message)
		}
	}
	s.log.take()
	resp := graphql.Execute(&graphql.Request{Context: context.Background(), Query: query, Schema: s.schema, Features: s.features, VariableValues: vars})
	o.calls = s.log.take()
	b, err := json.Marshal(resp)
	if err != nil {
		panic(fmt.Sprintf("response does not marshal: %v", err))
	}
	o.readResponse(b)
	return o
}

// verdict of validation modulo what the property does not speak about: messages are dropped, the
// errors are sorted, and an error naming two nodes (only the field-merging rule produces those; which
// of several conflicts it reports first depends on Go map order) is reduced to the fact that there is one.
func (o *observation) verdict() sexp.Node {
	if len(o.verrs) == 0 {
		return sexp.T("valid")
	}
	var items []sexp.Node
	merge := false
	for _, ls := range o.verrs {
		if len(ls) >= 2 {
			merge = true
			continue
		}
		items = append(items, locsSexp(ls))
	}
	sort.Slice(items, func(i, j int) bool { return items[i].String() < items[j].String() })
	if merge {
		items = append(items, sexp.Sym("merge-conflict"))
	}
	return sexp.T("invalid", items...)
}

// the canonical response: data in response order (map-ordered introspection lists sorted when the
// request is an introspection request), errors as (path, locations), sorted.
func (o *observation) response(sortLists, omitData bool) sexp.Node {
	d := sexp.Sym("absent")
	if o.data != nil {
		d = sexp.Sym("omitted") // the probe's data crosses in structured form only
		if !omitData {
			d = o.data.sexp(sortLists, "")
		}
	}
	return sexp.T("resp", sexp.T("data", d), sexp.T("errors", o.errs...))
}

// the message texts, sorted: an observable of the DIFFERENTIAL clause only (side a against side b,
// byte for byte); the model does not predict them, so a rewording that applies to both sides alike
// stays silent
func (o *observation) messages() sexp.Node {
	ms := append([]string(nil), o.msgs...)
	sort.Strings(ms)
	return sexp.T("messages", strs(ms)...)
}

func (o *observation) sexp(sortLists, omitData bool) sexp.Node {
	return sexp.T("obs", sexp.T("verdict", o.verdict()), o.response(sortLists, omitData), sexp.T("calls", strs(o.calls)...), o.messages())
}

// error lines of the validation verdict (chains put every node on its own line)
func (o *observation) errorLines() sexp.Node {
	seen := map[int]bool{}
	var lines []int
	for _, ls := range o.verrs {
		for _, l := range ls {
			if !seen[l[0]] {
				seen[l[0]] = true
				lines = append(lines, l[0])
			}
		}
	}
	sort.Ints(lines)
	out := make([]sexp.Node, len(lines))
	for i, l := range lines {
		out[i] = sexp.Int(l)
	}
	return sexp.L(out...)
}

// ---- structured reading of the introspection probe ----

func typeRefSexp(v jv) sexp.Node {
	switch v.str("kind") {
	case "LIST":
		in, _ := v.get("ofType")
		return sexp.T("list", typeRefSexp(in))
	case "NON_NULL":
		in, _ := v.get("ofType")
		return sexp.T("nonnull", typeRefSexp(in))
	case "":
		return sexp.T("broken")
	}
	return sexp.T("named", sexp.Str(v.str("name")))
}

func sortNodes(ns []sexp.Node) []sexp.Node {
	sort.Slice(ns, func(i, j int) bool { return ns[i].String() < ns[j].String() })
	return ns
}

func inputsSexp(v jv) sexp.Node {
	var out []sexp.Node
	for _, a := range v.vals {
		t, _ := a.get("type")
		out = append(out, sexp.T("a", sexp.Str(a.str("name")), typeRefSexp(t)))
	}
	return sexp.T("set", sortNodes(out)...)
}

func nullable(v jv, ok bool, f func(jv) sexp.Node) sexp.Node {
	if !ok || v.kind == 'z' {
		return sexp.None()
	}
	return sexp.Some(f(v))
}

func namesSexp(v jv) sexp.Node {
	var out []sexp.Node
	for _, x := range v.vals {
		out = append(out, sexp.Str(x.str("name")))
	}
	return sexp.L(out...)
}

func sortedNamesSexp(v jv) sexp.Node {
	var out []string
	for _, x := range v.vals {
		out = append(out, x.str("name"))
	}
	sort.Strings(out)
	return sexp.T("set", strs(out)...)
}

func fieldsSexp(v jv) sexp.Node {
	var out []sexp.Node
	for _, f := range v.vals {
		t, _ := f.get("type")
		as, _ := f.get("args")
		dep, _ := f.get("isDeprecated")
		out = append(out, sexp.T("f", sexp.Str(f.str("name")), typeRefSexp(t), inputsSexp(as), sexp.Bool(dep.kind == 't')))
	}
	return sexp.T("set", sortNodes(out)...)
}

// (tinfo "Name" (none)) | (tinfo "Name" (some (kind K) (fields ..) (fields-nodep ..) (interfaces ..) (possible ..) (enum ..) (enum-nodep ..) (inputs ..)))
func tinfoSexp(name string, v jv, ok bool) sexp.Node {
	if !ok || v.kind == 'z' {
		return sexp.T("tinfo", sexp.Str(name), sexp.None())
	}
	g := func(k string, f func(jv) sexp.Node) sexp.Node {
		x, ok := v.get(k)
		return sexp.T(k, nullable(x, ok, f))
	}
	return sexp.T("tinfo", sexp.Str(name), sexp.Some(sexp.L(
		sexp.T("kind", sexp.Sym(strings.ToLower(v.str("kind")))),
		sexp.T("name", sexp.Str(v.str("name"))),
		g("fields", fieldsSexp), g("fieldsNoDep", sortedNamesSexp),
		g("interfaces", namesSexp), g("possibleTypes", sortedNamesSexp),
		g("enumValues", sortedNamesSexp), g("enumNoDep", sortedNamesSexp),
		g("inputFields", inputsSexp))))
}

const probeFragments = `
fragment T on __Type { kind name fields(includeDeprecated: true) { name isDeprecated type { ...R } args { name type { ...R } } } fieldsNoDep: fields { name } interfaces { name } possibleTypes { name } enumValues(includeDeprecated: true) { name } enumNoDep: enumValues { name } inputFields { name type { ...R } } }
fragment R on __Type { kind name ofType { kind name ofType { kind name ofType { kind name ofType { kind name } } } } }`

func probeQuery(names []string) string {
	var b strings.Builder
	b.WriteString("{ s: __schema { types { name } queryType { name } mutationType { name } subscriptionType { name } directives { name args { name type { ...R } } } }")
	for i, n := range names {
		fmt.Fprintf(&b, " t%d: __type(name: %q) { ...T }", i, n)
	}
	b.WriteString(" }")
	b.WriteString(probeFragments)
	return b.String()
}

// (intro (types (set "A" ...)) (query (some "Q")) (mutation ..) (subscription ..) (directives (set (d "name" (set (a ..)...))...)) (tinfos ...))
// Lists the resolvers produce in Go map order are tagged `set`: the model compares them as sets.
func (o *observation) probeSexp(names []string) sexp.Node {
	if o.data == nil || o.data.kind != 'o' {
		return sexp.T("intro-failed")
	}
	s, ok := o.data.get("s")
	if !ok || s.kind != 'o' {
		return sexp.T("intro-failed")
	}
	types, _ := s.get("types")
	root := func(k string) sexp.Node {
		x, ok := s.get(k)
		return nullable(x, ok, func(v jv) sexp.Node { return sexp.Str(v.str("name")) })
	}
	var dirs []sexp.Node
	ds, _ := s.get("directives")
	for _, d := range ds.vals {
		as, _ := d.get("args")
		dirs = append(dirs, sexp.T("d", sexp.Str(d.str("name")), inputsSexp(as)))
	}
	var tis []sexp.Node
	for i, n := range names {
		v, ok := o.data.get(fmt.Sprintf("t%d", i))
		tis = append(tis, tinfoSexp(n, v, ok))
	}
	return sexp.T("intro", sexp.T("types", sortedNamesSexp(types)), sexp.T("query", root("queryType")),
		sexp.T("mutation", root("mutationType")), sexp.T("subscription", root("subscriptionType")),
		sexp.T("directives", sexp.T("set", sortNodes(dirs)...)), sexp.T("tinfos", tis...))
}

// ---- reading the end of a chain out of the response ----
//
// keys: the response key of each chain node in order; lists are entered through their first element.
func (o *observation) chainFinal(keys []string) sexp.Node {
	if o.data == nil {
		return sexp.T("no-data")
	}
	cur := *o.data
	for i, k := range keys {
		for cur.kind == 'a' {
			if len(cur.vals) == 0 {
				return sexp.T("empty-list")
			}
			cur = cur.vals[0]
		}
		if cur.kind == 'z' {
			return sexp.T("unresolved")
		}
		if cur.kind != 'o' {
			return sexp.T("unexpected")
		}
		if k == "" { // a fragment node: stays on the same object
			continue
		}
		v, ok := cur.get(k)
		if !ok {
			return sexp.T("skipped")
		}
		if i == len(keys)-1 {
			for v.kind == 'a' && len(v.vals) > 0 {
				v = v.vals[0]
			}
			if k == "__typename" && v.kind == 's' {
				return sexp.T("typename", sexp.Str(v.text))
			}
			if v.kind == 'z' {
				return sexp.T("unresolved")
			}
			return sexp.T("leaf")
		}
		cur = v
	}
	return sexp.T("unexpected")
}
