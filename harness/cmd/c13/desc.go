// Schema descriptions: the finite data a generated schema, its erased twin and the Coq model are all
// built from.  Everything is slices in a fixed order (never Go maps), so a description prints the
// same on every run.
package main

import (
	"sort"

	"verifharness/internal/sexp"
)

// tref is a type reference: a named type under wrappers (outermost first; 'L' list, 'N' non-null).
type tref struct {
	Name string
	Wrap string
}

func (t tref) sexp() sexp.Node {
	n := sexp.T("named", sexp.Str(t.Name))
	for i := len(t.Wrap) - 1; i >= 0; i-- {
		if t.Wrap[i] == 'L' {
			n = sexp.T("list", n)
		} else {
			n = sexp.T("nonnull", n)
		}
	}
	return n
}

type argDesc struct {
	Name string
	Type tref
}

type fieldDesc struct {
	Name string
	Type tref
	Args []argDesc
	Req  []string
	Dep  bool
	Ret  string // tag of the object a resolver of a composite-typed field returns
}

type enumVal struct {
	Name string
	Dep  bool
}

type typeDesc struct {
	Kind    string // scalar enum input object interface union
	Name    string
	Req     []string
	Fields  []fieldDesc // object, interface
	Ifaces  []string    // object
	Members []string    // union
	Values  []enumVal   // enum
	Inputs  []argDesc   // input
}

type dirDesc struct {
	Name string
	Args []argDesc
}

type desc struct {
	Types        []typeDesc
	Query        string
	Mutation     string // "" = none
	Subscription string
	Directives   []dirDesc
	Additional   []string // SchemaDefinition.AdditionalTypes
}

func (d *desc) typ(name string) *typeDesc {
	for i := range d.Types {
		if d.Types[i].Name == name {
			return &d.Types[i]
		}
	}
	return nil
}

func (t *typeDesc) field(name string) *fieldDesc {
	for i := range t.Fields {
		if t.Fields[i].Name == name {
			return &t.Fields[i]
		}
	}
	return nil
}

func strs(xs []string) []sexp.Node {
	out := make([]sexp.Node, len(xs))
	for i, x := range xs {
		out[i] = sexp.Str(x)
	}
	return out
}

func reqSexp(r []string) sexp.Node { return sexp.T("req", strs(r)...) }

func argsSexp(tag string, as []argDesc) sexp.Node {
	out := make([]sexp.Node, len(as))
	for i, a := range as {
		out[i] = sexp.T("a", sexp.Str(a.Name), a.Type.sexp())
	}
	return sexp.T(tag, out...)
}

func (f fieldDesc) sexp() sexp.Node {
	return sexp.T("f", sexp.Str(f.Name), f.Type.sexp(), argsSexp("args", f.Args), reqSexp(f.Req), sexp.Bool(f.Dep), sexp.T("ret", sexp.Str(f.Ret)))
}

func (t typeDesc) sexp() sexp.Node {
	switch t.Kind {
	case "scalar":
		return sexp.T("scalar", sexp.Str(t.Name), reqSexp(t.Req))
	case "enum":
		vs := make([]sexp.Node, len(t.Values))
		for i, v := range t.Values {
			vs[i] = sexp.L(sexp.Str(v.Name), sexp.Bool(v.Dep))
		}
		return sexp.T("enum", sexp.Str(t.Name), reqSexp(t.Req), sexp.T("values", vs...))
	case "input":
		return sexp.T("input", sexp.Str(t.Name), reqSexp(t.Req), argsSexp("fields", t.Inputs))
	case "object", "interface":
		fs := make([]sexp.Node, len(t.Fields))
		for i, f := range t.Fields {
			fs[i] = f.sexp()
		}
		if t.Kind == "object" {
			return sexp.T("object", sexp.Str(t.Name), reqSexp(t.Req), sexp.T("fields", fs...), sexp.T("ifaces", strs(t.Ifaces)...))
		}
		return sexp.T("interface", sexp.Str(t.Name), reqSexp(t.Req), sexp.T("fields", fs...))
	case "union":
		return sexp.T("union", sexp.Str(t.Name), reqSexp(t.Req), sexp.T("members", strs(t.Members)...))
	}
	panic("bad kind " + t.Kind)
}

func optName(s string) sexp.Node {
	if s == "" {
		return sexp.None()
	}
	return sexp.Some(sexp.Str(s))
}

func (d *desc) sexp() sexp.Node {
	ts := make([]sexp.Node, len(d.Types))
	for i, t := range d.Types {
		ts[i] = t.sexp()
	}
	ds := make([]sexp.Node, len(d.Directives))
	for i, x := range d.Directives {
		ds[i] = sexp.T("d", sexp.Str(x.Name), argsSexp("args", x.Args))
	}
	return sexp.T("schema", sexp.T("types", ts...), sexp.T("query", sexp.Str(d.Query)), sexp.T("mutation", optName(d.Mutation)),
		sexp.T("subscription", optName(d.Subscription)), sexp.T("directives", ds...), sexp.T("additional", strs(d.Additional)...))
}

// ---- feature sets ----

func subset(a, b []string) bool {
	for _, x := range a {
		ok := false
		for _, y := range b {
			if x == y {
				ok = true
				break
			}
		}
		if !ok {
			return false
		}
	}
	return true
}

func union(a, b []string) []string {
	out := append([]string(nil), a...)
	for _, y := range b {
		if !subset([]string{y}, out) {
			out = append(out, y)
		}
	}
	sort.Strings(out)
	return out
}

// ---- the harness's own erasure (written independently of coq/Feat/FeaturesSpec.v: the check
// compares the two) ----
//
// What a request with feature set F may see: the types whose requirements are within F; of an
// object or interface the fields whose requirements are within F; of an object the implemented
// interfaces that are still there; of a union the members that are still there; a root operation
// type only if it is still there.
func erase(d *desc, F []string) *desc {
	alive := map[string]bool{}
	for _, t := range d.Types {
		if subset(t.Req, F) {
			alive[t.Name] = true
		}
	}
	out := &desc{Query: d.Query, Directives: d.Directives}
	if alive[d.Mutation] {
		out.Mutation = d.Mutation
	}
	if alive[d.Subscription] {
		out.Subscription = d.Subscription
	}
	for _, t := range d.Types {
		if !alive[t.Name] {
			continue
		}
		u := typeDesc{Kind: t.Kind, Name: t.Name, Req: t.Req, Values: t.Values, Inputs: t.Inputs}
		for _, f := range t.Fields {
			if subset(f.Req, F) {
				u.Fields = append(u.Fields, f)
			}
		}
		for _, i := range t.Ifaces {
			if alive[i] {
				u.Ifaces = append(u.Ifaces, i)
			}
		}
		for _, m := range t.Members {
			if alive[m] {
				u.Members = append(u.Members, m)
			}
		}
		out.Types = append(out.Types, u)
	}
	for _, a := range d.Additional {
		if alive[a] {
			out.Additional = append(out.Additional, a)
		}
	}
	return out
}

// the types schema.New reaches from the directives and root types alone (schema/inspect.go):
// everything else has to be listed in AdditionalTypes to be part of the schema
func (d *desc) reachable(extra []string) map[string]bool {
	seen := map[string]bool{}
	var visit func(n string)
	visit = func(n string) {
		if n == "" || seen[n] {
			return
		}
		t := d.typ(n)
		if t == nil {
			return
		}
		seen[n] = true
		for _, f := range t.Fields {
			visit(f.Type.Name)
			for _, a := range f.Args {
				visit(a.Type.Name)
			}
		}
		for _, a := range t.Inputs {
			visit(a.Type.Name)
		}
		for _, i := range t.Ifaces {
			visit(i)
		}
		for _, m := range t.Members {
			visit(m)
		}
	}
	for _, dd := range d.Directives {
		for _, a := range dd.Args {
			visit(a.Type.Name)
		}
	}
	visit(d.Query)
	visit(d.Mutation)
	visit(d.Subscription)
	for _, a := range extra {
		visit(a)
	}
	return seen
}

// after an edit of the description: list whatever has become unreachable
func (d *desc) completeAdditional() {
	for {
		seen := d.reachable(d.Additional)
		missing := ""
		for _, t := range d.Types {
			if !seen[t.Name] {
				missing = t.Name
				break
			}
		}
		if missing == "" {
			return
		}
		d.Additional = append(d.Additional, missing)
	}
}

func (d *desc) allTypeNames() []string {
	var out []string
	for _, t := range d.Types {
		out = append(out, t.Name)
	}
	return out
}
