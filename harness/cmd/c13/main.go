// c13: a request without a feature must not be able to tell the schema from one in which every
// element requiring that feature was physically deleted.
//
// Every case: a schema description S (types and fields carrying required-feature sets), whether the
// real schema.New accepts it, a request feature set F, the harness's own erased description
// erase(S,F), and a batch of requests each run twice through the real code —
//
//	side a: the schema built from S,          Request.Features = F
//	side b: the schema built from erase(S,F), Request.Features = every feature
//
// with what came back on each side: validation verdict, response (ordered data, error paths and
// locations), resolver call log; for introspection probes also the structured listing, for chains
// the error lines and the value at the end of the chain.
package main

import (
	"encoding/json"
	"fmt"
	"sort"
	"strings"

	"github.com/ccbrown/api-fu/graphql"
	"github.com/ccbrown/api-fu/graphql/schema/introspection"

	"verifharness/internal/hx"
	"verifharness/internal/rng"
	"verifharness/internal/sexp"
)

type request struct {
	kind  string
	query string
	vars  map[string]interface{}
	names []string    // introspect: probed names
	chain []chainNode // chain
	tags  []string
	sdoc  *sdocument // sdoc
}

func (rq *request) observe(s *side) sexp.Node {
	o := s.run(rq.query, rq.vars)
	switch rq.kind {
	case "introspect":
		return sexp.L(o.sexp(true, true), o.probeSexp(rq.names))
	case "stdintro":
		return sexp.L(o.sexp(true, false))
	case "chain":
		return sexp.L(o.sexp(true, false), sexp.T("lines", o.errorLines().List...), sexp.T("final", o.chainFinal(chainKeys(rq.chain))))
	case "sdoc", "ssub":
		return sexp.L(o.sexp(true, false), sexp.T("lines", o.errorLines().List...), o.tree(rq.sdoc.tkeys))
	}
	return sexp.L(o.sexp(true, false))
}

func (rq *request) sexp(a, b *side) sexp.Node {
	items := []sexp.Node{sexp.T("kind", sexp.Sym(rq.kind))}
	switch rq.kind {
	case "introspect": // the query text is probeQuery(names)
		items = append(items, sexp.T("names", strs(rq.names)...))
	case "stdintro": // the query text is introspection.Query
	case "chain":
		items = append(items, sexp.T("query", sexp.Str(rq.query)), sexp.T("chain", chainSexp(rq.chain).List...))
	case "sdoc":
		items = append(items, sexp.T("query", sexp.Str(rq.query)), rq.sdoc.sexp())
	case "ssub": // every source stream of the apifu schema delivers two events
		items = append(items, sexp.T("query", sexp.Str(rq.query)), rq.sdoc.sexp(), sexp.T("events", sexp.Int(2)))
	case "doc":
		items = append(items, sexp.T("query", sexp.Str(rq.query)), sexp.T("vars", sexp.Str(varsJSON(rq.vars))), sexp.T("tags", strs(rq.tags)...))
	}
	items = append(items, sexp.T("a", rq.observe(a).List...), sexp.T("b", rq.observe(b).List...))
	return sexp.T("req", items...)
}

func varsJSON(v map[string]interface{}) string {
	b, _ := json.Marshal(v) // encoding/json sorts map keys
	return string(b)
}

func probeNames(d *desc) []string {
	var names []string
	for _, t := range d.Types {
		names = append(names, t.Name)
	}
	sort.Strings(names)
	return append(names, "Nope", "__Type")
}

func runCase(kind, note string, d *desc, F []string, mk func() []*request) sexp.Node {
	head := []sexp.Node{sexp.T("kind", sexp.Sym(kind)), sexp.T("note", sexp.Str(note)), d.sexp(), sexp.T("features", strs(F)...), sexp.T("all", strs(alphabet)...)}
	logA, logB := &calls{}, &calls{}
	sa, err := build(d, logA, false)
	if err != nil {
		return sexp.T("case", append(head, sexp.T("accepted", sexp.Bool(false)))...)
	}
	if len(sa.NamedTypes()) != len(d.Types) {
		panic(fmt.Sprintf("description lists %d types, schema registered %d: AdditionalTypes incomplete", len(d.Types), len(sa.NamedTypes())))
	}
	head = append(head, sexp.T("accepted", sexp.Bool(true)))
	e := erase(d, F)
	head = append(head, sexp.T("erased", e.sexp()))
	sb, err := build(e, logB, true)
	if err != nil {
		// the reduced schema cannot be built (or not even be expressed: something that survived still
		// refers to a deleted type) — the model classifies why
		return sexp.T("case", append(head, sexp.T("erased-rejected", sexp.Str(err.Error())))...)
	}
	a := &side{schema: sa, features: graphql.NewFeatureSet(F...), log: logA}
	b := &side{schema: sb, features: graphql.NewFeatureSet(alphabet...), log: logB}
	reqs := mk()
	rs := make([]sexp.Node, len(reqs))
	for i, rq := range reqs {
		rs[i] = rq.sexp(a, b)
	}
	head = append(head, sexp.T("requests", rs...))
	// side c: the reduced definition handed to schema.New as it is (only its own AdditionalTypes):
	// when that registers fewer types than the reduced description lists, a type that needs no
	// feature was referenced only by deleted elements
	logC := &calls{}
	if sc, err := build(e, logC, false); err == nil && len(sc.NamedTypes()) != len(e.Types) {
		c := &side{schema: sc, features: graphql.NewFeatureSet(alphabet...), log: logC}
		var reg []string
		for n := range sc.NamedTypes() {
			reg = append(reg, n)
		}
		sort.Strings(reg)
		rq := reqs[0] // the introspection probe
		head = append(head, sexp.T("physical", sexp.T("names", strs(rq.names)...), sexp.T("registered", strs(reg)...),
			sexp.T("a", rq.observe(a).List...), sexp.T("c", rq.observe(c).List...)))
	}
	return sexp.T("case", head...)
}

// the apifu route (see apifu.go)
func runApifuCase(F []string, route string) sexp.Node {
	subs := strings.HasSuffix(route, "+subscriptions")
	hook := strings.HasSuffix(route, "+init-hook")
	proto := strings.TrimSuffix(strings.TrimSuffix(route, "+subscriptions"), "+init-hook")
	ws := proto == "graphql-ws" || proto == "graphql-transport-ws"
	d := apifuDesc(subs)
	e := erase(d, F)
	head := []sexp.Node{sexp.T("kind", sexp.Sym("apifu")), sexp.T("note", sexp.Str(route)), d.sexp(), sexp.T("features", strs(F)...),
		sexp.T("all", strs(alphabet)...)}
	hasAll := func(...string) bool { return true }
	hasF := func(req ...string) bool { return subset(req, F) }
	all := graphql.NewFeatureSet(alphabet...)
	logA, logB, logC := &calls{}, &calls{}, &calls{}
	apiA, err := apifuAPI(hasAll, false, subs, logA)
	if err != nil {
		return sexp.T("case", append(head, sexp.T("accepted", sexp.Bool(false)))...)
	}
	head = append(head, sexp.T("accepted", sexp.Bool(true)), sexp.T("erased", e.sexp()))
	apiB, err := apifuAPI(hasF, true, subs, logB)
	if err != nil {
		return sexp.T("case", append(head, sexp.T("erased-rejected", sexp.Str(err.Error())))...)
	}
	a := &side{api: apiA, features: graphql.NewFeatureSet(F...), log: logA, persisted: route == "http-persisted"}
	b := &side{api: apiB, features: all, log: logB, persisted: route == "http-persisted"}
	if ws {
		// with subscriptions: the environment changes right after the connection is acknowledged (side
		// a: to every feature, or to none when it had them all; side b: to none) — the code takes
		// Config.Features once, at connection_init, for the whole connection
		var laterA, laterB *graphql.FeatureSet
		if subs {
			none := graphql.NewFeatureSet()
			laterA, laterB = &all, &none
			if len(F) == len(alphabet) {
				laterA = &none
			}
		}
		// with the init hook: the request context grants nothing; the features come from the payload of
		// connection_init (Config.HandleGraphQLWSInit stores them in the context it returns, Config.Features
		// reads them there).  Two inits: the first grants the OTHER side's set, the second this side's —
		// the connection must run with what the LATEST init granted
		var initsA, initsB [][]string
		featA, featB := a.features, b.features
		if hook {
			initsA, initsB = [][]string{alphabet, F}, [][]string{{}, alphabet}
			featA, featB = graphql.NewFeatureSet(), graphql.NewFeatureSet()
		}
		a.ws, b.ws = openWS(apiA, featA, proto, laterA, initsA), openWS(apiB, featB, proto, laterB, initsB)
		defer a.ws.close()
		defer b.ws.close()
	}
	names := probeNames(d)
	reqs := []*request{{kind: "introspect", query: probeQuery(names), names: names}, {kind: "stdintro", query: string(introspection.Query)}}
	for _, q := range apifuDocs {
		rq := &request{kind: "doc", query: q, tags: []string{"apifu"}}
		if q[0] == 'q' {
			rq.vars = map[string]interface{}{"n": 1}
		}
		reqs = append(reqs, rq)
	}
	if subs {
		for _, q := range apifuSubscriptionDocs {
			reqs = append(reqs, &request{kind: "doc", query: q, tags: []string{"apifu", "subscription"}})
		}
		for _, sd := range subscriptionDocs() {
			reqs = append(reqs, &request{kind: "ssub", query: sd.text, sdoc: sd})
		}
	}
	rs := make([]sexp.Node, len(reqs))
	for i, rq := range reqs {
		rs[i] = rq.sexp(a, b)
	}
	head = append(head, sexp.T("requests", rs...))
	// what happened on side a, for the plumbing model: the environment, connection_init, operations
	{
		env := func(f graphql.FeatureSet) sexp.Node {
			var xs []string
			for _, x := range alphabet {
				if f.Has(x) {
					xs = append(xs, x)
				}
			}
			return sexp.T("env", strs(xs)...)
		}
		hist := []sexp.Node{env(a.features)}
		transport := "http"
		if ws && hook {
			transport = "ws"
			hist = []sexp.Node{env(graphql.NewFeatureSet()), sexp.T("init-with", strs(alphabet)...), sexp.T("init-with", strs(F)...)}
		} else if ws {
			transport = "ws"
			hist = append(hist, sexp.T("init"))
			if subs {
				hist = append(hist, env(all)) // laterA (F never holds every feature here)
			}
		}
		for range reqs {
			hist = append(hist, sexp.T("op"))
		}
		head = append(head, sexp.T("plumbing", sexp.T("transport", sexp.Sym(transport)), sexp.T("history", hist...)))
	}
	{
		// side c: the Config a developer writes without the elements F does not cover, with only its
		// own AdditionalTypes — it does not mention PageInfo / DateTime when nothing left refers to them
		apiC, err := apifuAPI(hasF, false, subs, logC)
		if err != nil {
			panic(err)
		}
		c := &side{api: apiC, features: all, log: logC}
		if ws {
			c.ws = openWS(apiC, all, proto, nil, nil)
			defer c.ws.close()
		}
		o := c.run("{ __schema { types { name } } }", nil)
		var reg []string
		sc, _ := o.data.get("__schema")
		ts, _ := sc.get("types")
		for _, t := range ts.vals {
			if !strings.HasPrefix(t.str("name"), "__") {
				reg = append(reg, t.str("name"))
			}
		}
		sort.Strings(reg)
		if len(reg) != len(e.Types) {
			head = append(head, sexp.T("physical", sexp.T("names", strs(names)...), sexp.T("registered", strs(reg)...),
				sexp.T("a", reqs[0].observe(a).List...), sexp.T("c", reqs[0].observe(c).List...)))
		}
	}
	return sexp.T("case", head...)
}

func randomRequests(r *rng.R, d *desc, std bool, nChains, nDocs, nSdocs int) []*request {
	names := probeNames(d)
	reqs := []*request{{kind: "introspect", query: probeQuery(names), names: names}}
	if std {
		reqs = append(reqs, &request{kind: "stdintro", query: string(introspection.Query)})
	}
	for i := 0; i < nChains; i++ {
		c := genChain(r, d)
		reqs = append(reqs, &request{kind: "chain", query: chainText(c), chain: c})
	}
	for i := 0; i < nDocs; i++ {
		q, vars, tags := genDoc(r, d)
		reqs = append(reqs, &request{kind: "doc", query: q, vars: vars, tags: tags})
	}
	for i := 0; i < nSdocs; i++ {
		sd := genSdoc(r, d)
		reqs = append(reqs, &request{kind: "sdoc", query: sd.text, sdoc: sd})
	}
	return reqs
}

func min(a, b int) int {
	if a < b {
		return a
	}
	return b
}

func subsetsOf(xs []string) [][]string {
	out := [][]string{nil}
	for _, x := range xs {
		for _, s := range out[:len(out):len(out)] {
			out = append(out, append(append([]string(nil), s...), x))
		}
	}
	return out
}

func main() {
	hx.Main(func(h *hx.H) {
		// 1. the hand-written witness schemas under every feature set over their features, with their
		// hand-written requests plus a few generated ones
		for _, w := range witnesses() {
			for _, F := range subsetsOf(w.feats) {
				w, F := w, F
				h.Case(func(r *rng.R) sexp.Node {
					d := w.make()
					return runCase("witness", w.name, d, F, func() []*request {
						reqs := randomRequests(r, d, true, 4, 3, 6)
						for _, c := range w.chains {
							reqs = append(reqs, &request{kind: "chain", query: chainText(c), chain: c})
						}
						for _, q := range w.docs {
							reqs = append(reqs, &request{kind: "doc", query: q, tags: []string{"handwritten"}})
						}
						return reqs
					})
				})
			}
		}
		// 1a. bounded-exhaustive: every well-formed chain of at most 3 (thorough: 4) nodes over the names of
		// each witness schema, under every feature set, in batches
		maxLen := 3
		if h.Thorough() {
			maxLen = 4
		}
		for _, w := range witnesses() {
			all := enumChains(w.make(), maxLen)
			for _, F := range subsetsOf(w.feats) {
				for lo := 0; lo < len(all); lo += 150 {
					w, F, batch := w, F, all[lo:min(lo+150, len(all))]
					h.Case(func(*rng.R) sexp.Node {
						d := w.make()
						return runCase("exhaustive", w.name, d, F, func() []*request {
							names := probeNames(d)
							reqs := []*request{{kind: "introspect", query: probeQuery(names), names: names}}
							for _, c := range batch {
								reqs = append(reqs, &request{kind: "chain", query: chainText(c), chain: c})
							}
							return reqs
						})
					})
				}
			}
		}
		// 1b. the apifu route: Config.Features plumbing, a gated apifu.Connection
		for _, F := range subsetsOf([]string{"fa", "fb"}) {
			F := F
			h.Case(func(*rng.R) sexp.Node { return runApifuCase(F, "http") })
			h.Case(func(*rng.R) sexp.Node { return runApifuCase(F, "graphql-ws") })
		}
		// 2. random schemas obeying the construction rules
		n, nh := 1500, 1800
		if h.Thorough() {
			n, nh = 20000, 10000
		}
		for i := 0; i < n; i++ {
			i := i
			h.Case(func(r *rng.R) sexp.Node {
				d := genDesc(r)
				F := randSubset(r, alphabet)
				return runCase("random", "", d, F, func() []*request { return randomRequests(r, d, i%6 == 0, 6, 5, 4) })
			})
		}
		// 3. hostile stream: one edit aimed at a construction rule
		for i := 0; i < nh; i++ {
			h.Case(func(r *rng.R) sexp.Node {
				d := genDesc(r)
				what := mutate(r, d)
				if r.Chance(1, 4) {
					what += "+" + mutate(r, d)
				}
				d.completeAdditional()
				F := randSubset(r, alphabet)
				return runCase("hostile", what, d, F, func() []*request { return randomRequests(r, d, false, 2, 2, 2) })
			})
		}
		// 4. the other routes of the feature-set plumbing: a persisted query registered by a request
		// with every feature and replayed by hash with F (api.go, PersistedQueryExtension), and the
		// graphql-transport-ws subprotocol of ServeGraphQLWS
		for _, F := range subsetsOf([]string{"fa", "fb"}) {
			F := F
			h.Case(func(*rng.R) sexp.Node { return runApifuCase(F, "http-persisted") })
			h.Case(func(*rng.R) sexp.Node { return runApifuCase(F, "graphql-transport-ws") })
		}
		// 5. subscriptions over both WebSocket subprotocols, the answer of Config.Features changing
		// after connection_init
		for _, F := range subsetsOf([]string{"fa", "fb"}) {
			F := F
			h.Case(func(*rng.R) sexp.Node { return runApifuCase(F, "graphql-ws+subscriptions") })
			h.Case(func(*rng.R) sexp.Node { return runApifuCase(F, "graphql-transport-ws+subscriptions") })
		}
		// 6. the features of a WebSocket connection granted by the connection_init payload through
		// Config.HandleGraphQLWSInit, two inits in a row
		for _, F := range subsetsOf([]string{"fa", "fb"}) {
			F := F
			h.Case(func(*rng.R) sexp.Node { return runApifuCase(F, "graphql-ws+init-hook") })
			h.Case(func(*rng.R) sexp.Node { return runApifuCase(F, "graphql-transport-ws+init-hook") })
		}
	})
}
