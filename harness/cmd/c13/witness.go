// Hand-written schemas around the places where the pinned tree let a gated element show.
package main

type witness struct {
	name   string
	feats  []string
	make   func() *desc
	chains [][]chainNode
	docs   []string
}

func scalars() []typeDesc {
	var out []typeDesc
	for _, s := range []string{"Int", "String", "Boolean", "ID", "Float"} {
		out = append(out, typeDesc{Kind: "scalar", Name: s})
	}
	return out
}

func stdDirectives() []dirDesc {
	return []dirDesc{{Name: "include", Args: []argDesc{{"if", tref{"Boolean", "N"}}}}, {Name: "skip", Args: []argDesc{{"if", tref{"Boolean", "N"}}}}}
}

func f(name, typ string) fieldDesc { return fieldDesc{Name: name, Type: tref{typ, ""}} }

func ch(parts ...string) []chainNode {
	var out []chainNode
	for _, p := range parts {
		switch {
		case p == "__typename":
			out = append(out, chainNode{'t', ""})
		case len(p) > 3 && p[:3] == "on ":
			out = append(out, chainNode{'g', p[3:]})
		default:
			out = append(out, chainNode{'f', p})
		}
	}
	return out
}

func witnesses() []witness {
	return []witness{
		{
			// I and J share only the gated implementation G; A also implements the gated interface GI
			name: "gated-implementation", feats: []string{"fa"},
			make: func() *desc {
				d := &desc{Query: "Query", Directives: stdDirectives(), Types: scalars()}
				ri := f("i", "I")
				ri.Ret = "G"
				rj := f("j", "J")
				rj.Ret = "B"
				ra := f("a", "I")
				ra.Ret = "A"
				rg := f("g", "G")
				rg.Ret, rg.Req = "G", []string{"fa"}
				d.Types = append(d.Types,
					typeDesc{Kind: "interface", Name: "I", Fields: []fieldDesc{f("x", "Int")}},
					typeDesc{Kind: "interface", Name: "J", Fields: []fieldDesc{f("y", "Int")}},
					typeDesc{Kind: "interface", Name: "GI", Req: []string{"fa"}, Fields: []fieldDesc{f("x", "Int")}},
					typeDesc{Kind: "object", Name: "G", Req: []string{"fa"}, Ifaces: []string{"I", "J"}, Fields: []fieldDesc{f("x", "Int"), f("y", "Int")}},
					typeDesc{Kind: "object", Name: "A", Ifaces: []string{"I", "GI"}, Fields: []fieldDesc{f("x", "Int")}},
					typeDesc{Kind: "object", Name: "B", Ifaces: []string{"J"}, Fields: []fieldDesc{f("y", "Int")}},
					typeDesc{Kind: "object", Name: "Query", Fields: []fieldDesc{ri, rj, ra, rg}},
				)
				d.Additional = d.allTypeNames()
				return d
			},
			chains: [][]chainNode{
				ch("i", "on J", "y"), ch("i", "x"), ch("i", "__typename"), ch("i", "on G", "x"), ch("j", "on I", "x"),
				ch("a", "on GI", "x"), ch("a", "on A", "x"), ch("g", "x"), ch("j", "on G", "__typename"),
			},
			docs: []string{
				`{ i { ... on J { y } x } j { ... on I { x } y } }`,
				`{ a { ...F } } fragment F on GI { x }`,
				`{ __type(name: "G") { name kind fields { name } interfaces { name } } }`,
				`{ __type(name: "I") { possibleTypes { name } } }`,
				`{ __type(name: "A") { interfaces { name } } }`,
			},
		},
		{
			// gated union, enum, input object and custom scalar; gated fields exposing them
			name: "gated-leaves", feats: []string{"fa", "fb"},
			make: func() *desc {
				d := &desc{Query: "Query", Directives: stdDirectives(), Types: scalars()}
				ru := f("u", "U")
				ru.Ret, ru.Req = "O", []string{"fa"}
				re := fieldDesc{Name: "e", Type: tref{"E", "N"}, Req: []string{"fb"}, Args: []argDesc{{"in", tref{"In", ""}}, {"e", tref{"E", "L"}}}}
				rs := fieldDesc{Name: "s", Type: tref{"Cs", ""}, Req: []string{"fa", "fb"}}
				ro := f("o", "O")
				ro.Ret = "O"
				d.Types = append(d.Types,
					typeDesc{Kind: "scalar", Name: "Cs", Req: []string{"fa", "fb"}},
					typeDesc{Kind: "enum", Name: "E", Req: []string{"fb"}, Values: []enumVal{{"V0", false}, {"V1", true}}},
					typeDesc{Kind: "input", Name: "In", Req: []string{"fb"}, Inputs: []argDesc{{"x", tref{"E", ""}}, {"n", tref{"Int", ""}}}},
					typeDesc{Kind: "object", Name: "O", Fields: []fieldDesc{f("name", "String"), {Name: "old", Type: tref{"Int", ""}, Dep: true}, {Name: "ge", Type: tref{"E", ""}, Req: []string{"fb"}}}},
					typeDesc{Kind: "union", Name: "U", Req: []string{"fa"}, Members: []string{"O"}},
					typeDesc{Kind: "object", Name: "Query", Fields: []fieldDesc{ru, re, rs, ro}},
				)
				d.Additional = d.allTypeNames()
				return d
			},
			chains: [][]chainNode{ch("u", "on O", "name"), ch("u", "__typename"), ch("o", "on U", "__typename"), ch("o", "ge"), ch("e"), ch("s")},
			docs: []string{
				`query($v: In, $e: [E]) { e(in: $v, e: $e) }`,
				`query($v: Cs) { o { name } }`,
				`{ e(in: {x: V0, n: 1}, e: [V1]) o { ge old } }`,
				`{ __type(name: "E") { enumValues(includeDeprecated: true) { name } } i: __type(name: "In") { inputFields { name type { name } } } }`,
			},
		},
		{
			// T needs no feature, but only the gated field Query.g refers to it (the shape of a gated
			// apifu.Connection, whose PageInfo type is shared and ungated): known finding
			// orphaned-type-stays-visible
			name: "orphaned-type", feats: []string{"fa"},
			make: func() *desc {
				d := &desc{Query: "Query", Directives: stdDirectives(), Types: scalars()}
				rg := f("g", "T")
				rg.Ret, rg.Req = "T", []string{"fa"}
				d.Types = append(d.Types,
					typeDesc{Kind: "object", Name: "T", Fields: []fieldDesc{f("n", "Int")}},
					typeDesc{Kind: "object", Name: "Query", Fields: []fieldDesc{f("ping", "Int"), rg}},
				)
				d.Additional = []string{"String", "ID", "Float"}
				return d
			},
			chains: [][]chainNode{ch("g", "n"), ch("on T", "n"), ch("ping")},
			docs:   []string{`{ __type(name: "T") { name fields { name } } }`, `{ __schema { types { name } } }`},
		},
	}
}
