// Building a real api-fu schema from a description.  Resolvers are determined by the description
// entry of their field alone (so a field that survives erasure behaves identically in both schemas)
// and log every invocation.
package main

import (
	"fmt"
	"sync"

	"github.com/ccbrown/api-fu/graphql"
	"github.com/ccbrown/api-fu/graphql/ast"
	"github.com/ccbrown/api-fu/graphql/schema"
)

type node struct{ tag string }

// the resolver call log (written by the goroutine serving the request, read by the harness afterwards)
type calls struct {
	mu  sync.Mutex
	log []string
}

func (c *calls) add(k string) {
	c.mu.Lock()
	c.log = append(c.log, k)
	c.mu.Unlock()
}

// take returns the log so far and empties it
func (c *calls) take() []string {
	c.mu.Lock()
	defer c.mu.Unlock()
	out := c.log
	c.log = nil
	return out
}

var builtinScalars = map[string]*graphql.ScalarType{
	"Int": graphql.IntType, "String": graphql.StringType, "Boolean": graphql.BooleanType, "ID": graphql.IDType, "Float": graphql.FloatType,
}

type builder struct {
	d     *desc
	named map[string]graphql.NamedType
	log   *calls
}

type inexpressible string

func (e inexpressible) Error() string { return "inexpressible: " + string(e) }

func (b *builder) ref(t tref) graphql.Type {
	var out graphql.Type
	if nt, ok := b.named[t.Name]; ok {
		out = nt
	} else {
		panic(inexpressible("dangling reference to " + t.Name))
	}
	for i := len(t.Wrap) - 1; i >= 0; i-- {
		if t.Wrap[i] == 'L' {
			out = graphql.NewListType(out)
		} else {
			out = graphql.NewNonNullType(out)
		}
	}
	return out
}

func (b *builder) args(as []argDesc) map[string]*graphql.InputValueDefinition {
	if len(as) == 0 {
		return nil
	}
	out := map[string]*graphql.InputValueDefinition{}
	for _, a := range as {
		out[a.Name] = &graphql.InputValueDefinition{Type: b.ref(a.Type)}
	}
	return out
}

// value a resolver returns for a field of type t
func (b *builder) value(t tref, ret string) interface{} {
	var v interface{}
	td := b.d.typ(t.Name)
	kind := "scalar"
	if td != nil {
		kind = td.Kind
	}
	switch kind {
	case "scalar":
		switch t.Name {
		case "Int":
			v = 7
		case "Float":
			v = 1.5
		case "Boolean":
			v = true
		default:
			v = "s"
		}
	case "enum":
		v = "none"
		if len(td.Values) > 0 {
			v = td.Values[0].Name
		}
	default:
		v = &node{tag: ret}
	}
	for i := len(t.Wrap) - 1; i >= 0; i-- {
		if t.Wrap[i] == 'L' {
			v = []interface{}{v}
		}
	}
	return v
}

func (b *builder) fields(owner string, fs []fieldDesc, resolvers bool) map[string]*graphql.FieldDefinition {
	out := map[string]*graphql.FieldDefinition{}
	for _, f := range fs {
		f := f
		def := &graphql.FieldDefinition{Type: b.ref(f.Type), Arguments: b.args(f.Args), RequiredFeatures: graphql.NewFeatureSet(f.Req...)}
		if f.Dep {
			def.DeprecationReason = "old"
		}
		if resolvers {
			val := b.value(f.Type, f.Ret)
			key := owner + "." + f.Name
			def.Resolve = func(graphql.FieldContext) (interface{}, error) {
				b.log.add(key)
				return val, nil
			}
		}
		out[f.Name] = def
	}
	return out
}

// build returns the schema or schema.New's refusal.  A description that cannot even be expressed as
// Go values (a dangling reference, a missing query type) is reported as an `inexpressible` error.
//
// registerAll: list every described type in AdditionalTypes (the registry of the schema is then
// exactly the description's type list); otherwise only d.Additional, as a developer would, and
// schema.New registers what it reaches.
func build(d *desc, log *calls, registerAll bool) (s *graphql.Schema, err error) {
	defer func() {
		if e := recover(); e != nil {
			if ie, ok := e.(inexpressible); ok {
				s, err = nil, ie
				return
			}
			panic(e)
		}
	}()
	b := &builder{d: d, named: map[string]graphql.NamedType{}, log: log}
	// shells
	for i := range d.Types {
		t := &d.Types[i]
		req := graphql.NewFeatureSet(t.Req...)
		switch t.Kind {
		case "scalar":
			if s, ok := builtinScalars[t.Name]; ok {
				b.named[t.Name] = s
			} else {
				b.named[t.Name] = &graphql.ScalarType{Name: t.Name, RequiredFeatures: req,
					LiteralCoercion: func(v ast.Value) interface{} {
						if s, ok := v.(*ast.StringValue); ok {
							return s.Value
						}
						return nil
					},
					VariableValueCoercion: func(v interface{}) interface{} {
						if s, ok := v.(string); ok {
							return s
						}
						return nil
					},
					ResultCoercion: func(v interface{}) interface{} { return v },
				}
			}
		case "enum":
			vals := map[string]*graphql.EnumValueDefinition{}
			for _, v := range t.Values {
				ev := &graphql.EnumValueDefinition{Value: v.Name}
				if v.Dep {
					ev.DeprecationReason = "old"
				}
				vals[v.Name] = ev
			}
			b.named[t.Name] = &graphql.EnumType{Name: t.Name, RequiredFeatures: req, Values: vals}
		case "input":
			b.named[t.Name] = &graphql.InputObjectType{Name: t.Name, RequiredFeatures: req}
		case "object":
			name := t.Name
			b.named[t.Name] = &graphql.ObjectType{Name: t.Name, RequiredFeatures: req,
				IsTypeOf: func(v interface{}) bool { n, ok := v.(*node); return ok && n.tag == name }}
		case "interface":
			b.named[t.Name] = &graphql.InterfaceType{Name: t.Name, RequiredFeatures: req}
		case "union":
			b.named[t.Name] = &graphql.UnionType{Name: t.Name, RequiredFeatures: req}
		default:
			panic("bad kind")
		}
	}
	// bodies
	for i := range d.Types {
		t := &d.Types[i]
		switch x := b.named[t.Name].(type) {
		case *graphql.InputObjectType:
			x.Fields = map[string]*graphql.InputValueDefinition{}
			for _, a := range t.Inputs {
				x.Fields[a.Name] = &graphql.InputValueDefinition{Type: b.ref(a.Type)}
			}
		case *graphql.ObjectType:
			x.Fields = b.fields(t.Name, t.Fields, true)
			for _, in := range t.Ifaces {
				it, ok := b.named[in].(*graphql.InterfaceType)
				if !ok {
					panic(inexpressible("not an interface: " + in))
				}
				x.ImplementedInterfaces = append(x.ImplementedInterfaces, it)
			}
		case *graphql.InterfaceType:
			x.Fields = b.fields(t.Name, t.Fields, false)
		case *graphql.UnionType:
			for _, m := range t.Members {
				ot, ok := b.named[m].(*graphql.ObjectType)
				if !ok {
					panic(inexpressible("not an object: " + m))
				}
				x.MemberTypes = append(x.MemberTypes, ot)
			}
		}
	}
	def := &graphql.SchemaDefinition{Directives: map[string]*graphql.DirectiveDefinition{}}
	root := func(n string) *graphql.ObjectType {
		if n == "" {
			return nil
		}
		o, ok := b.named[n].(*graphql.ObjectType)
		if !ok {
			panic(inexpressible("root is not an object: " + n))
		}
		return o
	}
	def.Query, def.Mutation, def.Subscription = root(d.Query), root(d.Mutation), root(d.Subscription)
	for _, dd := range d.Directives {
		switch dd.Name {
		case "include":
			def.Directives["include"] = graphql.IncludeDirective
		case "skip":
			def.Directives["skip"] = graphql.SkipDirective
		default:
			def.Directives[dd.Name] = &graphql.DirectiveDefinition{Arguments: b.args(dd.Args),
				Locations: []schema.DirectiveLocation{schema.DirectiveLocationField}}
		}
	}
	add := d.Additional
	if registerAll {
		add = d.allTypeNames()
	}
	for _, n := range add {
		nt, ok := b.named[n]
		if !ok {
			panic(inexpressible("additional type is not described: " + n))
		}
		def.AdditionalTypes = append(def.AdditionalTypes, nt)
	}
	s, err = graphql.NewSchema(def)
	if err != nil {
		return nil, err
	}
	if registerAll && len(s.NamedTypes()) != len(d.Types) {
		panic(fmt.Sprintf("description lists %d types, schema registered %d", len(d.Types), len(s.NamedTypes())))
	}
	return s, nil
}
