package main

import (
	"verifharness/internal/hx"
	"verifharness/internal/rng"
)

var corpusDocs = []string{
	`{i}`,
	`{oa(x:1){arg(x:1,x:2)}}`,
	`{oa(x:1){req}}`,
	`{alpha @include(if:true){i @include(if:true) @include(if:true)}}`,
	`{...F ...F} fragment F on Query {i}`,
	`{...F ...G} fragment F on Query {i} fragment G on Query {...F}`,
	`{arg(x:1) arg(y:1)}`,
	`{i {... on Query {i}}}`,
	`{alpha{...F} alpha{...F}} fragment F on Alpha {oa{...F}}`,
	`query($v: Alpha = 1){i}`,
	`query($v:Int){cmp(ins:{r:$v}, b:true)}`,
	`{a:i a:s b:i b:s}`,
}

func generate(h *hx.H) {
	fixed := rng.New(12345)
	w0 := buildWorld(fixed, false)
	for _, src := range corpusDocs {
		src := src
		emit(h, func(*rng.R) docCase { return docCase{W: w0, Src: src, Intent: "any", Tag: "corpus"} })
	}
	n := 300
	for i := 0; i < n; i++ {
		emit(h, func(r *rng.R) docCase {
			w := buildWorld(r.Fork(1), false)
			d := genValid(w, r.Fork(2), 12)
			return docCase{W: w, Src: d.render(r.Chance(1, 2)), Intent: "valid", Tag: "valid"}
		})
	}
}
