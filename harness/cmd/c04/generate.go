package main

import (
	"fmt"

	"verifharness/internal/hx"
	"verifharness/internal/rng"
)

var corpusDocs = []string{
	`{i}`,
	`{oa(x:1){arg(x:1,x:2)}}`,
	`{oa(x:1){req}}`,
	`{alpha @include(if:true){i @include(if:true) @include(if:true)}}`,
	`{...F ...F} fragment F on Query {i}`,
	`{...F ...G} fragment F on Query {i} fragment G on Query {...F}`,
	`{arg(x:1) arg(y:1)}`,
	`{i {... on Query {i}}}`,
	`{alpha{...F} alpha{...F}} fragment F on Alpha {oa{...F}}`,
	`query($v: Alpha = 1){i}`,
	`query($v:Int){cmp(ins:{r:$v}, b:true)}`,
	`{a:i a:s b:i b:s}`,
	`query($v:Int){cmp(any:{a:$v}, b:true)}`,
	`query($v:Int){cmp(any:[$v], b:true)}`,
	`query($v:Int){cmp(oo:{a:$v}, b:true)}`,
	`query($v:Int){cmp(oo:[[$v]], b:true)}`,
	`{ab{... on Alpha{tl} ... on Beta{tl}}}`,
	`{ab{... on Beta{tl} ... on Alpha{tl}}}`,
	`{node{... on Alpha{t} ... on Gamma{t}}}`,
	`{node{... on Gamma{t} ... on Alpha{t}}}`,
	`{ab{... on Alpha{tol{__typename}} ... on Beta{tol{__typename}}}}`,
	`{ab{... on Beta{tol{__typename}} ... on Alpha{tol{__typename}}}}`,
	`{ab{... on Alpha{ton{__typename}} ... on Beta{ton{__typename}}}}`,
	`{ab{... on Beta{ton{__typename}} ... on Alpha{ton{__typename}}}}`,
	// overlapping fields across parent types: interface / object (must merge), two different objects (need not)
	`{named{f: name ... on Alpha{f: nick}}}`,
	`{named{... on Alpha{f: nick} f: name}}`,
	`{named{friend(n:1){name} ... on Alpha{friend(n:2){name}}}}`,
	`{named{friend{x: name} ... on Beta{friend{x: nick}}}}`,
	`{named{... on Alpha{f: name} ... on Beta{f: nick}}}`,
	`{named{... on Alpha{friend(n:1){name}} ... on Beta{friend(n:2){name}}}}`,
	`{ab{... on Named{f: name} ... on Alpha{f: nick}}}`,
	`{named{f: name ... on Named{f: nick}}}`,
	`{named{f: nick(n:1) ... on Alpha{f: nick(n:1)}}}`,
	// the "if" half of 5.3.2: identical arguments in another order, directly, nested, through fragments;
	// a field reached through both of two merged fields (filed twice in the merged set)
	`{arg(x:1,y:2) arg(y:2,x:1)}`,
	`{arg(x:1,y:2) arg(y:2,x:1) arg(x:1,y:2)}`,
	`{oa(x:1){arg(x:1,y:2)} oa(x:1){arg(y:2,x:1)}}`,
	`{...A ...B} fragment A on Query {arg(x:1,y:2)} fragment B on Query {arg(y:2,x:1)}`,
	`query($v:Int){arg(x:$v,y:2) ... on Query{arg(y:2,x:$v)}}`,
	`{lists(g5:[[1]] g1:[1,2]) lists(g1:[1,2] g5:[[1]])}`,
	`{alpha{...F} alpha{...F i}} fragment F on Alpha {name id}`,
	`{alpha{...F ...G} alpha{...G}} fragment F on Alpha {...G} fragment G on Alpha {name oa{name}}`,
	`{named{friend(n:1){...N}} named{friend(n:1){...N name}}} fragment N on Named {name friend(n:2){name}}`,
	// one named fragment spread under two parent types: possible first, impossible later (and the other way round)
	`{alpha{...FA} ab{... on Beta{...FA}}} fragment FA on Alpha {name}`,
	`{ab{... on Beta{...FA}} alpha{...FA}} fragment FA on Alpha {name}`,
	`{alpha{...FA} named{... on Beta{...FA}}} fragment FA on Alpha {name}`,
	`query A{alpha{...FA}} query B{ab{... on Beta{...FA}}} fragment FA on Alpha {name}`,
	`{ab{...FN} ab{... on Beta{...FA}} alpha{...FA}} fragment FA on Alpha {name} fragment FN on Named {name ...FA}`,
	`{alpha{...FA ...FA} ab{...FA ... on Beta{name ...FA}}} fragment FA on Alpha {name}`,
	// a single object / list literal standing for a one-element list of a custom scalar, with variables inside
	`query($v:Boolean){cmp(anys:{a:$v}, b:true)}`,
	`query($v:Boolean){cmp(anysn:{a:[$v, {b:$v}]}, b:true)}`,
	`query($v:Int){cmp(anys:[{a:$v}], b:true)}`,
	`query($v:Int){cmp(oos:{a:$v}, b:true)}`,
	`query($v:Int){cmp(opt:{ys:{a:$v}}, b:true)}`,
	`query($v:Int){cmp(opt:{ys:[{a:$v}], y:{b:[$v]}}, b:true)}`,
	`query($v:Int){cmp(anys:{a:$undefined}, b:true)}`,
	// nested list types: item-to-list coercion at the top only
	`{lists(g1:[[1],[2,null],null] g2:[[1],[]] g3:[[1],null] g4:[[1]] g5:[[1]] g6:[[[1]]] g7:[[[1,null]]] g8:[[1]])}`,
	`{lists(g1:1 g2:2 g3:3 g4:4 g5:5 g6:6 g7:7 g8:8)}`,
	`{lists(g5:[[1]] g1:[1,2])}`, `{lists(g5:[[1]] g1:[[1],2])}`, `{lists(g5:[[1]] g2:[1,2])}`, `{lists(g5:[[1]] g2:[[1],2])}`, `{lists(g5:[[1]] g8:[1,2])}`, `{lists(g5:[[1]] g8:[[1],2])}`,
	`{lists(g5:[[1]] g4:[3])}`, `{lists(g5:[[1]] g6:[[1]])}`, `{lists(g5:[[1]] g7:[[1]])}`, `{lists(g5:[[1]] g7:[[[1]],[2]])}`, `{lists(g5:[[1]] g2:[null])}`, `{lists(g5:[[1]] g3:[[null]])}`,
	`query($a:[Int],$b:[Int]!,$c:Int){lists(g5:[[1]] g1:[$a,$b] g2:[$b] g6:[[$a]])}`,
	`query($a:[Int]){lists(g5:[[1]] g2:[$a])}`,
	`query($c:Int){lists(g5:[[1]] g1:[$c])}`,
	// a variable-using fragment shared by two operations
	`query A($x:Int){...f} query B($x:Int){...f} fragment f on Query {arg(x:$x)}`,
	`query A($x:Int){...f} query B{...f} fragment f on Query {arg(x:$x)}`,
	`query A{...f} query B($x:Int){...f} fragment f on Query {arg(x:$x)}`,
	`query A($x:Int){...g} query B($x:Int){...g} fragment g on Query {...f} fragment f on Query {arg(x:$x)}`,
	`query A($x:Int){...g} query B($x:String){...g} fragment g on Query {...f} fragment f on Query {arg(x:$x)}`,
}

// Named and Tagged share only the gated implementation; GI, GG, Gated need the feature
var gatingDocs = []string{
	`{named{... on Tagged{id}}}`,
	`{tagged{... on Named{name}}}`,
	`{node(id:"1"){... on Tagged{id} ... on Named{name}}}`,
	`{tagged{...F}} fragment F on Named {name}`,
	`{named{... on Gated{id}}}`,
	`{alpha{... on GI{i}}}`,
	`{named{... on GG{__typename}}}`,
	`{tagged{... on Gamma{id}}}`,
}

func generate(h *hx.H) {
	fixed := rng.New(12345)
	w0 := buildWorld(fixed, false)
	for _, src := range corpusDocs {
		src := src
		emit(h, func(*rng.R) docCase { return docCase{W: w0, Src: src, Intent: "any", Tag: "corpus"} })
	}
	// the wrapper-chain matrix of SameResponseShape: chain i on Alpha against chain j on Beta under
	// one response name, leaf and composite named type, both parent orders
	for _, kind := range []string{"sc", "oc"} {
		sub := ""
		if kind == "oc" {
			sub = "{__typename}"
		}
		for i := range shapeChains {
			for j := range shapeChains {
				src := fmt.Sprintf("{named{... on Alpha{x: %s%d%s} ... on Beta{x: %s%d%s}}}", kind, i, sub, kind, j, sub)
				if (i+j)%2 == 1 {
					src = fmt.Sprintf("{named{... on Beta{x: %s%d%s} ... on Alpha{x: %s%d%s}}}", kind, j, sub, kind, i, sub)
				}
				emit(h, func(*rng.R) docCase { return docCase{W: w0, Src: src, Intent: "any", Tag: "corpus-shape"} })
			}
		}
	}
	// feature gating: the same documents with and without the feature
	var wGate, wPlain *world
	for seed := uint64(1); wGate == nil || wPlain == nil; seed++ {
		w := buildWorld(rng.New(seed), false)
		if _, ok := fieldsOf(w.S.QueryType())["tagged"]; !ok {
			continue
		}
		if w.Features.Has("gate") && wGate == nil {
			wGate = w
		} else if !w.Features.Has("gate") && wPlain == nil {
			wPlain = w
		}
	}
	for _, src := range gatingDocs {
		src := src
		emit(h, func(*rng.R) docCase { return docCase{W: wGate, Src: src, Intent: "any", Tag: "corpus-gate"} })
		emit(h, func(*rng.R) docCase { return docCase{W: wPlain, Src: src, Intent: "any", Tag: "corpus-plain"} })
	}
	sw := smallWorld()
	k := 3
	if h.Thorough() {
		k = 4
	}
	for _, src := range enumDocs(k) {
		src := src
		emit(h, func(*rng.R) docCase { return docCase{W: sw, Src: src, Intent: "any", Tag: "exhaustive"} })
	}
	nValid, perMutator, nHostile := 1500, 90, 950
	if h.Thorough() {
		nValid, perMutator, nHostile = 40000, 1500, 30000
	}
	for i := 0; i < len(mutators)*perMutator; i++ {
		i := i
		emit(h, func(r *rng.R) docCase {
			w := buildWorld(r.Fork(1), false)
			for k := 0; k < 20; k++ {
				if c, ok := mutated(w, r.Fork(uint64(10+k)), i); ok {
					return c
				}
			}
			d := genValid(w, r.Fork(2), 12)
			return docCase{W: w, Src: d.render(false), Intent: "valid", Tag: "valid-fallback"}
		})
	}
	for i := 0; i < nValid; i++ {
		emit(h, func(r *rng.R) docCase {
			w := buildWorld(r.Fork(1), false)
			d := genValid(w, r.Fork(2), 6+r.Intn(20))
			return docCase{W: w, Src: d.render(r.Chance(1, 2)), Intent: "valid", Tag: "valid"}
		})
	}
	for i := 0; i < nHostile; i++ {
		emit(h, func(r *rng.R) docCase {
			w := buildWorld(r.Fork(1), false)
			return docCase{W: w, Src: hostile(w, r.Fork(2)), Intent: "any", Tag: "hostile"}
		})
	}
}
