package main

import (
	"fmt"
	"sort"
	"strconv"

	"github.com/ccbrown/api-fu/graphql"
	"github.com/ccbrown/api-fu/graphql/ast"
	"github.com/ccbrown/api-fu/graphql/schema"
	"github.com/ccbrown/api-fu/graphql/schema/introspection"

	"verifharness/internal/rng"
	"verifharness/internal/sexp"
)

// ---- custom scalars: LiteralCoercion accepts exactly the listed literal kinds ----

// kinds accepted by each harness scalar (nil entry: LiteralCoercion == nil). This table is the
// abstraction of the Go coercion functions handed to the model.
var customKinds = map[string][]string{}

func kindOf(v ast.Value) string {
	switch v.(type) {
	case *ast.Variable:
		return "var"
	case *ast.IntValue:
		return "int"
	case *ast.FloatValue:
		return "float"
	case *ast.StringValue:
		return "str"
	case *ast.BooleanValue:
		return "bool"
	case *ast.NullValue:
		return "null"
	case *ast.EnumValue:
		return "enum"
	case *ast.ListValue:
		return "list"
	case *ast.ObjectValue:
		return "obj"
	}
	return "?"
}

func customScalar(name string, kinds []string) *graphql.ScalarType {
	t := &graphql.ScalarType{Name: name,
		VariableValueCoercion: func(v interface{}) interface{} { return v },
		ResultCoercion:        func(v interface{}) interface{} { return v }}
	if kinds != nil {
		ks := append([]string(nil), kinds...)
		t.LiteralCoercion = func(v ast.Value) interface{} {
			k := kindOf(v)
			for _, x := range ks {
				if x == k {
					return true
				}
			}
			return nil
		}
		customKinds[name] = ks
	} else {
		customKinds[name] = nil
	}
	return t
}

// ---- the schema family ----
//
// Field names have one signature (type and arguments) wherever they occur, so that equal response
// names in valid documents always have equal shapes; the exceptions are the "twin" fields t and tl
// whose type depends on the parent type (they feed the merge-conflict mutators).

type world struct {
	S        *graphql.Schema
	Features schema.FeatureSet
	Sexp     sexp.Node
	FeatSexp sexp.Node
	Objects  []*graphql.ObjectType
	Ifaces   []*graphql.InterfaceType
	Unions   []*graphql.UnionType
	Enums    []*graphql.EnumType
	Inputs   []*graphql.InputObjectType
	Scalars  []*graphql.ScalarType
	HasMut   bool
	HasSub   bool
	Name     string
}

func nn(t graphql.Type) graphql.Type { return graphql.NewNonNullType(t) }
func li(t graphql.Type) graphql.Type { return graphql.NewListType(t) }

// wrapper chains over a named type T: T, T!, [T], [T!], [T]!, [T!]!, [[T]], [[T!]], [[T]!], [[T]]!, [[T!]!]!
var shapeChains = []func(graphql.Type) graphql.Type{
	func(t graphql.Type) graphql.Type { return t },
	func(t graphql.Type) graphql.Type { return nn(t) },
	func(t graphql.Type) graphql.Type { return li(t) },
	func(t graphql.Type) graphql.Type { return li(nn(t)) },
	func(t graphql.Type) graphql.Type { return nn(li(t)) },
	func(t graphql.Type) graphql.Type { return nn(li(nn(t))) },
	func(t graphql.Type) graphql.Type { return li(li(t)) },
	func(t graphql.Type) graphql.Type { return li(li(nn(t))) },
	func(t graphql.Type) graphql.Type { return li(nn(li(t))) },
	func(t graphql.Type) graphql.Type { return nn(li(li(t))) },
	func(t graphql.Type) graphql.Type { return nn(li(nn(li(nn(t))))) },
}

func args(kv ...interface{}) map[string]*graphql.InputValueDefinition {
	m := map[string]*graphql.InputValueDefinition{}
	for i := 0; i < len(kv); i += 2 {
		switch v := kv[i+1].(type) {
		case graphql.Type:
			m[kv[i].(string)] = &graphql.InputValueDefinition{Type: v}
		case *graphql.InputValueDefinition:
			m[kv[i].(string)] = v
		}
	}
	return m
}

func dv(t graphql.Type, d interface{}) *graphql.InputValueDefinition {
	return &graphql.InputValueDefinition{Type: t, DefaultValue: d}
}

func isTypeOf(interface{}) bool { return false }

// buildWorld makes one schema of the family. variant selects optional parts (mutation type,
// subscription type, feature-gated members, which features are enabled).
func buildWorld(r *rng.R, small bool) *world {
	w := &world{}
	custom := customScalar("Custom", []string{"str", "int"})
	anyT := customScalar("Any", nil)
	strict := customScalar("OnlyObj", []string{"obj", "list"})
	color := &graphql.EnumType{Name: "Color", Values: map[string]*graphql.EnumValueDefinition{"RED": {Value: 1}, "GREEN": {Value: 2}, "BLUE": {Value: 3}}}
	size := &graphql.EnumType{Name: "Size", Values: map[string]*graphql.EnumValueDefinition{"S": {Value: 1}, "L": {Value: 2}}}

	inner := &graphql.InputObjectType{Name: "Inner", Fields: map[string]*graphql.InputValueDefinition{
		"a": {Type: graphql.IntType},
		"r": {Type: nn(graphql.IntType)},
		"d": dv(nn(graphql.IntType), 5),
		"c": {Type: color},
	}}
	outer := &graphql.InputObjectType{Name: "Outer", Fields: map[string]*graphql.InputValueDefinition{
		"a":    {Type: graphql.IntType},
		"s":    {Type: graphql.StringType},
		"in":   {Type: inner},
		"ins":  {Type: li(nn(inner))},
		"ids":  {Type: li(graphql.IDType)},
		"nul":  dv(graphql.IntType, schema.Null),
		"grid": {Type: li(li(graphql.IntType))},
	}}
	outer.Fields["self"] = &graphql.InputValueDefinition{Type: outer}
	opt := &graphql.InputObjectType{Name: "Opt", Fields: map[string]*graphql.InputValueDefinition{
		"a": {Type: graphql.IntType}, "f": {Type: graphql.FloatType}, "b": {Type: graphql.BooleanType}, "x": {Type: custom}, "y": {Type: anyT}, "ys": {Type: li(nn(anyT))}}}

	named := &graphql.InterfaceType{Name: "Named"}
	node := &graphql.InterfaceType{Name: "Node"}
	o0 := &graphql.ObjectType{Name: "Query"}
	o1 := &graphql.ObjectType{Name: "Alpha", IsTypeOf: isTypeOf}
	o2 := &graphql.ObjectType{Name: "Beta", IsTypeOf: isTypeOf}
	o3 := &graphql.ObjectType{Name: "Gamma", IsTypeOf: isTypeOf}
	gated := &graphql.ObjectType{Name: "Gated", IsTypeOf: isTypeOf, RequiredFeatures: schema.NewFeatureSet("gate")}
	u0 := &graphql.UnionType{Name: "AB", MemberTypes: []*graphql.ObjectType{o1, o2}}
	u1 := &graphql.UnionType{Name: "BG", MemberTypes: []*graphql.ObjectType{o2, o3}}
	// feature gating of implementations, union members and interfaces: Named and Tagged share only
	// the gated object type; GG and GA share only it too; GI is an interface that needs the feature
	tagged := &graphql.InterfaceType{Name: "Tagged"}
	gi := &graphql.InterfaceType{Name: "GI", RequiredFeatures: schema.NewFeatureSet("gate")}
	// (a union cannot have members that need more features than the union itself)
	u2 := &graphql.UnionType{Name: "GG", MemberTypes: []*graphql.ObjectType{gated, o3}, RequiredFeatures: schema.NewFeatureSet("gate")}

	// the global field pool: name -> definition (a fresh FieldDefinition per use so that the schema
	// has no shared pointers the validator could confuse)
	pool := map[string]func() *graphql.FieldDefinition{
		"i":    func() *graphql.FieldDefinition { return &graphql.FieldDefinition{Type: graphql.IntType} },
		"s":    func() *graphql.FieldDefinition { return &graphql.FieldDefinition{Type: graphql.StringType} },
		"b":    func() *graphql.FieldDefinition { return &graphql.FieldDefinition{Type: nn(graphql.BooleanType)} },
		"id":   func() *graphql.FieldDefinition { return &graphql.FieldDefinition{Type: nn(graphql.IDType)} },
		"name": func() *graphql.FieldDefinition { return &graphql.FieldDefinition{Type: graphql.StringType} },
		"col":  func() *graphql.FieldDefinition { return &graphql.FieldDefinition{Type: color} },
		"li":   func() *graphql.FieldDefinition { return &graphql.FieldDefinition{Type: li(nn(graphql.IntType))} },
		"cu":   func() *graphql.FieldDefinition { return &graphql.FieldDefinition{Type: custom} },
		"arg": func() *graphql.FieldDefinition {
			return &graphql.FieldDefinition{Type: graphql.IntType, Arguments: args("x", graphql.IntType, "y", graphql.IntType)}
		},
		"req": func() *graphql.FieldDefinition {
			return &graphql.FieldDefinition{Type: graphql.IntType, Arguments: args("x", nn(graphql.IntType), "o", graphql.StringType)}
		},
		"dfl": func() *graphql.FieldDefinition {
			return &graphql.FieldDefinition{Type: graphql.IntType, Arguments: args("x", dv(nn(graphql.IntType), 7), "n", dv(graphql.IntType, schema.Null), "c", dv(color, 1))}
		},
		"flt": func() *graphql.FieldDefinition {
			return &graphql.FieldDefinition{Type: graphql.FloatType, Arguments: args("x", graphql.FloatType, "ids", li(nn(graphql.IDType)))}
		},
		"cmp": func() *graphql.FieldDefinition {
			return &graphql.FieldDefinition{Type: graphql.StringType, Arguments: args("in", outer, "ins", li(inner), "opt", opt, "e", size, "any", anyT, "anys", li(anyT), "anysn", li(nn(anyT)), "oos", li(strict), "cu", custom, "oo", strict, "grid", li(li(graphql.IntType)), "b", nn(graphql.BooleanType))}
		},
		"alpha":  func() *graphql.FieldDefinition { return &graphql.FieldDefinition{Type: o1} },
		"beta":   func() *graphql.FieldDefinition { return &graphql.FieldDefinition{Type: nn(o2)} },
		"gammas": func() *graphql.FieldDefinition { return &graphql.FieldDefinition{Type: li(nn(o3))} },
		"named":  func() *graphql.FieldDefinition { return &graphql.FieldDefinition{Type: named} },
		"node": func() *graphql.FieldDefinition {
			return &graphql.FieldDefinition{Type: node, Arguments: args("id", nn(graphql.IDType))}
		},
		"ab":  func() *graphql.FieldDefinition { return &graphql.FieldDefinition{Type: u0} },
		"bgs": func() *graphql.FieldDefinition { return &graphql.FieldDefinition{Type: li(u1)} },
		"oa": func() *graphql.FieldDefinition {
			return &graphql.FieldDefinition{Type: o1, Arguments: args("x", graphql.IntType)}
		},
		"query":  func() *graphql.FieldDefinition { return &graphql.FieldDefinition{Type: o0} },
		"tagged": func() *graphql.FieldDefinition { return &graphql.FieldDefinition{Type: tagged} },
		// nested list types with non-null at every level: item-to-list coercion is allowed for the
		// value of an argument but not for the items of a list literal, whatever wrappers the item type has
		"lists": func() *graphql.FieldDefinition {
			I := graphql.IntType
			return &graphql.FieldDefinition{Type: graphql.IntType, Arguments: args(
				"g1", li(li(I)), "g2", li(nn(li(I))), "g3", li(li(nn(I))), "g4", li(nn(li(nn(I)))), "g5", nn(li(li(I))),
				"g6", li(li(li(I))), "g7", li(nn(li(nn(li(I))))), "g8", dv(nn(li(nn(li(I)))), []interface{}{}))}
		},
		// interface fields with arguments / of composite type, for overlapping fields whose parents are
		// an interface and an implementing object type
		"nick": func() *graphql.FieldDefinition {
			return &graphql.FieldDefinition{Type: graphql.StringType, Arguments: args("n", graphql.IntType)}
		},
		"friend": func() *graphql.FieldDefinition {
			return &graphql.FieldDefinition{Type: named, Arguments: args("n", graphql.IntType)}
		},
		"gif": func() *graphql.FieldDefinition {
			return &graphql.FieldDefinition{Type: gi, RequiredFeatures: schema.NewFeatureSet("gate")}
		},
		"gg": func() *graphql.FieldDefinition {
			return &graphql.FieldDefinition{Type: u2, RequiredFeatures: schema.NewFeatureSet("gate")}
		},
		"gi": func() *graphql.FieldDefinition {
			return &graphql.FieldDefinition{Type: graphql.IntType, RequiredFeatures: schema.NewFeatureSet("gate")}
		},
		"gobj": func() *graphql.FieldDefinition {
			return &graphql.FieldDefinition{Type: gated, RequiredFeatures: schema.NewFeatureSet("gate")}
		},
	}
	mk := func(names ...string) map[string]*graphql.FieldDefinition {
		m := map[string]*graphql.FieldDefinition{}
		for _, n := range names {
			m[n] = pool[n]()
		}
		return m
	}
	named.Fields = mk("name", "i", "nick", "friend")
	node.Fields = mk("id")
	tagged.Fields = mk("id")
	gi.Fields = mk("i")
	// optional members, chosen per world
	pick := func(base []string, optional ...string) []string {
		out := append([]string(nil), base...)
		for _, o := range optional {
			if r.Chance(2, 3) {
				out = append(out, o)
			}
		}
		return out
	}
	o0.Fields = mk(pick([]string{"i", "s", "arg", "req", "alpha", "oa", "named", "node", "ab", "cmp", "query", "tagged", "lists"}, "b", "dfl", "flt", "bgs", "gammas", "beta", "li", "col", "gi", "gobj", "cu", "gif", "gg")...)
	o1.Fields = mk(pick([]string{"name", "i", "id", "s", "beta", "arg", "oa", "nick", "friend"}, "req", "dfl", "ab", "query", "gammas", "col", "cmp", "gi")...)
	o2.Fields = mk(pick([]string{"name", "i", "id", "alpha", "nick", "friend"}, "s", "arg", "li", "named", "bgs", "flt")...)
	o3.Fields = mk(pick([]string{"id", "i", "b"}, "s", "alpha", "node", "cu", "query")...)
	gated.Fields = mk("i", "name", "id", "nick", "friend")
	o1.ImplementedInterfaces = []*graphql.InterfaceType{named, node}
	o2.ImplementedInterfaces = []*graphql.InterfaceType{named, node}
	o1.ImplementedInterfaces = []*graphql.InterfaceType{named, node, gi}
	o3.ImplementedInterfaces = []*graphql.InterfaceType{node, tagged}
	gated.ImplementedInterfaces = []*graphql.InterfaceType{node, named, tagged}
	// twins: same name, different shape
	o1.Fields["t"] = &graphql.FieldDefinition{Type: graphql.IntType}
	o2.Fields["t"] = &graphql.FieldDefinition{Type: graphql.StringType}
	o3.Fields["t"] = &graphql.FieldDefinition{Type: nn(graphql.IntType)}
	o1.Fields["tl"] = &graphql.FieldDefinition{Type: li(graphql.IntType)}
	o2.Fields["tl"] = &graphql.FieldDefinition{Type: graphql.IntType}
	o1.Fields["to"] = &graphql.FieldDefinition{Type: o2}
	o2.Fields["to"] = &graphql.FieldDefinition{Type: o1}
	// composite twins that differ in a wrapper only (for leaves the final same-type test hides
	// what the unwrapping loop of validateSameResponseShape does)
	o1.Fields["tol"] = &graphql.FieldDefinition{Type: li(o2)}
	o2.Fields["tol"] = &graphql.FieldDefinition{Type: o1}
	o1.Fields["ton"] = &graphql.FieldDefinition{Type: nn(o2)}
	o2.Fields["ton"] = &graphql.FieldDefinition{Type: o1}
	// the wrapper-chain matrix of the shape rule: the same families of fields on Alpha and on Beta
	// (sc<k>: chain k over the leaf String, oc<k>: chain k over the object Gamma); a document pairs
	// chain i on one parent with chain j on the other under one alias, so that only
	// SameResponseShape applies (two different object types)
	for k, ch := range shapeChains {
		o1.Fields[fmt.Sprintf("sc%d", k)] = &graphql.FieldDefinition{Type: ch(graphql.StringType)}
		o2.Fields[fmt.Sprintf("sc%d", k)] = &graphql.FieldDefinition{Type: ch(graphql.StringType)}
		o1.Fields[fmt.Sprintf("oc%d", k)] = &graphql.FieldDefinition{Type: ch(o3)}
		o2.Fields[fmt.Sprintf("oc%d", k)] = &graphql.FieldDefinition{Type: ch(o3)}
	}
	o1.Fields["ta"] = &graphql.FieldDefinition{Type: graphql.IntType, Arguments: args("x", graphql.IntType)}
	o2.Fields["ta"] = &graphql.FieldDefinition{Type: graphql.IntType, Arguments: args("x", graphql.IntType)}

	def := &graphql.SchemaDefinition{Query: o0, Directives: map[string]*graphql.DirectiveDefinition{
		"include": graphql.IncludeDirective, "skip": graphql.SkipDirective,
		"tag": {
			Arguments: args("label", nn(graphql.StringType), "n", dv(graphql.IntType, 3), "in", inner, "z", dv(graphql.IntType, schema.Null), "m", dv(nn(graphql.IntType), 1)),
			Locations: []schema.DirectiveLocation{schema.DirectiveLocationField, schema.DirectiveLocationQuery, schema.DirectiveLocationFragmentDefinition, schema.DirectiveLocationInlineFragment},
		},
		"onFrag": {Locations: []schema.DirectiveLocation{schema.DirectiveLocationFragmentSpread, schema.DirectiveLocationFragmentDefinition, schema.DirectiveLocationMutation, schema.DirectiveLocationSubscription, schema.DirectiveLocationObject}},
	}, AdditionalTypes: []graphql.NamedType{gated, size, opt, strict, tagged, gi, u2}}
	if r.Chance(2, 3) {
		def.Mutation = &graphql.ObjectType{Name: "Mutation", Fields: mk("i", "arg", "alpha", "req")}
		w.HasMut = true
	}
	if r.Chance(2, 3) {
		def.Subscription = &graphql.ObjectType{Name: "Subscription", Fields: mk("i", "alpha", "arg", "named")}
		w.HasSub = true
	}
	s, err := graphql.NewSchema(def)
	if err != nil {
		panic("schema: " + err.Error())
	}
	w.S = s
	if r.Chance(1, 2) {
		w.Features = schema.NewFeatureSet("gate")
	} else if r.Chance(1, 2) {
		w.Features = schema.NewFeatureSet("other")
	}
	w.finish()
	return w
}

// smallWorld: the 3-type schema of the bounded-exhaustive part
func smallWorld() *world {
	w := &world{}
	q := &graphql.ObjectType{Name: "Query"}
	a := &graphql.ObjectType{Name: "A", IsTypeOf: isTypeOf}
	n := &graphql.InterfaceType{Name: "N"}
	n.Fields = map[string]*graphql.FieldDefinition{"i": {Type: graphql.IntType}}
	a.ImplementedInterfaces = []*graphql.InterfaceType{n}
	a.Fields = map[string]*graphql.FieldDefinition{
		"i": {Type: graphql.IntType},
		"s": {Type: graphql.StringType},
		"q": {Type: q},
	}
	q.Fields = map[string]*graphql.FieldDefinition{
		"i": {Type: graphql.IntType},
		"s": {Type: graphql.StringType},
		"a": {Type: a, Arguments: args("x", graphql.IntType)},
		"n": {Type: n},
		"r": {Type: graphql.IntType, Arguments: args("x", nn(graphql.IntType))},
	}
	s, err := graphql.NewSchema(&graphql.SchemaDefinition{Query: q, Directives: map[string]*graphql.DirectiveDefinition{"include": graphql.IncludeDirective}})
	if err != nil {
		panic(err)
	}
	w.S = s
	w.finish()
	w.Name = "small"
	return w
}

func sortedKeys[V any](m map[string]V) []string {
	ks := make([]string, 0, len(m))
	for k := range m {
		ks = append(ks, k)
	}
	sort.Strings(ks)
	return ks
}

// finish fills the generator's views and the s-expression by walking the real *schema.Schema.
func (w *world) finish() {
	s := w.S
	for _, n := range sortedKeys(s.NamedTypes()) {
		switch t := s.NamedTypes()[n].(type) {
		case *graphql.ObjectType:
			w.Objects = append(w.Objects, t)
		case *graphql.InterfaceType:
			w.Ifaces = append(w.Ifaces, t)
		case *graphql.UnionType:
			w.Unions = append(w.Unions, t)
		case *graphql.EnumType:
			w.Enums = append(w.Enums, t)
		case *graphql.InputObjectType:
			w.Inputs = append(w.Inputs, t)
		case *graphql.ScalarType:
			w.Scalars = append(w.Scalars, t)
		}
	}
	w.Sexp = schemaSexp(s)
	var fs []sexp.Node
	for _, f := range sortedKeys(w.Features) {
		fs = append(fs, sexp.Str(f))
	}
	w.FeatSexp = sexp.L(fs...)
}

func typeSexp(t schema.Type) sexp.Node {
	switch t := t.(type) {
	case *schema.ListType:
		return sexp.T("l", typeSexp(t.Type))
	case *schema.NonNullType:
		return sexp.T("nn", typeSexp(t.Type))
	case schema.NamedType:
		return sexp.T("n", sexp.Str(t.TypeName()))
	}
	panic("typeSexp")
}

func featSexp(f schema.FeatureSet) sexp.Node {
	var out []sexp.Node
	for _, k := range sortedKeys(f) {
		out = append(out, sexp.Str(k))
	}
	return sexp.L(out...)
}

func inputDefsSexp(m map[string]*schema.InputValueDefinition) sexp.Node {
	var out []sexp.Node
	for _, k := range sortedKeys(m) {
		d := m[k]
		df := "value"
		if d.DefaultValue == nil {
			df = "none"
		} else if d.DefaultValue == schema.Null {
			df = "null"
		}
		out = append(out, sexp.L(sexp.Str(k), typeSexp(d.Type), sexp.Sym(df)))
	}
	return sexp.L(out...)
}

func fieldDefSexp(name string, f *schema.FieldDefinition) sexp.Node {
	return sexp.L(sexp.Str(name), typeSexp(f.Type), inputDefsSexp(f.Arguments), featSexp(f.RequiredFeatures))
}

func fieldsSexp(m map[string]*schema.FieldDefinition) sexp.Node {
	var out []sexp.Node
	for _, k := range sortedKeys(m) {
		out = append(out, fieldDefSexp(k, m[k]))
	}
	return sexp.L(out...)
}

func scalarSexp(t *schema.ScalarType) sexp.Node {
	switch t {
	case schema.IntType:
		return sexp.Sym("int")
	case schema.FloatType:
		return sexp.Sym("float")
	case schema.StringType:
		return sexp.Sym("string")
	case schema.BooleanType:
		return sexp.Sym("boolean")
	case schema.IDType:
		return sexp.Sym("id")
	}
	ks, ok := customKinds[t.Name]
	if !ok {
		panic("unknown scalar " + t.Name)
	}
	if ks == nil {
		if t.LiteralCoercion != nil {
			panic("scalar table out of date")
		}
		return sexp.Sym("any")
	}
	var out []sexp.Node
	for _, k := range ks {
		out = append(out, sexp.Sym(k))
	}
	return sexp.T("custom", out...)
}

func namedTypeSexp(t schema.NamedType) sexp.Node {
	var body sexp.Node
	switch t := t.(type) {
	case *schema.ScalarType:
		body = sexp.T("scalar", scalarSexp(t))
	case *schema.EnumType:
		var vs []sexp.Node
		for _, k := range sortedKeys(t.Values) {
			vs = append(vs, sexp.Str(k))
		}
		body = sexp.T("enum", sexp.L(vs...))
	case *schema.InputObjectType:
		body = sexp.T("input", inputDefsSexp(t.Fields))
	case *schema.ObjectType:
		var is []sexp.Node
		for _, i := range t.ImplementedInterfaces {
			is = append(is, sexp.Str(i.Name))
		}
		body = sexp.T("object", fieldsSexp(t.Fields), sexp.L(is...))
	case *schema.InterfaceType:
		body = sexp.T("interface", fieldsSexp(t.Fields))
	case *schema.UnionType:
		var ms []sexp.Node
		for _, m := range t.MemberTypes {
			ms = append(ms, sexp.Str(m.Name))
		}
		body = sexp.T("union", sexp.L(ms...))
	default:
		panic("named type")
	}
	return sexp.L(sexp.Str(t.TypeName()), featSexp(t.TypeRequiredFeatures()), body)
}

func optName(t *schema.ObjectType) sexp.Node {
	if t == nil {
		return sexp.None()
	}
	return sexp.Some(sexp.Str(t.Name))
}

func schemaSexp(s *schema.Schema) sexp.Node {
	var types []sexp.Node
	for _, n := range sortedKeys(s.NamedTypes()) {
		types = append(types, namedTypeSexp(s.NamedTypes()[n]))
	}
	for _, n := range sortedKeys(introspection.NamedTypes) {
		types = append(types, namedTypeSexp(introspection.NamedTypes[n]))
	}
	var dirs []sexp.Node
	for _, n := range sortedKeys(s.Directives()) {
		d := s.Directives()[n]
		var locs []sexp.Node
		for _, l := range d.Locations {
			locs = append(locs, sexp.Sym(string(l)))
		}
		dirs = append(dirs, sexp.L(sexp.Str(n), inputDefsSexp(d.Arguments), sexp.L(locs...)))
	}
	var meta []sexp.Node
	for _, n := range sortedKeys(introspection.MetaFields) {
		meta = append(meta, fieldDefSexp(n, introspection.MetaFields[n]))
	}
	var impls []sexp.Node
	for _, n := range sortedKeys(s.NamedTypes()) {
		if _, ok := s.NamedTypes()[n].(*schema.InterfaceType); ok {
			var os []sexp.Node
			for _, o := range s.InterfaceImplementations(n) {
				os = append(os, sexp.Str(o.Name))
			}
			impls = append(impls, sexp.L(sexp.Str(n), sexp.L(os...)))
		}
	}
	return sexp.T("schema",
		sexp.T("types", sexp.L(types...)),
		sexp.T("query", sexp.Str(s.QueryType().Name)),
		sexp.T("mutation", optName(s.MutationType())),
		sexp.T("subscription", optName(s.SubscriptionType())),
		sexp.T("directives", sexp.L(dirs...)),
		sexp.T("meta", sexp.L(meta...)),
		sexp.T("impls", sexp.L(impls...)))
}

var _ = strconv.Itoa
