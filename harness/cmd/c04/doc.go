package main

import (
	"strings"

	"github.com/ccbrown/api-fu/graphql/schema"
)

// The generator's own document tree (rendered to text, which the real parser then parses).

type gArg struct {
	Name string
	Val  string
	Type schema.Type // nil when unknown
	Dflt bool        // the argument definition has a default value
}

type gDir struct {
	Name string
	Args []gArg
}

const (
	kField = iota
	kSpread
	kInline
)

type gSel struct {
	Kind  int
	Alias string
	Name  string // field name / fragment name
	Cond  string // inline fragment type condition ("" = none)
	Args  []gArg
	Dirs  []gDir
	Sub   *gSet
	Def   *schema.FieldDefinition
}

type gSet struct {
	Sels   []*gSel
	Parent schema.NamedType
	// generator bookkeeping for mutator site selection
	Depth     int
	UnderArgs bool // some enclosing field carries arguments or directives
	InFrag    *gFrag
}

type gVar struct {
	Name    string
	Type    string
	Default string
	T       schema.Type
}

type gOp struct {
	Kind string // "" = shorthand query
	Name string
	Vars []*gVar
	Dirs []gDir
	Set  *gSet
}

type gFrag struct {
	Name  string
	Cond  string
	CondT schema.NamedType
	Dirs  []gDir
	Set   *gSet
	Done  bool
}

type gDoc struct {
	Ops   []*gOp
	Frags []*gFrag
	// definitions are rendered in this order: indices into Ops (>=0) and Frags (-1-i)
	Order []int
}

func renderArgs(b *strings.Builder, as []gArg) {
	if len(as) == 0 {
		return
	}
	b.WriteString("(")
	for i, a := range as {
		if i > 0 {
			b.WriteString(", ")
		}
		b.WriteString(a.Name)
		b.WriteString(": ")
		b.WriteString(a.Val)
	}
	b.WriteString(")")
}

func renderDirs(b *strings.Builder, ds []gDir) {
	for _, d := range ds {
		b.WriteString(" @")
		b.WriteString(d.Name)
		renderArgs(b, d.Args)
	}
}

func renderSet(b *strings.Builder, s *gSet, indent int, multi bool) {
	b.WriteString("{")
	for i, sel := range s.Sels {
		if multi {
			b.WriteString("\n")
			b.WriteString(strings.Repeat("  ", indent+1))
		} else if i > 0 {
			b.WriteString(" ")
		}
		switch sel.Kind {
		case kField:
			if sel.Alias != "" {
				b.WriteString(sel.Alias)
				b.WriteString(": ")
			}
			b.WriteString(sel.Name)
			renderArgs(b, sel.Args)
			renderDirs(b, sel.Dirs)
			if sel.Sub != nil {
				b.WriteString(" ")
				renderSet(b, sel.Sub, indent+1, multi)
			}
		case kSpread:
			b.WriteString("...")
			b.WriteString(sel.Name)
			renderDirs(b, sel.Dirs)
		case kInline:
			b.WriteString("...")
			if sel.Cond != "" {
				b.WriteString(" on ")
				b.WriteString(sel.Cond)
			}
			renderDirs(b, sel.Dirs)
			b.WriteString(" ")
			renderSet(b, sel.Sub, indent+1, multi)
		}
	}
	if multi {
		b.WriteString("\n")
		b.WriteString(strings.Repeat("  ", indent))
	}
	b.WriteString("}")
}

func (d *gDoc) render(multi bool) string {
	var b strings.Builder
	order := d.Order
	if order == nil {
		for i := range d.Ops {
			order = append(order, i)
		}
		for i := range d.Frags {
			order = append(order, -1-i)
		}
	}
	for k, idx := range order {
		if k > 0 {
			if multi {
				b.WriteString("\n\n")
			} else {
				b.WriteString(" ")
			}
		}
		if idx >= 0 {
			op := d.Ops[idx]
			if op.Kind != "" {
				b.WriteString(op.Kind)
				if op.Name != "" {
					b.WriteString(" ")
					b.WriteString(op.Name)
				}
				if len(op.Vars) > 0 {
					b.WriteString("(")
					for i, v := range op.Vars {
						if i > 0 {
							b.WriteString(", ")
						}
						b.WriteString("$")
						b.WriteString(v.Name)
						b.WriteString(": ")
						b.WriteString(v.Type)
						if v.Default != "" {
							b.WriteString(" = ")
							b.WriteString(v.Default)
						}
					}
					b.WriteString(")")
				}
				renderDirs(&b, op.Dirs)
				b.WriteString(" ")
			}
			renderSet(&b, op.Set, 0, multi)
		} else {
			f := d.Frags[-1-idx]
			b.WriteString("fragment ")
			b.WriteString(f.Name)
			b.WriteString(" on ")
			b.WriteString(f.Cond)
			renderDirs(&b, f.Dirs)
			b.WriteString(" ")
			renderSet(&b, f.Set, 0, multi)
		}
	}
	return b.String()
}

// every selection set of the document (operations first, then fragments), depth first
func (d *gDoc) sets() []*gSet {
	var out []*gSet
	var walk func(s *gSet)
	walk = func(s *gSet) {
		out = append(out, s)
		for _, sel := range s.Sels {
			if sel.Sub != nil {
				walk(sel.Sub)
			}
		}
	}
	for _, op := range d.Ops {
		walk(op.Set)
	}
	for _, f := range d.Frags {
		walk(f.Set)
	}
	return out
}

type selSite struct {
	Sel *gSel
	Set *gSet
}

func (d *gDoc) sels() []selSite {
	var out []selSite
	for _, s := range d.sets() {
		for _, sel := range s.Sels {
			out = append(out, selSite{sel, s})
		}
	}
	return out
}
