package main

import (
	"fmt"
	"strings"

	"github.com/ccbrown/api-fu/graphql"
	"github.com/ccbrown/api-fu/graphql/schema"

	"verifharness/internal/rng"
)

// ---- valid-by-construction documents ----
//
// Discipline that makes overlapping fields mergeable: a response name stands for one (field name,
// argument text) pair in the whole document; field names have one signature in the whole schema
// (except the twins, which are always aliased per parent type).

type gen struct {
	w      *world
	r      *rng.R
	doc    *gDoc
	op     *gOp              // operation whose variables may be used (nil: none)
	byResp map[string]string // response name -> "field(args)"
	argsOf map[string][]gArg // response name -> canonical arguments
	nAlias int
	nVar   int
	nFrag  int
	maxDep int
	budget int // remaining selections
	inFrag *gFrag
	inItem bool // generating an item of a list literal: no item-to-list coercion
}

var twins = map[string]bool{"t": true, "tl": true, "to": true, "ta": true, "tol": true, "ton": true}

func (g *gen) visible(f schema.FeatureSet) bool { return f.IsSubsetOf(g.w.Features) }

func typeText(t schema.Type) string { return t.String() }

func fieldsOf(t schema.NamedType) map[string]*schema.FieldDefinition {
	switch t := t.(type) {
	case *schema.ObjectType:
		return t.Fields
	case *schema.InterfaceType:
		return t.Fields
	}
	return nil
}

func isComposite(t schema.NamedType) bool {
	switch t.(type) {
	case *schema.ObjectType, *schema.InterfaceType, *schema.UnionType:
		return true
	}
	return false
}

// possible object type names (as the GraphQL spec defines them, over visible types)
func (g *gen) possible(t schema.NamedType) map[string]bool {
	out := map[string]bool{}
	switch t := t.(type) {
	case *schema.ObjectType:
		out[t.Name] = true
	case *schema.InterfaceType:
		for _, o := range g.w.Objects {
			for _, i := range o.ImplementedInterfaces {
				if i == t && g.visible(o.RequiredFeatures) {
					out[o.Name] = true
				}
			}
		}
	case *schema.UnionType:
		for _, o := range t.MemberTypes {
			out[o.Name] = true
		}
	}
	return out
}

func (g *gen) composites() []schema.NamedType {
	var out []schema.NamedType
	for _, n := range sortedKeys(g.w.S.NamedTypes()) {
		t := g.w.S.NamedTypes()[n]
		if isComposite(t) && g.visible(t.TypeRequiredFeatures()) {
			out = append(out, t)
		}
	}
	return out
}

func (g *gen) compatible(parent schema.NamedType) []schema.NamedType {
	pp := g.possible(parent)
	var out []schema.NamedType
	for _, t := range g.composites() {
		for k := range g.possible(t) {
			if pp[k] {
				out = append(out, t)
				break
			}
		}
	}
	return out
}

// ---- values ----

var intLits = []string{"0", "1", "-1", "7", "42", "2147483647", "-2147483648", "-0", "123456"}
var floatLits = []string{"0.5", "-1.25", "1e10", "3", "1.5E-3", "1e308", "0.0", "-7", "1.7976931348623157e308", "1e-400"}
var stringLits = []string{`"a"`, `""`, `"hello world"`, `"q\"uote"`, `"""block"""`, `"é"`}

func (g *gen) newVar(declared string, t schema.Type, dflt string) string {
	g.nVar++
	name := fmt.Sprintf("v%d", g.nVar)
	g.op.Vars = append(g.op.Vars, &gVar{Name: name, Type: declared, Default: dflt, T: t})
	return "$" + name
}

// a variable of any type, to be put inside a list or object literal given for a custom scalar
func (g *gen) nestedVar(vars bool) string {
	if !vars || g.op == nil || !g.r.Chance(1, 3) {
		return ""
	}
	if len(g.op.Vars) > 0 && g.r.Chance(1, 2) {
		return "$" + g.op.Vars[g.r.Intn(len(g.op.Vars))].Name
	}
	return g.newVar("Int", graphql.IntType, "")
}

// a variable usable at a position of type t (whose argument / field definition has a default
// value iff locDefault), or "" if none is wanted / possible
func (g *gen) variableFor(t schema.Type, locDefault bool) string {
	if g.op == nil || !g.r.Chance(1, 4) {
		return ""
	}
	text := typeText(t)
	// reuse an existing variable of exactly this declared type
	if g.r.Chance(1, 3) {
		for _, v := range g.op.Vars {
			if v.Type == text || v.Type == text+"!" {
				return "$" + v.Name
			}
		}
	}
	if nnT, ok := t.(*schema.NonNullType); ok {
		switch g.r.Intn(4) {
		case 0:
			// nullable variable with a non-null default
			return g.newVar(typeText(nnT.Type), nnT.Type, g.literal(nnT, 2, false))
		case 1:
			if locDefault {
				return g.newVar(typeText(nnT.Type), nnT.Type, "")
			}
		}
		return g.newVar(text, t, "")
	}
	switch g.r.Intn(4) {
	case 0:
		return g.newVar(text+"!", t, "")
	case 1:
		return g.newVar(text, t, g.literal(t, 2, false))
	}
	return g.newVar(text, t, "")
}

// value for a position of type t: a variable or a literal
func (g *gen) value(t schema.Type, depth int, locDefault bool) string {
	if v := g.variableFor(t, locDefault); v != "" {
		return v
	}
	return g.literal(t, depth, true)
}

func (g *gen) literal(t schema.Type, depth int, vars bool) string {
	r := g.r
	if nnT, ok := t.(*schema.NonNullType); ok {
		return g.literalNN(nnT.Type, depth, vars)
	}
	if r.Chance(1, 10) {
		return "null"
	}
	return g.literalNN(t, depth, vars)
}

func (g *gen) sub(t schema.Type, depth int, vars bool) string {
	if vars {
		return g.value(t, depth, false)
	}
	return g.literal(t, depth, false)
}

func (g *gen) literalNN(t schema.Type, depth int, vars bool) string {
	r := g.r
	switch t := t.(type) {
	case *schema.ListType:
		if _, inner := schema.NullableType(t.Type).(*schema.ListType); !inner && !g.inItem && r.Chance(1, 4) {
			// a single item coerced to a list: a literal (a variable of the item type would be invalid);
			// only for the value as a whole, never for an item of a list literal
			return g.literalNN(schema.NullableType(t.Type), depth, vars)
		}
		n := r.Intn(4)
		if depth > 3 {
			n = r.Intn(2)
		}
		wasItem := g.inItem
		g.inItem = true
		defer func() { g.inItem = wasItem }()
		var items []string
		for i := 0; i < n; i++ {
			if _, inner := schema.NullableType(t.Type).(*schema.ListType); inner {
				// items of a list of lists must themselves be lists (or null / variables)
				items = append(items, g.listItemList(t.Type, depth+1, vars))
			} else {
				items = append(items, g.sub(t.Type, depth+1, vars))
			}
		}
		return "[" + strings.Join(items, ", ") + "]"
	case *schema.ScalarType:
		switch t {
		case graphql.IntType:
			return rng.Pick(r, intLits)
		case graphql.FloatType:
			return rng.Pick(r, floatLits)
		case graphql.StringType:
			return rng.Pick(r, stringLits)
		case graphql.BooleanType:
			return rng.Pick(r, []string{"true", "false"})
		case graphql.IDType:
			return rng.Pick(r, []string{`"id1"`, "5", `""`, "9223372036854775807"})
		}
		switch t.Name {
		case "Custom":
			return rng.Pick(r, []string{`"c"`, "12"})
		case "OnlyObj":
			if v := g.nestedVar(vars); v != "" {
				// nothing is expected of what a literal for a scalar contains: any variable will do
				return rng.Pick(r, []string{`{a: ` + v + `}`, `[1, ` + v + `]`, `{a: {b: [` + v + `]}}`, `[[` + v + `]]`})
			}
			return rng.Pick(r, []string{`{a: 1}`, `[1, "x"]`, `{}`})
		default: // Any
			if v := g.nestedVar(vars); v != "" {
				return rng.Pick(r, []string{`{a: ` + v + `}`, `[` + v + `]`, `{a: {b: [1, ` + v + `]}}`, `[{k: ` + v + `}, ` + v + `]`})
			}
			return rng.Pick(r, []string{"1", `"x"`, "true", "1.5", "RED", `[1, {k: "v"}]`, `{a: {b: [1]}}`})
		}
	case *schema.EnumType:
		return rng.Pick(r, sortedKeys(t.Values))
	case *schema.InputObjectType:
		// the value of an input object field is coerced like an argument value
		wasItem := g.inItem
		g.inItem = false
		defer func() { g.inItem = wasItem }()
		var fs []string
		for _, n := range sortedKeys(t.Fields) {
			def := t.Fields[n]
			required := schema.IsNonNullType(def.Type) && def.DefaultValue == nil
			if !required && (depth > 3 || !r.Chance(1, 2)) {
				continue
			}
			var v string
			if vars {
				v = g.value(def.Type, depth+1, def.DefaultValue != nil && def.DefaultValue != schema.Null)
			} else {
				v = g.literal(def.Type, depth+1, false)
			}
			fs = append(fs, n+": "+v)
		}
		return "{" + strings.Join(fs, ", ") + "}"
	}
	panic("literal: " + t.String())
}

func (g *gen) listItemList(t schema.Type, depth int, vars bool) string {
	if nnT, ok := t.(*schema.NonNullType); ok {
		t = nnT.Type
	} else if g.r.Chance(1, 8) {
		return "null"
	}
	lt := t.(*schema.ListType)
	n := g.r.Intn(3)
	wasItem := g.inItem
	g.inItem = true
	defer func() { g.inItem = wasItem }()
	var items []string
	for i := 0; i < n; i++ {
		items = append(items, g.sub(lt.Type, depth+1, vars))
	}
	return "[" + strings.Join(items, ", ") + "]"
}

// ---- directives ----

func (g *gen) directive(loc schema.DirectiveLocation, seen map[string]bool) (gDir, bool) {
	r := g.r
	var cands []string
	for _, n := range sortedKeys(g.w.S.Directives()) {
		for _, l := range g.w.S.Directives()[n].Locations {
			if l == loc && !seen[n] {
				cands = append(cands, n)
			}
		}
	}
	if len(cands) == 0 {
		return gDir{}, false
	}
	n := rng.Pick(r, cands)
	return gDir{Name: n, Args: g.arguments(g.w.S.Directives()[n].Arguments, true)}, true
}

func (g *gen) directives(loc schema.DirectiveLocation) []gDir {
	if !g.r.Chance(1, 5) {
		return nil
	}
	var out []gDir
	seen := map[string]bool{}
	for i := 0; i < 1+g.r.Intn(2); i++ {
		if d, ok := g.directive(loc, seen); ok {
			seen[d.Name] = true
			out = append(out, d)
		}
	}
	return out
}

func (g *gen) arguments(defs map[string]*schema.InputValueDefinition, isDirective bool) []gArg {
	var out []gArg
	for _, n := range sortedKeys(defs) {
		def := defs[n]
		required := schema.IsNonNullType(def.Type) && def.DefaultValue == nil
		if !required && !g.r.Chance(1, 2) {
			continue
		}
		locDefault := def.DefaultValue != nil
		if isDirective {
			locDefault = def.DefaultValue != nil && def.DefaultValue != schema.Null
		}
		out = append(out, gArg{Name: n, Val: g.value(def.Type, 0, locDefault), Type: def.Type, Dflt: def.DefaultValue != nil})
	}
	// arguments may come in any order
	if len(out) > 1 && g.r.Chance(1, 3) {
		out[0], out[len(out)-1] = out[len(out)-1], out[0]
	}
	return out
}

// ---- selections ----

func argsText(as []gArg) string {
	var b strings.Builder
	renderArgs(&b, as)
	return b.String()
}

func (g *gen) field(parent schema.NamedType, set *gSet, shallow bool) *gSel {
	r := g.r
	var names []string
	for _, n := range sortedKeys(fieldsOf(parent)) {
		if g.visible(fieldsOf(parent)[n].RequiredFeatures) {
			names = append(names, n)
		}
	}
	names = append(names, "__typename")
	if parent == schema.NamedType(g.w.S.QueryType()) {
		names = append(names, "__schema", "__type")
	}
	if _, ok := parent.(*schema.UnionType); ok {
		names = []string{"__typename"}
	}
	name := rng.Pick(r, names)
	sel := &gSel{Kind: kField, Name: name}
	var def *schema.FieldDefinition
	switch name {
	case "__typename":
	case "__schema":
		sel.Sub = &gSet{Sels: []*gSel{{Kind: kField, Name: "queryType", Sub: &gSet{Sels: []*gSel{{Kind: kField, Name: "name"}}}}, {Kind: kField, Name: "__typename"}}}
		g.setMeta(sel.Sub, nil, set)
		return sel
	case "__type":
		sel.Args = []gArg{{Name: "name", Val: `"Query"`, Type: nn(graphql.StringType)}}
		sel.Sub = &gSet{Sels: []*gSel{{Kind: kField, Name: "kind"}, {Kind: kField, Name: "fields", Args: []gArg{{Name: "includeDeprecated", Val: "true"}}, Sub: &gSet{Sels: []*gSel{{Kind: kField, Name: "name"}}}}}}
		g.setMeta(sel.Sub, nil, set)
		if g.byResp["__type"] != "" {
			sel.Alias = g.freshAlias()
		}
		g.byResp[respName(sel)] = "__type" + argsText(sel.Args)
		return sel
	default:
		def = fieldsOf(parent)[name]
	}
	sel.Def = def
	// response name
	resp := name
	if twins[name] {
		sel.Alias = name + "_" + parent.TypeName()
		resp = sel.Alias
	} else if r.Chance(1, 4) {
		// reuse an alias that already stands for this field, or make a fresh one
		var reuse []string
		for _, k := range sortedKeys(g.byResp) {
			if k != name && strings.HasPrefix(g.byResp[k], name+"(") || g.byResp[k] == name && k != name {
				reuse = append(reuse, k)
			}
		}
		if len(reuse) > 0 && r.Chance(1, 2) {
			sel.Alias = rng.Pick(r, reuse)
		} else {
			sel.Alias = g.freshAlias()
		}
		resp = sel.Alias
	}
	if def != nil {
		if as, ok := g.argsOf[resp]; ok {
			sel.Args = append([]gArg(nil), as...)
		} else {
			sel.Args = g.arguments(def.Arguments, false)
			g.argsOf[resp] = sel.Args
		}
	}
	g.byResp[resp] = name + argsText(sel.Args)
	sel.Dirs = g.directives(schema.DirectiveLocationField)
	if def != nil {
		if ut := schema.UnwrappedType(def.Type); isComposite(ut) {
			if shallow {
				sel.Sub = &gSet{Parent: ut, Sels: []*gSel{{Kind: kField, Name: "__typename"}}, Depth: set.Depth + 1, UnderArgs: set.UnderArgs || len(sel.Args) > 0 || len(sel.Dirs) > 0, InFrag: set.InFrag}
			} else {
				sel.Sub = g.set(ut, set, len(sel.Args) > 0 || len(sel.Dirs) > 0)
			}
		}
	}
	return sel
}

func respName(s *gSel) string {
	if s.Alias != "" {
		return s.Alias
	}
	return s.Name
}

func (g *gen) freshAlias() string {
	g.nAlias++
	return fmt.Sprintf("a%d", g.nAlias)
}

func (g *gen) setMeta(s *gSet, parent schema.NamedType, outer *gSet) {
	s.Parent = parent
	if outer != nil {
		s.Depth = outer.Depth + 1
		s.UnderArgs = outer.UnderArgs
		s.InFrag = outer.InFrag
	}
	for _, sel := range s.Sels {
		if sel.Sub != nil {
			g.setMeta(sel.Sub, nil, s)
		}
	}
}

// a selection set on parent, nested in outer
func (g *gen) set(parent schema.NamedType, outer *gSet, underArgs bool) *gSet {
	r := g.r
	s := &gSet{Parent: parent, InFrag: g.inFrag}
	if outer != nil {
		s.Depth = outer.Depth + 1
		s.UnderArgs = outer.UnderArgs || underArgs
		s.InFrag = outer.InFrag
	}
	n := 1 + r.Intn(3)
	if s.Depth >= g.maxDep {
		n = 1
	}
	for i := 0; i < n || len(s.Sels) == 0; i++ {
		g.budget--
		k := r.Intn(10)
		deep := s.Depth >= g.maxDep || g.budget <= 0
		switch {
		case k < 6 || deep:
			f := g.field(parent, s, deep)
			s.Sels = append(s.Sels, f)
			// an identical overlapping field now and then
			if f.Def != nil && r.Chance(1, 6) {
				dup := &gSel{Kind: kField, Alias: f.Alias, Name: f.Name, Args: append([]gArg(nil), f.Args...), Def: f.Def}
				if len(dup.Args) >= 2 && len(s.Sels)%2 == 0 {
					// the same arguments written in another order: still identical arguments for 5.3.2
					for i, j := 0, len(dup.Args)-1; i < j; i, j = i+1, j-1 {
						dup.Args[i], dup.Args[j] = dup.Args[j], dup.Args[i]
					}
				}
				if f.Sub != nil {
					if deep {
						dup.Sub = &gSet{Parent: f.Sub.Parent, Sels: []*gSel{{Kind: kField, Name: "__typename"}}, Depth: s.Depth + 1, UnderArgs: s.UnderArgs, InFrag: s.InFrag}
					} else {
						dup.Sub = g.set(f.Sub.Parent, s, len(dup.Args) > 0)
					}
				}
				s.Sels = append(s.Sels, dup)
			}
		case k < 8:
			// inline fragment
			sel := &gSel{Kind: kInline}
			target := parent
			if r.Chance(3, 4) {
				target = rng.Pick(r, g.compatible(parent))
				sel.Cond = target.TypeName()
			}
			sel.Dirs = g.directives(schema.DirectiveLocationInlineFragment)
			sel.Sub = g.set(target, s, len(sel.Dirs) > 0)
			s.Sels = append(s.Sels, sel)
		default:
			s.Sels = append(s.Sels, g.spread(parent, s))
		}
	}
	return s
}

func (g *gen) spread(parent schema.NamedType, s *gSet) *gSel {
	r := g.r
	pp := g.possible(parent)
	var cands []*gFrag
	for _, f := range g.doc.Frags {
		if !f.Done {
			continue // being generated: spreading it would close a cycle
		}
		for k := range g.possible(f.CondT) {
			if pp[k] {
				cands = append(cands, f)
				break
			}
		}
	}
	var f *gFrag
	if len(cands) > 0 && r.Chance(2, 3) {
		f = rng.Pick(r, cands)
	} else {
		g.nFrag++
		t := rng.Pick(r, g.compatible(parent))
		f = &gFrag{Name: fmt.Sprintf("F%d", g.nFrag), Cond: t.TypeName(), CondT: t}
		g.doc.Frags = append(g.doc.Frags, f)
		saved := g.inFrag
		g.inFrag = f
		f.Dirs = g.directives(schema.DirectiveLocationFragmentDefinition)
		root := &gSet{Depth: s.Depth, InFrag: f}
		f.Set = g.set(t, root, false)
		f.Set.Depth = 0
		f.Set.InFrag = f
		g.inFrag = saved
		f.Done = true
	}
	return &gSel{Kind: kSpread, Name: f.Name, Dirs: g.directives(schema.DirectiveLocationFragmentSpread)}
}

// genValid builds a document that obeys every validation rule.
func genValid(w *world, r *rng.R, size int) *gDoc {
	g := &gen{w: w, r: r, doc: &gDoc{}, byResp: map[string]string{}, argsOf: map[string][]gArg{}, maxDep: 2 + r.Intn(3), budget: size}
	kinds := []string{"", "query", "query", "query"}
	if w.HasMut {
		kinds = append(kinds, "mutation")
	}
	if w.HasSub {
		kinds = append(kinds, "subscription")
	}
	nOps := 1
	if r.Chance(1, 6) {
		nOps = 2 + r.Intn(2)
	}
	for i := 0; i < nOps; i++ {
		op := &gOp{Kind: rng.Pick(r, kinds)}
		if nOps > 1 {
			if op.Kind == "" {
				op.Kind = "query"
			}
			op.Name = fmt.Sprintf("Op%d", i)
		} else if op.Kind != "" && r.Chance(1, 2) {
			op.Name = "Main"
		}
		g.op = nil
		if nOps == 1 && op.Kind != "" {
			g.op = op // variables only where a single operation owns every fragment
		}
		g.doc.Ops = append(g.doc.Ops, op)
		var root schema.NamedType
		switch op.Kind {
		case "mutation":
			root = w.S.MutationType()
			op.Dirs = g.directives(schema.DirectiveLocationMutation)
		case "subscription":
			root = w.S.SubscriptionType()
			op.Dirs = g.directives(schema.DirectiveLocationSubscription)
		default:
			root = w.S.QueryType()
			if op.Kind != "" {
				op.Dirs = g.directives(schema.DirectiveLocationQuery)
			}
		}
		if op.Kind == "subscription" {
			// exactly one root field (possibly twice the same, possibly through a fragment)
			top := &gSet{Parent: root}
			nv, vars := g.nVar, len(op.Vars)
			f := g.field(root, top, false)
			for f.Name == "__typename" {
				g.nVar, op.Vars = nv, op.Vars[:vars] // forget what the discarded field declared
				f = g.field(root, top, false)
			}
			top.Sels = []*gSel{f}
			op.Set = top
		} else {
			op.Set = g.set(root, nil, false)
		}
	}
	// now and then: a fragment that uses variables, shared (directly and through another fragment) by
	// several operations, each of which declares the variables
	if r.Chance(1, 4) {
		g.shareVariables()
	}
	// definition order: shuffle fragments among operations now and then
	if r.Chance(1, 3) {
		var order []int
		for i := range g.doc.Frags {
			order = append(order, -1-i)
		}
		for i := range g.doc.Ops {
			order = append(order, i)
		}
		g.doc.Order = order
	}
	return g.doc
}

// shareVariables adds  fragment SV on Query {sv: arg(x: $sv) ...SW}  fragment SW on Query {sw: arg(y: $sw)}
// and spreads SV in at least two query operations that declare $sv and $sw (an operation of another
// root type, or the shorthand form, cannot take part). It returns the operations that take part.
func (g *gen) shareVariables() []*gOp {
	d, q := g.doc, g.w.S.QueryType()
	if _, ok := fieldsOf(q)["arg"]; !ok {
		return nil
	}
	for _, f := range d.Frags {
		if f.Name == "SV" {
			return nil
		}
	}
	var part []*gOp
	for _, op := range d.Ops {
		if op.Kind == "" {
			op.Kind = "query"
		}
		if op.Kind == "query" {
			part = append(part, op)
		}
	}
	for i := 0; len(part) < 2 || (len(part) < 3 && g.r.Chance(1, 3)); i++ {
		op := &gOp{Kind: "query", Name: fmt.Sprintf("Shared%d", i), Set: &gSet{Parent: q}}
		d.Ops = append(d.Ops, op)
		part = append(part, op)
	}
	for i, op := range d.Ops {
		if op.Name == "" { // more than one operation now: all need names
			op.Name = fmt.Sprintf("Named%d", i)
		}
	}
	for _, op := range part {
		op.Vars = append(op.Vars, &gVar{Name: "sv", Type: "Int", T: graphql.IntType}, &gVar{Name: "sw", Type: rng.Pick(g.r, []string{"Int", "Int!"}), T: graphql.IntType})
		op.Set.Sels = append(op.Set.Sels, &gSel{Kind: kSpread, Name: "SV"})
	}
	arg := fieldsOf(q)["arg"]
	sw := &gFrag{Name: "SW", Cond: "Query", CondT: q, Done: true, Set: &gSet{Parent: q, Sels: []*gSel{
		{Kind: kField, Alias: "sw", Name: "arg", Def: arg, Args: []gArg{{Name: "y", Val: "$sw", Type: graphql.IntType}}}}}}
	sv := &gFrag{Name: "SV", Cond: "Query", CondT: q, Done: true, Set: &gSet{Parent: q, Sels: []*gSel{
		{Kind: kField, Alias: "sv", Name: "arg", Def: arg, Args: []gArg{{Name: "x", Val: "$sv", Type: graphql.IntType}}},
		{Kind: kSpread, Name: "SW"}}}}
	sw.Set.InFrag, sv.Set.InFrag = sw, sv
	d.Frags = append(d.Frags, sv, sw)
	d.Order = nil
	return part
}
