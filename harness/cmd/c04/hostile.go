package main

import (
	"regexp"
	"strings"

	"github.com/ccbrown/api-fu/graphql/parser"

	"verifharness/internal/rng"
)

// Hostile stream: token-level edits of valid documents (delete, duplicate, swap, rename), kept when
// the result still parses. Nothing is known about the verdict: the Spec oracle decides.

var tokenRe = regexp.MustCompile(`\.\.\.|"""(?:[^"]|"[^"]|""[^"])*"""|"(?:[^"\\\n]|\\.)*"|[_A-Za-z][_0-9A-Za-z]*|-?[0-9][0-9.eE+-]*|\$|[{}()\[\]:=@!,|&]|\s+`)

var pool = []string{"i", "s", "id", "name", "alpha", "beta", "arg", "req", "x", "y", "Alpha", "Beta", "Query", "Named", "Node", "AB", "Int", "Inner",
	"on", "fragment", "query", "include", "skip", "tag", "if", "label", "true", "null", "1", `"a"`, "RED", "__typename", "F1", "F2", "$v1", "cmp", "in", "r", "oa", "ab", "t", "to"}

func hostile(w *world, r *rng.R) string {
	for try := 0; try < 30; try++ {
		src := genValid(w, r.Fork(uint64(100+try)), 10).render(false)
		toks := tokenRe.FindAllString(src, -1)
		var idx []int
		for i, t := range toks {
			if strings.TrimSpace(t) != "" {
				idx = append(idx, i)
			}
		}
		if len(idx) < 3 {
			continue
		}
		rr := r.Fork(uint64(200 + try))
		for e := 0; e < 1+rr.Intn(3); e++ {
			i := rng.Pick(rr, idx)
			switch rr.Intn(5) {
			case 0:
				toks[i] = ""
			case 1:
				toks[i] = toks[i] + " " + toks[i]
			case 2:
				j := rng.Pick(rr, idx)
				toks[i], toks[j] = toks[j], toks[i]
			case 3:
				if regexp.MustCompile(`^[_A-Za-z]`).MatchString(toks[i]) {
					toks[i] = rng.Pick(rr, pool)
				} else {
					toks[i] = rng.Pick(rr, []string{"1", `"s"`, "null", "[1]", "{a: 1}", "$v1", "RED", "1.5"})
				}
			default:
				j := rng.Pick(rr, idx)
				toks[i] = toks[i] + " " + toks[j]
			}
		}
		out := strings.Join(toks, "")
		if doc, errs := parser.ParseDocument([]byte(out)); len(errs) == 0 && doc != nil && len(doc.Definitions) > 0 {
			return out
		}
	}
	return "{__typename}"
}
