package main

import (
	"github.com/ccbrown/api-fu/graphql/ast"
	"github.com/ccbrown/api-fu/graphql/token"

	"verifharness/internal/sexp"
)

// The parsed AST (real parser) as the s-expression Vld/Decode.v reads, positions included.

func posS(p token.Position) sexp.Node { return sexp.L(sexp.Int(p.Line), sexp.Int(p.Column)) }

func namedS(n *ast.Name) sexp.Node {
	return sexp.L(sexp.Str(n.Name), sexp.Int(n.NamePosition.Line), sexp.Int(n.NamePosition.Column))
}

func optNamedS(n *ast.Name) sexp.Node {
	if n == nil {
		return sexp.None()
	}
	return sexp.Some(namedS(n))
}

func valueS(v ast.Value) sexp.Node {
	switch v := v.(type) {
	case *ast.Variable:
		return sexp.T("var", sexp.Str(v.Name.Name), posS(v.Dollar), posS(v.Name.NamePosition))
	case *ast.IntValue:
		return sexp.T("int", sexp.Str(v.Value), posS(v.Literal))
	case *ast.FloatValue:
		return sexp.T("float", sexp.Str(v.Value), posS(v.Literal))
	case *ast.StringValue:
		return sexp.T("str", sexp.Str(v.Value), posS(v.Literal))
	case *ast.BooleanValue:
		return sexp.T("bool", sexp.Bool(v.Value), posS(v.Literal))
	case *ast.NullValue:
		return sexp.T("null", posS(v.Literal))
	case *ast.EnumValue:
		return sexp.T("enum", sexp.Str(v.Value), posS(v.Literal))
	case *ast.ListValue:
		items := []sexp.Node{posS(v.Opening)}
		for _, x := range v.Values {
			items = append(items, valueS(x))
		}
		return sexp.T("list", items...)
	case *ast.ObjectValue:
		items := []sexp.Node{posS(v.Opening)}
		for _, f := range v.Fields {
			items = append(items, sexp.L(sexp.Str(f.Name.Name), posS(f.Name.NamePosition), valueS(f.Value)))
		}
		return sexp.T("obj", items...)
	}
	panic("valueS")
}

func typeS(t ast.Type) sexp.Node {
	switch t := t.(type) {
	case *ast.NamedType:
		return sexp.T("n", sexp.Str(t.Name.Name), posS(t.Name.NamePosition))
	case *ast.ListType:
		return sexp.T("l", typeS(t.Type), posS(t.Opening))
	case *ast.NonNullType:
		return sexp.T("nn", typeS(t.Type))
	}
	panic("typeS")
}

func argsS(as []*ast.Argument) sexp.Node {
	var out []sexp.Node
	for _, a := range as {
		out = append(out, sexp.L(sexp.Str(a.Name.Name), posS(a.Name.NamePosition), valueS(a.Value)))
	}
	return sexp.L(out...)
}

func dirsS(ds []*ast.Directive) sexp.Node {
	var out []sexp.Node
	for _, d := range ds {
		out = append(out, sexp.L(sexp.Str(d.Name.Name), posS(d.Name.NamePosition), posS(d.At), argsS(d.Arguments)))
	}
	return sexp.L(out...)
}

func selSetS(s *ast.SelectionSet) sexp.Node {
	items := []sexp.Node{posS(s.Opening)}
	for _, sel := range s.Selections {
		switch sel := sel.(type) {
		case *ast.Field:
			sub := sexp.None()
			if sel.SelectionSet != nil {
				sub = sexp.Some(selSetS(sel.SelectionSet))
			}
			items = append(items, sexp.T("field", optNamedS(sel.Alias), sexp.Str(sel.Name.Name), posS(sel.Name.NamePosition), argsS(sel.Arguments), dirsS(sel.Directives), sub))
		case *ast.FragmentSpread:
			items = append(items, sexp.T("spread", sexp.Str(sel.FragmentName.Name), posS(sel.FragmentName.NamePosition), dirsS(sel.Directives), posS(sel.Ellipsis)))
		case *ast.InlineFragment:
			cond := sexp.None()
			if sel.TypeCondition != nil {
				cond = sexp.Some(namedS(sel.TypeCondition.Name))
			}
			items = append(items, sexp.T("inline", cond, dirsS(sel.Directives), selSetS(sel.SelectionSet), posS(sel.Ellipsis)))
		default:
			panic("selection")
		}
	}
	return sexp.T("ss", items...)
}

func docS(d *ast.Document) sexp.Node {
	var defs []sexp.Node
	for _, def := range d.Definitions {
		switch def := def.(type) {
		case *ast.OperationDefinition:
			ot := sexp.None()
			if def.OperationType != nil {
				ot = sexp.Some(sexp.L(sexp.Str(def.OperationType.Value), sexp.Int(def.OperationType.ValuePosition.Line), sexp.Int(def.OperationType.ValuePosition.Column)))
			}
			var vars []sexp.Node
			for _, v := range def.VariableDefinitions {
				dv := sexp.None()
				if v.DefaultValue != nil {
					dv = sexp.Some(valueS(v.DefaultValue))
				}
				vars = append(vars, sexp.L(sexp.Str(v.Variable.Name.Name), posS(v.Variable.Dollar), posS(v.Variable.Name.NamePosition), typeS(v.Type), dv))
			}
			defs = append(defs, sexp.T("op", ot, optNamedS(def.Name), sexp.L(vars...), dirsS(def.Directives), selSetS(def.SelectionSet)))
		case *ast.FragmentDefinition:
			defs = append(defs, sexp.T("frag", posS(def.Fragment), sexp.Str(def.Name.Name), posS(def.Name.NamePosition), namedS(def.TypeCondition.Name), dirsS(def.Directives), selSetS(def.SelectionSet)))
		default:
			panic("definition")
		}
	}
	return sexp.T("doc", defs...)
}
