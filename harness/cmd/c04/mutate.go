package main

import (
	"fmt"
	"strings"

	"github.com/ccbrown/api-fu/graphql"
	"github.com/ccbrown/api-fu/graphql/schema"

	"verifharness/internal/rng"
)

// A mutator turns a valid document into one that violates one rule of chapter 5. It returns the
// rule's section number (the Coq oracle confirms that the rule is really violated: the "semantic
// guard") or "" if it found no place to apply itself. Sites beneath fields that carry arguments
// or directives are preferred.

type mutator struct {
	Name string
	Rule string
	Do   func(m *mctx) bool
}

type mctx struct {
	w *world
	r *rng.R
	d *gDoc
}

func (m *mctx) pickSet(ok func(*gSet) bool) *gSet {
	var pref, rest []*gSet
	for _, s := range m.d.sets() {
		if s.Parent == nil || !ok(s) {
			continue
		}
		if s.UnderArgs {
			pref = append(pref, s)
		} else {
			rest = append(rest, s)
		}
	}
	if len(pref) > 0 && (len(rest) == 0 || m.r.Chance(2, 3)) {
		return rng.Pick(m.r, pref)
	}
	if len(rest) > 0 {
		return rng.Pick(m.r, rest)
	}
	return nil
}

func (m *mctx) pickSel(ok func(selSite) bool) *selSite {
	var pref, rest []selSite
	for _, s := range m.d.sels() {
		if !ok(s) {
			continue
		}
		if s.Set.UnderArgs {
			pref = append(pref, s)
		} else {
			rest = append(rest, s)
		}
	}
	if len(pref) > 0 && (len(rest) == 0 || m.r.Chance(2, 3)) {
		x := rng.Pick(m.r, pref)
		return &x
	}
	if len(rest) > 0 {
		x := rng.Pick(m.r, rest)
		return &x
	}
	return nil
}

func anySet(*gSet) bool { return true }

// sets written inside op itself (not in fragments, which other operations may share)
func inOp(op *gOp, ok func(*gSet) bool) func(*gSet) bool {
	mine := map[*gSet]bool{}
	var walk func(s *gSet)
	walk = func(s *gSet) {
		mine[s] = true
		for _, sel := range s.Sels {
			if sel.Sub != nil {
				walk(sel.Sub)
			}
		}
	}
	walk(op.Set)
	return func(s *gSet) bool { return mine[s] && ok(s) }
}

func hasField(name string) func(*gSet) bool {
	return func(s *gSet) bool { _, ok := fieldsOf(s.Parent)[name]; return ok }
}

func (m *mctx) visibleField(s *gSet, name string) bool {
	f, ok := fieldsOf(s.Parent)[name]
	return ok && f.RequiredFeatures.IsSubsetOf(m.w.Features)
}

func (m *mctx) insert(s *gSet, sels ...*gSel) {
	i := m.r.Intn(len(s.Sels) + 1)
	out := append([]*gSel(nil), s.Sels[:i]...)
	out = append(out, sels...)
	out = append(out, s.Sels[i:]...)
	s.Sels = out
}

func leaf(name string) *gSel { return &gSel{Kind: kField, Name: name} }
func aliased(alias, name string, args ...gArg) *gSel {
	return &gSel{Kind: kField, Alias: alias, Name: name, Args: args}
}
func typenameSet(parent schema.NamedType, outer *gSet) *gSet {
	return &gSet{Parent: parent, Sels: []*gSel{leaf("__typename")}, Depth: outer.Depth + 1, UnderArgs: outer.UnderArgs, InFrag: outer.InFrag}
}

func (m *mctx) firstOp() *gOp { return m.d.Ops[0] }

// an operation that may declare variables (not the shorthand form)
func (m *mctx) varOp() *gOp {
	for _, op := range m.d.Ops {
		if op.Kind != "" {
			return op
		}
	}
	op := m.d.Ops[0]
	op.Kind = "query"
	return op
}

func (m *mctx) compositeParent(s *gSet) bool { return isComposite(s.Parent) }

var mutators = []mutator{
	// ---- 5.2 operations
	{"dup-operation-name", "5.2.1.1", func(m *mctx) bool {
		op := m.varOp()
		if op.Name == "" {
			op.Name = "Main"
		}
		m.d.Ops = append(m.d.Ops, &gOp{Kind: "query", Name: op.Name, Set: &gSet{Parent: m.w.S.QueryType(), Sels: []*gSel{leaf("__typename")}}})
		m.d.Order = nil
		return true
	}},
	{"extra-anonymous-operation", "5.2.2.1", func(m *mctx) bool {
		extra := &gOp{Kind: rng.Pick(m.r, []string{"", "query"}), Set: &gSet{Parent: m.w.S.QueryType(), Sels: []*gSel{leaf("__typename")}}}
		if m.r.Chance(1, 2) {
			// the existing one stays named, the new one is anonymous
			m.d.Ops = append(m.d.Ops, extra)
		} else {
			m.d.Ops = append([]*gOp{extra}, m.d.Ops...)
		}
		m.d.Order = nil
		return true
	}},
	{"operation-without-root-type", "5.2.root", func(m *mctx) bool {
		kind := ""
		if !m.w.HasMut {
			kind = "mutation"
		} else if !m.w.HasSub {
			kind = "subscription"
		} else {
			return false
		}
		m.d.Ops = append(m.d.Ops, &gOp{Kind: kind, Name: "NoRoot", Set: &gSet{Sels: []*gSel{leaf("__typename")}}})
		if len(m.d.Ops) == 2 && m.d.Ops[0].Name == "" {
			if m.d.Ops[0].Kind == "" {
				m.d.Ops[0].Kind = "query"
			}
			m.d.Ops[0].Name = "Main"
		}
		m.d.Order = nil
		return true
	}},
	{"subscription-two-roots", "5.2.3.1", func(m *mctx) bool {
		if !m.w.HasSub {
			return false
		}
		root := m.w.S.SubscriptionType()
		set := &gSet{Parent: root}
		switch m.r.Intn(3) {
		case 0:
			set.Sels = []*gSel{leaf("i"), aliased("j", "i")}
		case 1:
			set.Sels = []*gSel{leaf("i"), {Kind: kInline, Sub: &gSet{Parent: root, Sels: []*gSel{aliased("k", "i")}}}}
		default:
			m.d.Frags = append(m.d.Frags, &gFrag{Name: "SubRoots", Cond: root.Name, CondT: root, Set: &gSet{Parent: root, Sels: []*gSel{leaf("i"), aliased("z", "arg")}}, Done: true})
			set.Sels = []*gSel{{Kind: kSpread, Name: "SubRoots"}}
		}
		for _, op := range m.d.Ops {
			if op.Name == "" {
				if op.Kind == "" {
					op.Kind = "query"
				}
				op.Name = "Main"
			}
		}
		m.d.Ops = append(m.d.Ops, &gOp{Kind: "subscription", Name: "Sub2", Set: set})
		m.d.Order = nil
		return true
	}},
	// ---- 5.3 fields
	{"unknown-field", "5.3.1", func(m *mctx) bool {
		s := m.pickSet(m.compositeParent)
		if s == nil {
			return false
		}
		name := "nope"
		if _, isUnion := s.Parent.(*schema.UnionType); isUnion || m.r.Chance(1, 4) {
			name = rng.Pick(m.r, []string{"id", "zzz", "__schema", "__nope"})
			if _, ok := fieldsOf(s.Parent)[name]; ok || (name == "__schema" && s.Parent == schema.NamedType(m.w.S.QueryType())) {
				name = "nope"
			}
		}
		m.insert(s, aliased("u9", name))
		return true
	}},
	{"leaf-with-selection", "5.3.3", func(m *mctx) bool {
		site := m.pickSel(func(s selSite) bool {
			return s.Sel.Kind == kField && s.Sel.Def != nil && !isComposite(schema.UnwrappedType(s.Sel.Def.Type))
		})
		if site == nil {
			return false
		}
		sub := &gSet{Sels: []*gSel{leaf("__typename")}}
		if m.r.Chance(1, 2) {
			// with a fragment inside (the getPossibleTypes panic)
			t := rng.Pick(m.r, m.w.Objects)
			sub = &gSet{Sels: []*gSel{{Kind: kInline, Cond: t.Name, Sub: &gSet{Sels: []*gSel{leaf("__typename")}}}}}
		}
		for _, x := range m.d.sels() {
			if x.Sel.Kind == kField && respName(x.Sel) == respName(site.Sel) && x.Sel.Name == site.Sel.Name {
				_ = x
			}
		}
		site.Sel.Sub = sub
		return true
	}},
	{"composite-without-selection", "5.3.3", func(m *mctx) bool {
		site := m.pickSel(func(s selSite) bool { return s.Sel.Kind == kField && s.Sel.Def != nil && s.Sel.Sub != nil })
		if site == nil {
			return false
		}
		site.Sel.Sub = nil
		return true
	}},
	{"merge-different-fields", "5.3.2", func(m *mctx) bool {
		s := m.pickSet(func(s *gSet) bool { return m.visibleField(s, "i") && m.visibleField(s, "id") })
		if s == nil {
			return false
		}
		a, b := aliased("mx", "i"), aliased("mx", "id")
		if m.r.Chance(1, 2) {
			m.insert(s, a)
			m.insert(s, b)
		} else {
			// the second one inside an inline fragment or a fragment
			if m.r.Chance(1, 2) {
				m.insert(s, a, &gSel{Kind: kInline, Sub: &gSet{Parent: s.Parent, Sels: []*gSel{b}}})
			} else {
				m.d.Frags = append(m.d.Frags, &gFrag{Name: "MX", Cond: s.Parent.TypeName(), CondT: s.Parent, Set: &gSet{Parent: s.Parent, Sels: []*gSel{b}}, Done: true})
				m.insert(s, a, &gSel{Kind: kSpread, Name: "MX"})
				m.d.Order = nil
			}
		}
		return true
	}},
	{"merge-different-arguments", "5.3.2", func(m *mctx) bool {
		s := m.pickSet(func(s *gSet) bool { return m.visibleField(s, "arg") })
		if s == nil {
			return false
		}
		I := graphql.IntType
		variants := [][2][]gArg{
			{{{Name: "x", Val: "1", Type: I}}, {{Name: "x", Val: "2", Type: I}}},
			{{{Name: "x", Val: "1", Type: I}}, {{Name: "y", Val: "1", Type: I}}},
			{{{Name: "x", Val: "1", Type: I}}, nil},
			{{{Name: "x", Val: "1", Type: I}, {Name: "y", Val: "2", Type: I}}, {{Name: "y", Val: "2", Type: I}, {Name: "x", Val: "3", Type: I}}},
			{{{Name: "x", Val: "1", Type: I}}, {{Name: "x", Val: "1", Type: I}, {Name: "y", Val: "1", Type: I}}},
		}
		v := rng.Pick(m.r, variants)
		m.insert(s, aliased("ma", "arg", v[0]...))
		m.insert(s, aliased("ma", "arg", v[1]...))
		return true
	}},
	{"merge-across-parents", "5.3.2", func(m *mctx) bool {
		// the two overlapping fields sit in selection sets with different parent types, at least one of
		// which is not an object type (interface / implementing object, interface / interface, the same
		// object through two inline fragments), inside an interface- or union-typed field; the fields
		// have the same response shape, so only the name / argument / nested comparison can object
		s := m.pickSet(func(s *gSet) bool { return m.visibleField(s, "named") && m.visibleField(s, "ab") })
		if s == nil {
			return false
		}
		I := graphql.IntType
		n1, n2 := []gArg{{Name: "n", Val: "1", Type: I}}, []gArg{{Name: "n", Val: "2", Type: I}}
		var a, b *gSel
		switch m.r.Intn(4) {
		case 0: // different fields
			a, b = aliased("mp", "name"), aliased("mp", "nick")
		case 1: // different arguments
			a, b = aliased("mp", "nick", n1...), aliased("mp", "nick", n2...)
		case 2: // nested: different fields beneath identical fields
			a = &gSel{Kind: kField, Name: "friend", Args: n1, Sub: &gSet{Sels: []*gSel{aliased("x", "name")}}}
			b = &gSel{Kind: kField, Name: "friend", Args: n1, Sub: &gSet{Sels: []*gSel{aliased("x", "nick")}}}
		default: // different arguments on a field with a selection set
			a = &gSel{Kind: kField, Name: "friend", Args: n1, Sub: &gSet{Sels: []*gSel{leaf("name")}}}
			b = &gSel{Kind: kField, Name: "friend", Args: n2, Sub: &gSet{Sels: []*gSel{leaf("name")}}}
		}
		on := func(t string, f *gSel) *gSel { return &gSel{Kind: kInline, Cond: t, Sub: &gSet{Sels: []*gSel{f}}} }
		var outer string
		var sels []*gSel
		switch m.r.Intn(6) {
		case 0: // interface / implementing object
			outer, sels = "named", []*gSel{a, on("Alpha", b)}
		case 1: // implementing object / interface
			outer, sels = "named", []*gSel{on("Beta", a), b}
		case 2: // interface / the same interface through an inline fragment
			outer, sels = "named", []*gSel{a, on("Named", b)}
		case 3: // the same object type through two inline fragments
			outer, sels = "named", []*gSel{on("Alpha", a), on("Alpha", b)}
		case 4: // inside a union: interface / member object
			outer, sels = "ab", []*gSel{on("Named", a), on("Alpha", b)}
		default: // inside a union: member object / interface
			outer, sels = "ab", []*gSel{on("Beta", a), on("Named", b)}
		}
		m.insert(s, &gSel{Kind: kField, Alias: "mpo", Name: outer, Sub: &gSet{Sels: sels}})
		return true
	}},
	{"merge-twin-shapes", "5.3.2", func(m *mctx) bool {
		tw := rng.Pick(m.r, []string{"t", "tl", "to", "tn", "tol", "ton"})
		first, second := "Alpha", "Beta"
		if tw == "tn" {
			// Int (Alpha) against Int! (Gamma): non-null against nullable
			tw, second = "t", "Gamma"
		}
		s := m.pickSet(func(s *gSet) bool {
			p := (&gen{w: m.w}).possible(s.Parent)
			return p[first] && p[second]
		})
		if s == nil {
			return false
		}
		// the conflicting pair in either order (the shape comparison is not symmetric in the code)
		if m.r.Chance(1, 2) {
			first, second = second, first
		}
		mk := func(tn string) *gSel {
			f := leaf(tw)
			if tw == "to" || tw == "tol" || tw == "ton" {
				f.Sub = &gSet{Sels: []*gSel{leaf("__typename")}}
			}
			return &gSel{Kind: kInline, Cond: tn, Sub: &gSet{Sels: []*gSel{f}}}
		}
		if tw == "to" {
			// same shape (objects): the conflict is one level down
			a := &gSel{Kind: kInline, Cond: "Alpha", Sub: &gSet{Sels: []*gSel{{Kind: kField, Name: "to", Sub: &gSet{Sels: []*gSel{aliased("w", "i")}}}}}}
			b := &gSel{Kind: kInline, Cond: "Beta", Sub: &gSet{Sels: []*gSel{{Kind: kField, Name: "to", Sub: &gSet{Sels: []*gSel{aliased("w", "name")}}}}}}
			m.insert(s, a, b)
			return true
		}
		m.insert(s, mk(first), mk(second))
		return true
	}},
	{"merge-wrapper-chains", "5.3.2", func(m *mctx) bool {
		// two different object parents, one response name, types that differ in one or more wrappers
		// (non-null or list, at any depth) over the same named type
		s := m.pickSet(func(s *gSet) bool {
			p := (&gen{w: m.w}).possible(s.Parent)
			return p["Alpha"] && p["Beta"]
		})
		if s == nil {
			return false
		}
		kind := rng.Pick(m.r, []string{"sc", "oc"})
		i := m.r.Intn(len(shapeChains))
		j := m.r.Intn(len(shapeChains) - 1)
		if j >= i {
			j++
		}
		mk := func(tn string, k int) *gSel {
			f := aliased("wc", fmt.Sprintf("%s%d", kind, k))
			if kind == "oc" {
				f.Sub = &gSet{Sels: []*gSel{leaf("__typename")}}
			}
			return &gSel{Kind: kInline, Cond: tn, Sub: &gSet{Sels: []*gSel{f}}}
		}
		if m.r.Chance(1, 2) {
			m.insert(s, mk("Alpha", i), mk("Beta", j))
		} else {
			m.insert(s, mk("Beta", j), mk("Alpha", i))
		}
		return true
	}},
	{"merge-nested-conflict", "5.3.2", func(m *mctx) bool {
		s := m.pickSet(func(s *gSet) bool { return m.visibleField(s, "alpha") })
		if s == nil {
			return false
		}
		a := &gSel{Kind: kField, Alias: "mn", Name: "alpha", Sub: &gSet{Sels: []*gSel{aliased("z", "i")}}}
		b := &gSel{Kind: kField, Alias: "mn", Name: "alpha", Sub: &gSet{Sels: []*gSel{aliased("z", "name")}}}
		m.insert(s, a)
		m.insert(s, b)
		return true
	}},
	// ---- 5.4 arguments
	{"unknown-argument", "5.4.1", func(m *mctx) bool {
		if m.r.Chance(1, 3) {
			// on a directive
			site := m.pickSel(func(s selSite) bool { return len(s.Sel.Dirs) > 0 })
			if site != nil {
				site.Sel.Dirs[0].Args = append(site.Sel.Dirs[0].Args, gArg{Name: "zz", Val: "1"})
				return true
			}
		}
		site := m.pickSel(func(s selSite) bool {
			return s.Sel.Kind == kField && len(s.Sel.Args) == 0 && !uniqueResp(m.d, s.Sel) == false
		})
		if site == nil {
			return false
		}
		site.Sel.Args = append(site.Sel.Args, gArg{Name: "zz", Val: "1"})
		return true
	}},
	{"duplicate-argument", "5.4.2", func(m *mctx) bool {
		if m.r.Chance(1, 3) {
			site := m.pickSel(func(s selSite) bool { return len(s.Sel.Dirs) > 0 && len(s.Sel.Dirs[0].Args) > 0 })
			if site != nil {
				d := &site.Sel.Dirs[0]
				d.Args = append(d.Args, d.Args[0])
				return true
			}
		}
		site := m.pickSel(func(s selSite) bool { return s.Sel.Kind == kField && len(s.Sel.Args) > 0 && uniqueResp(m.d, s.Sel) })
		if site == nil {
			s := m.pickSet(func(s *gSet) bool { return m.visibleField(s, "arg") })
			if s == nil {
				return false
			}
			m.insert(s, aliased("da", "arg", gArg{Name: "x", Val: "1"}, gArg{Name: "x", Val: "2"}))
			return true
		}
		site.Sel.Args = append(site.Sel.Args, site.Sel.Args[0])
		return true
	}},
	{"missing-required-argument", "5.4.2.1", func(m *mctx) bool {
		if m.r.Chance(1, 3) {
			site := m.pickSel(func(s selSite) bool {
				return len(s.Sel.Dirs) > 0 && (s.Sel.Dirs[0].Name == "include" || s.Sel.Dirs[0].Name == "skip" || s.Sel.Dirs[0].Name == "tag")
			})
			if site != nil {
				d := &site.Sel.Dirs[0]
				var keep []gArg
				for _, a := range d.Args {
					if a.Name != "if" && a.Name != "label" {
						keep = append(keep, a)
					}
				}
				d.Args = keep
				return true
			}
		}
		s := m.pickSet(func(s *gSet) bool { return m.visibleField(s, "req") || m.visibleField(s, "node") })
		if s == nil {
			return false
		}
		if m.visibleField(s, "req") {
			m.insert(s, aliased("mr", "req", gArg{Name: "o", Val: `"x"`}))
		} else {
			m.insert(s, &gSel{Kind: kField, Alias: "mr", Name: "node", Sub: &gSet{Sels: []*gSel{leaf("id")}}})
		}
		return true
	}},
	// ---- 5.5 fragments
	{"duplicate-fragment-name", "5.5.1.1", func(m *mctx) bool {
		if len(m.d.Frags) == 0 {
			return false
		}
		f := rng.Pick(m.r, m.d.Frags)
		m.d.Frags = append(m.d.Frags, &gFrag{Name: f.Name, Cond: f.Cond, CondT: f.CondT, Set: &gSet{Parent: f.CondT, Sels: []*gSel{leaf("__typename")}}, Done: true})
		m.d.Order = nil
		return true
	}},
	{"unknown-type-condition", "5.5.1.2", func(m *mctx) bool {
		name := rng.Pick(m.r, []string{"Nope", "Gated", "query"})
		if name == "Gated" && m.w.Features.Has("gate") {
			name = "Nope"
		}
		if len(m.d.Frags) > 0 && m.r.Chance(1, 2) {
			rng.Pick(m.r, m.d.Frags).Cond = name
			return true
		}
		site := m.pickSel(func(s selSite) bool { return s.Sel.Kind == kInline })
		if site == nil {
			s := m.pickSet(anySet)
			m.insert(s, &gSel{Kind: kInline, Cond: name, Sub: &gSet{Sels: []*gSel{leaf("__typename")}}})
			return true
		}
		site.Sel.Cond = name
		return true
	}},
	{"type-condition-not-composite", "5.5.1.3", func(m *mctx) bool {
		name := rng.Pick(m.r, []string{"Int", "Color", "Inner", "String", "Custom"})
		if len(m.d.Frags) > 0 && m.r.Chance(1, 2) {
			rng.Pick(m.r, m.d.Frags).Cond = name
			return true
		}
		s := m.pickSet(anySet)
		m.insert(s, &gSel{Kind: kInline, Cond: name, Sub: &gSet{Sels: []*gSel{leaf("__typename")}}})
		return true
	}},
	{"unused-fragment", "5.5.1.4", func(m *mctx) bool {
		t := rng.Pick(m.r, m.w.Objects)
		if !t.RequiredFeatures.IsSubsetOf(m.w.Features) {
			t = m.w.S.QueryType()
		}
		m.d.Frags = append(m.d.Frags, &gFrag{Name: "Unused", Cond: t.Name, CondT: t, Set: &gSet{Parent: t, Sels: []*gSel{leaf("__typename")}}, Done: true})
		m.d.Order = nil
		return true
	}},
	{"undefined-fragment", "5.5.2.1", func(m *mctx) bool {
		s := m.pickSet(anySet)
		m.insert(s, &gSel{Kind: kSpread, Name: "Nowhere"})
		return true
	}},
	{"fragment-cycle", "5.5.2.2", func(m *mctx) bool {
		if len(m.d.Frags) == 0 {
			return false
		}
		f := rng.Pick(m.r, m.d.Frags)
		// every set inside f (also beneath fields) may take the spread of f or of a fragment that
		// reaches f
		var inside []*gSet
		for _, s := range m.d.sets() {
			if s.InFrag == f && s.Parent != nil {
				inside = append(inside, s)
			}
		}
		if len(inside) == 0 {
			return false
		}
		s := rng.Pick(m.r, inside)
		possible := (&gen{w: m.w}).possible
		ok := false
		for k := range possible(s.Parent) {
			if possible(f.CondT)[k] {
				ok = true
			}
		}
		if !ok {
			s = f.Set
		}
		switch m.r.Intn(3) {
		case 0:
			m.insert(s, &gSel{Kind: kSpread, Name: f.Name})
		case 1:
			// through a second fragment
			m.d.Frags = append(m.d.Frags, &gFrag{Name: "Back", Cond: f.Cond, CondT: f.CondT, Set: &gSet{Parent: f.CondT, Sels: []*gSel{{Kind: kSpread, Name: f.Name}}}, Done: true})
			m.insert(s, &gSel{Kind: kSpread, Name: "Back"})
			m.d.Order = nil
		default:
			// twice, so that the overlapping-fields check meets the cycle with two equal fields
			m.insert(s, &gSel{Kind: kSpread, Name: f.Name})
			m.insert(s, &gSel{Kind: kSpread, Name: f.Name})
		}
		return true
	}},
	{"impossible-spread", "5.5.2.3", func(m *mctx) bool {
		possible := (&gen{w: m.w}).possible
		s := m.pickSet(m.compositeParent)
		if s == nil {
			return false
		}
		pp := possible(s.Parent)
		var cands []schema.NamedType
		for _, t := range (&gen{w: m.w}).composites() {
			disjoint := true
			for k := range possible(t) {
				if pp[k] {
					disjoint = false
				}
			}
			if disjoint {
				cands = append(cands, t)
			}
		}
		if len(cands) == 0 {
			return false
		}
		t := rng.Pick(m.r, cands)
		if m.r.Chance(1, 2) {
			m.insert(s, &gSel{Kind: kInline, Cond: t.TypeName(), Sub: &gSet{Parent: t, Sels: []*gSel{leaf("__typename")}}})
		} else {
			impSet := &gSet{Parent: t, Sels: []*gSel{leaf("__typename")}}
			m.d.Frags = append(m.d.Frags, &gFrag{Name: "Imp", Cond: t.TypeName(), CondT: t, Set: impSet, Done: true})
			m.insert(s, &gSel{Kind: kSpread, Name: "Imp"})
			m.d.Order = nil
			// now and then the same fragment is also spread where it is possible: each spread is
			// checked against its own parent type, whichever comes first in the document
			if m.r.Chance(2, 3) {
				pt := possible(t)
				var ok []*gSet
				for _, s2 := range m.d.sets() {
					if s2 == s || s2 == impSet || s2.Parent == nil {
						continue
					}
					for k := range possible(s2.Parent) {
						if pt[k] {
							ok = append(ok, s2)
							break
						}
					}
				}
				if len(ok) > 0 {
					m.insert(rng.Pick(m.r, ok), &gSel{Kind: kSpread, Name: "Imp"})
				}
			}
		}
		return true
	}},
	// ---- 5.6 values
	{"ill-typed-value", "5.6.1", func(m *mctx) bool {
		s := m.pickSet(func(s *gSet) bool { return m.visibleField(s, "arg") || m.visibleField(s, "cmp") })
		if s == nil {
			return false
		}
		if m.visibleField(s, "cmp") && m.r.Chance(2, 3) {
			bad := rng.Pick(m.r, []gArg{
				{Name: "in", Val: `{a: "str"}`}, {Name: "in", Val: `{in: {r: null}}`}, {Name: "in", Val: `{ins: [{r: 1}, {r: "x"}]}`},
				{Name: "in", Val: `[{a: 1}]`}, {Name: "ins", Val: `[{r: 1}, 3]`}, {Name: "ins", Val: `{r: 1.5}`}, {Name: "e", Val: `MEDIUM`},
				{Name: "e", Val: `"S"`}, {Name: "cu", Val: `true`}, {Name: "oo", Val: `1`}, {Name: "grid", Val: `[1, 2]`}, {Name: "grid", Val: `[[1], ["x"]]`},
				{Name: "in", Val: `{ids: [1, 1.5]}`}, {Name: "in", Val: `{grid: [[1], 2]}`}, {Name: "opt", Val: `{f: "1.0"}`}, {Name: "opt", Val: `{b: 1}`},
				{Name: "opt", Val: `{a: 2147483648}`}, {Name: "opt", Val: `{f: 1e309}`}, {Name: "opt", Val: `{a: 1.0}`}, {Name: "in", Val: `{ids: 9223372036854775808}`},
			})
			m.insert(s, aliased("iv", "cmp", bad, gArg{Name: "b", Val: "true"}))
			return true
		}
		if !m.visibleField(s, "arg") {
			m.insert(s, aliased("iv", "cmp", gArg{Name: "b", Val: rng.Pick(m.r, []string{"null", "1", `"true"`})}))
			return true
		}
		m.insert(s, aliased("iv", "arg", gArg{Name: "x", Val: rng.Pick(m.r, []string{`"1"`, "1.5", "true", "RED", "[1, 2]", "{a: 1}", "2147483648", "-2147483649"})}))
		return true
	}},
	{"ill-typed-nested-list", "5.6.1", func(m *mctx) bool {
		// an item of a list literal is never coerced to a list, whatever wrappers its type has
		s := m.pickSet(func(s *gSet) bool { return m.visibleField(s, "lists") })
		if s == nil {
			return false
		}
		bad := rng.Pick(m.r, []gArg{
			{Name: "g1", Val: `[1, 2]`}, {Name: "g1", Val: `[[1], 2]`}, {Name: "g2", Val: `[1, 2]`}, {Name: "g2", Val: `[[1], 2]`},
			{Name: "g2", Val: `[null]`}, {Name: "g3", Val: `[[null]]`}, {Name: "g3", Val: `[1]`}, {Name: "g4", Val: `[3]`}, {Name: "g4", Val: `[[1], null]`},
			{Name: "g4", Val: `[[1, null]]`}, {Name: "g5", Val: `[1]`}, {Name: "g5", Val: `null`}, {Name: "g6", Val: `[[1]]`}, {Name: "g6", Val: `[1]`},
			{Name: "g6", Val: `[[[1], 2]]`}, {Name: "g7", Val: `[[1]]`}, {Name: "g7", Val: `[[[1]], [2]]`}, {Name: "g7", Val: `[null]`}, {Name: "g7", Val: `[[null]]`},
			{Name: "g8", Val: `[1, 2]`}, {Name: "g8", Val: `[[1], 2]`}, {Name: "g8", Val: `[null]`}, {Name: "g2", Val: `[[1], "x"]`}, {Name: "g6", Val: `[[[1, "x"]]]`},
		})
		if bad.Name != "g5" {
			// g5 is required
			m.insert(s, aliased("nl", "lists", bad, gArg{Name: "g5", Val: "[[1]]"}))
		} else {
			m.insert(s, aliased("nl", "lists", bad))
		}
		return true
	}},
	{"unknown-input-field", "5.6.2", func(m *mctx) bool {
		s := m.pickSet(func(s *gSet) bool { return m.visibleField(s, "cmp") })
		if s == nil {
			return false
		}
		v := rng.Pick(m.r, []string{`{zz: 1}`, `{in: {r: 1, zz: 2}}`, `{ins: [{r: 1}, {r: 2, q: 3}]}`, `{self: {self: {nope: null}}}`})
		m.insert(s, aliased("uf", "cmp", gArg{Name: "in", Val: v}, gArg{Name: "b", Val: "true"}))
		return true
	}},
	{"duplicate-input-field", "5.6.3", func(m *mctx) bool {
		s := m.pickSet(func(s *gSet) bool { return m.visibleField(s, "cmp") })
		if s == nil {
			return false
		}
		v := rng.Pick(m.r, []string{`{a: 1, a: 1}`, `{in: {r: 1, r: 2}}`, `{ins: [{r: 1, a: 2, a: 3}]}`, `{self: {s: "x", s: "y"}}`})
		m.insert(s, aliased("df", "cmp", gArg{Name: "in", Val: v}, gArg{Name: "b", Val: "true"}))
		return true
	}},
	{"missing-input-field", "5.6.4", func(m *mctx) bool {
		s := m.pickSet(func(s *gSet) bool { return m.visibleField(s, "cmp") })
		if s == nil {
			return false
		}
		a := rng.Pick(m.r, []gArg{{Name: "in", Val: `{in: {a: 1}}`}, {Name: "in", Val: `{ins: [{r: 1}, {}]}`}, {Name: "ins", Val: `{a: 1}`}, {Name: "ins", Val: `[{d: 1}]`}, {Name: "in", Val: `{self: {in: {c: RED}}}`}})
		m.insert(s, aliased("mf", "cmp", a, gArg{Name: "b", Val: "true"}))
		return true
	}},
	// ---- 5.7 directives
	{"unknown-directive", "5.7.1", func(m *mctx) bool {
		switch m.r.Intn(4) {
		case 0:
			op := m.varOp()
			op.Dirs = append(op.Dirs, gDir{Name: "nope"})
			return true
		case 1:
			if len(m.d.Frags) > 0 {
				f := rng.Pick(m.r, m.d.Frags)
				f.Dirs = append(f.Dirs, gDir{Name: "nope"})
				return true
			}
		}
		site := m.pickSel(func(selSite) bool { return true })
		site.Sel.Dirs = append(site.Sel.Dirs, gDir{Name: "nope", Args: []gArg{{Name: "a", Val: "1"}}})
		return true
	}},
	{"directive-misplaced", "5.7.2", func(m *mctx) bool {
		inc := gDir{Name: "include", Args: []gArg{{Name: "if", Val: "true"}}}
		switch m.r.Intn(4) {
		case 0:
			op := m.varOp()
			op.Dirs = append(op.Dirs, inc)
			return true
		case 1:
			if len(m.d.Frags) > 0 {
				f := rng.Pick(m.r, m.d.Frags)
				f.Dirs = append(f.Dirs, inc)
				return true
			}
		}
		site := m.pickSel(func(s selSite) bool { return s.Sel.Kind != kSpread })
		if site == nil {
			return false
		}
		site.Sel.Dirs = append(site.Sel.Dirs, gDir{Name: "onFrag"})
		return true
	}},
	{"duplicate-directive", "5.7.3", func(m *mctx) bool {
		site := m.pickSel(func(s selSite) bool { return len(s.Sel.Dirs) > 0 })
		if site != nil && m.r.Chance(1, 2) {
			site.Sel.Dirs = append(site.Sel.Dirs, site.Sel.Dirs[0])
			return true
		}
		site = m.pickSel(func(s selSite) bool { return len(s.Sel.Dirs) == 0 })
		if site == nil {
			return false
		}
		d := gDir{Name: "skip", Args: []gArg{{Name: "if", Val: "false"}}}
		site.Sel.Dirs = []gDir{d, d}
		return true
	}},
	// ---- 5.8 variables
	{"duplicate-variable", "5.8.1", func(m *mctx) bool {
		op := m.varOp()
		if len(op.Vars) == 0 {
			op.Vars = append(op.Vars, &gVar{Name: "dv", Type: "Boolean!"})
			op.Set.Sels = append(op.Set.Sels, &gSel{Kind: kField, Alias: "dvu", Name: "__typename", Dirs: []gDir{{Name: "include", Args: []gArg{{Name: "if", Val: "$dv"}}}}})
		}
		v := rng.Pick(m.r, op.Vars)
		op.Vars = append(op.Vars, &gVar{Name: v.Name, Type: v.Type, Default: v.Default})
		return true
	}},
	{"variable-of-output-type", "5.8.2", func(m *mctx) bool {
		op := m.varOp()
		t := rng.Pick(m.r, []string{"Alpha", "Named", "AB", "[Alpha]", "Alpha!", "[[Query!]]!", "Nope", "[Nope]"})
		dflt := rng.Pick(m.r, []string{"", "", "1", "null", "[true]", `{a: 1}`, `"x"`, "[[null]]"})
		op.Vars = append(op.Vars, &gVar{Name: "ov", Type: t, Default: dflt})
		if m.r.Chance(2, 3) {
			// used somewhere, so that only the type is wrong
			op.Set.Sels = append(op.Set.Sels, &gSel{Kind: kField, Alias: "ovu", Name: "__typename", Dirs: []gDir{{Name: "tag", Args: []gArg{{Name: "label", Val: `"l"`}, {Name: "in", Val: "$ov"}}}}})
		}
		return true
	}},
	{"undefined-variable", "5.8.3", func(m *mctx) bool {
		m.varOp()
		val := rng.Pick(m.r, []string{"$undef", "[$undef]", "{r: $undef}", "[{r: 1}, {r: $undef}]"})
		d := gDir{Name: "tag", Args: []gArg{{Name: "label", Val: `"l"`}, {Name: "in", Val: "{r: 1, a: $undef}"}}}
		switch m.r.Intn(3) {
		case 0:
			site := m.pickSel(func(s selSite) bool { return s.Sel.Kind == kField && !hasDir(s.Sel, "tag") })
			if site != nil {
				site.Sel.Dirs = append(site.Sel.Dirs, d)
				return true
			}
		case 1:
			s := m.pickSet(inOp(m.varOp(), func(s *gSet) bool { return m.visibleField(s, "cmp") }))
			if s != nil {
				a := gArg{Name: "ins", Val: val}
				if val == "$undef" || val == "[$undef]" {
					a = gArg{Name: "grid", Val: "[" + val + "]"}
					if val == "$undef" {
						a = gArg{Name: "e", Val: val}
					}
				}
				m.insert(s, aliased("uv", "cmp", a, gArg{Name: "b", Val: "true"}))
				return true
			}
		}
		s := m.pickSet(inOp(m.varOp(), func(s *gSet) bool { return m.visibleField(s, "arg") }))
		if s == nil {
			return false
		}
		m.insert(s, aliased("uv", "arg", gArg{Name: "x", Val: "$undef"}))
		return true
	}},
	{"undefined-variable-in-shared-fragment", "5.8.3", func(m *mctx) bool {
		// a fragment shared by several operations uses a variable that one of them (not the first
		// to spread it) does not declare
		part := (&gen{w: m.w, r: m.r, doc: m.d}).shareVariables()
		if len(part) < 2 {
			return false
		}
		op := part[1+m.r.Intn(len(part)-1)]
		// mostly both (so that no variable of that operation is left unused, which would be an
		// error of its own), sometimes one
		drop := rng.Pick(m.r, []string{"sv", "sw", "", "", ""})
		var keep []*gVar
		for _, v := range op.Vars {
			if v.Name != drop && (drop != "" || (v.Name != "sv" && v.Name != "sw")) {
				keep = append(keep, v)
			}
		}
		op.Vars = keep
		return true
	}},
	{"unused-variable", "5.8.4", func(m *mctx) bool {
		op := m.varOp()
		op.Vars = append(op.Vars, &gVar{Name: "unused", Type: rng.Pick(m.r, []string{"Int", "[Inner!]", "Color!"}), Default: ""})
		if m.r.Chance(1, 3) && len(m.d.Ops) > 1 {
			// used, but only by another operation
			other := m.d.Ops[len(m.d.Ops)-1]
			if other != op && other.Kind != "" {
				other.Vars = append(other.Vars, &gVar{Name: "unused", Type: "Boolean!"})
				other.Set.Sels = append(other.Set.Sels, &gSel{Kind: kField, Alias: "uu", Name: "__typename", Dirs: []gDir{{Name: "include", Args: []gArg{{Name: "if", Val: "$unused"}}}}})
			}
		}
		return true
	}},
	{"variable-in-wrong-position", "5.8.5", func(m *mctx) bool {
		op := m.varOp()
		s := m.pickSet(inOp(op, func(s *gSet) bool { return m.visibleField(s, "cmp") || m.visibleField(s, "req") }))
		if s == nil {
			return false
		}
		type bad struct {
			decl, field string
			arg         gArg
		}
		var cands []bad
		if m.visibleField(s, "cmp") {
			cands = append(cands,
				bad{"String", "cmp", gArg{Name: "in", Val: "{a: $wp}"}},
				bad{"Int", "cmp", gArg{Name: "in", Val: "{in: {r: $wp}}"}},
				bad{"Int", "cmp", gArg{Name: "ins", Val: "[{r: 1}, {r: $wp}]"}},
				bad{"Int", "cmp", gArg{Name: "ins", Val: "{r: $wp}"}},
				bad{"Inner", "cmp", gArg{Name: "ins", Val: "$wp"}},
				bad{"Int", "cmp", gArg{Name: "grid", Val: "[$wp]"}},
				bad{"[Int]", "cmp", gArg{Name: "grid", Val: "[[$wp]]"}},
				bad{"Inner", "cmp", gArg{Name: "in", Val: "{ins: [$wp]}"}},
				bad{"Color", "cmp", gArg{Name: "e", Val: "$wp"}},
				bad{"[Inner]!", "cmp", gArg{Name: "in", Val: "{ins: $wp}"}},
				bad{"Boolean", "cmp", gArg{Name: "opt", Val: "{b: true}"}},
			)
		}
		if m.visibleField(s, "req") {
			cands = append(cands, bad{"Int", "req", gArg{Name: "x", Val: "$wp"}}, bad{"Int = null", "req", gArg{Name: "x", Val: "$wp"}}, bad{"ID!", "req", gArg{Name: "x", Val: "$wp"}})
		}
		b := rng.Pick(m.r, cands)
		decl, dflt := b.decl, ""
		if i := strings.Index(decl, " = "); i >= 0 {
			decl, dflt = b.decl[:i], b.decl[i+3:]
		}
		op.Vars = append(op.Vars, &gVar{Name: "wp", Type: decl, Default: dflt})
		sel := aliased("wp", b.field, b.arg)
		if b.field == "cmp" {
			if b.decl == "Boolean" {
				sel.Args = append(sel.Args, gArg{Name: "b", Val: "$wp"})
			} else {
				sel.Args = append(sel.Args, gArg{Name: "b", Val: "true"})
			}
		}
		m.insert(s, sel)
		return true
	}},
}

func hasDir(s *gSel, name string) bool {
	for _, d := range s.Dirs {
		if d.Name == name {
			return true
		}
	}
	return false
}

// no other field of the document shares the selection's response name (so that changing its
// arguments cannot also break the merge rule — harmless, but it keeps intents sharp)
func uniqueResp(d *gDoc, sel *gSel) bool {
	n := 0
	for _, s := range d.sels() {
		if s.Sel.Kind == kField && respName(s.Sel) == respName(sel) {
			n++
		}
	}
	return n == 1
}

func mutated(w *world, r *rng.R, which int) (docCase, bool) {
	d := genValid(w, r.Fork(2), 10)
	mu := mutators[which%len(mutators)]
	m := &mctx{w: w, r: r.Fork(3), d: d}
	if !mu.Do(m) {
		return docCase{}, false
	}
	return docCase{W: w, Src: d.render(r.Chance(1, 3)), Intent: mu.Rule, Tag: mu.Name}, true
}

var _ = fmt.Sprint
