// c04: documents against the real graphql.ParseAndValidate, shipped (schema + parsed AST with
// positions + what the implementation answered in several runs) to the Coq check.
package main

import (
	"bufio"
	"fmt"
	"os"
	"os/exec"
	"sort"
	"strings"
	"time"

	"github.com/ccbrown/api-fu/graphql"
	"github.com/ccbrown/api-fu/graphql/parser"

	"verifharness/internal/hx"
	"verifharness/internal/rng"
	"verifharness/internal/sexp"
)

// one observation of ParseAndValidate: "accept", "reject" with the error locations (one list per
// error), "panic", or "syntax" (did not parse: generator bug, reported as such)
type observation struct {
	Verdict string
	Errors  [][][2]int
	Panic   string
}

func observe(w *world, src string) (o observation) {
	defer func() {
		if e := recover(); e != nil {
			o = observation{Verdict: "panic", Panic: fmt.Sprint(e)}
		}
	}()
	_, errs := graphql.ParseAndValidate(src, w.S, w.Features)
	if len(errs) == 0 {
		return observation{Verdict: "accept"}
	}
	o.Verdict = "reject"
	for _, e := range errs {
		var locs [][2]int
		for _, l := range e.Locations {
			locs = append(locs, [2]int{l.Line, l.Column})
		}
		o.Errors = append(o.Errors, locs)
	}
	// canonical order of independent errors
	sort.Slice(o.Errors, func(i, j int) bool { return fmt.Sprint(o.Errors[i]) < fmt.Sprint(o.Errors[j]) })
	return o
}

func (o observation) sexp() sexp.Node {
	switch o.Verdict {
	case "accept":
		return sexp.T("accept")
	case "panic":
		return sexp.T("panic", sexp.Str(o.Panic))
	}
	var es []sexp.Node
	for _, e := range o.Errors {
		var ls []sexp.Node
		for _, l := range e {
			ls = append(ls, sexp.L(sexp.Int(l[0]), sexp.Int(l[1])))
		}
		es = append(es, sexp.L(ls...))
	}
	return sexp.T("reject", es...)
}

// compact text form used between parent and child processes
func (o observation) line() string {
	return strings.ReplaceAll(o.sexp().String(), "\n", " ")
}

type docCase struct {
	W      *world
	Src    string
	Intent string // "valid", a rule id such as "5.3.2", or "any"
	Tag    string // generator / mutator name, for evidence
}

const inProcessRuns = 3
const maxRestarts = 3

// What the fresh child processes saw, per emitted case. A validation that kills the process
// (fatal "stack overflow", which recover cannot catch) or hangs shows as a missing line: the
// child is the canary, the parent never runs a document in-process that a child has not survived.
type childResult struct {
	lines   []string // one observation per case, "crash" where the child died
	covered int      // cases the child (with its restarts) got through, including crashes
}

var children []childResult
var childMode = os.Getenv("C04_CHILD") != ""
var childSkip = atoiEnv("C04_SKIP")
var childOut *os.File
var emitted int
var halted bool

func atoiEnv(k string) int {
	n := 0
	fmt.Sscan(os.Getenv(k), &n)
	return n
}

func emit(h *hx.H, gen func(r *rng.R) docCase) {
	if halted {
		return
	}
	mine := h.Only < 0 || h.Index() == h.Only
	slot := emitted // position of this case in the children's output
	if mine {
		emitted++
	}
	if childMode {
		if !mine {
			h.Case(func(*rng.R) sexp.Node { return sexp.L() })
			return
		}
		h.Case(func(r *rng.R) sexp.Node {
			if slot < childSkip {
				return sexp.L()
			}
			c := gen(r)
			line := observe(c.W, c.Src).line()
			childOut.WriteString(line + "\n")
			return sexp.L()
		})
		return
	}
	crashed := false
	if mine {
		for _, ch := range children {
			if slot >= ch.covered {
				// no child survived up to here (too many crashes before): stop rather than risk the parent
				halted = true
				fmt.Fprintf(os.Stderr, "harness: stopping at case %d: the child processes crashed %d times before it\n", h.Index(), maxRestarts+1)
				return
			}
			if ch.lines[slot] == "crash" {
				crashed = true
			}
		}
	}
	h.Case(func(r *rng.R) sexp.Node {
		c := gen(r)
		doc, perr := parser.ParseDocument([]byte(c.Src))
		if len(perr) > 0 || doc == nil {
			return sexp.T("case", sexp.T("syntax", sexp.Str(c.Src), sexp.Str(c.Tag)))
		}
		var runs []sexp.Node
		if crashed {
			runs = append(runs, sexp.T("crash"))
		} else {
			for i := 0; i < inProcessRuns; i++ {
				runs = append(runs, observe(c.W, c.Src).sexp())
			}
			for _, ch := range children {
				n, err := sexp.Parse(ch.lines[slot])
				if err != nil {
					panic("child observation: " + err.Error())
				}
				runs = append(runs, n)
			}
		}
		var lines []sexp.Node
		for _, l := range strings.Split(c.Src, "\n") {
			lines = append(lines, sexp.Int(len([]rune(l))))
		}
		intent := sexp.Sym("any")
		if c.Intent != "any" && c.Intent != "" {
			intent = sexp.T("violates", sexp.Str(c.Intent))
		}
		return sexp.T("case",
			sexp.T("tag", sexp.Str(c.Tag)),
			sexp.T("src", sexp.Str(c.Src)),
			sexp.T("intent", intent),
			sexp.T("lines", sexp.L(lines...)),
			sexp.T("features", c.W.FeatSexp),
			c.W.Sexp,
			docS(doc),
			sexp.T("runs", sexp.L(runs...)))
	})
}

func readLines(path string) []string {
	f, err := os.Open(path)
	if err != nil {
		return nil
	}
	defer f.Close()
	var lines []string
	sc := bufio.NewScanner(f)
	sc.Buffer(make([]byte, 1<<20), 1<<26)
	for sc.Scan() {
		lines = append(lines, sc.Text())
	}
	return lines
}

// runChildren re-executes this binary in fresh processes over the same case stream (same seed,
// same -tier / -only). A child that dies is restarted after the case that killed it.
func runChildren(h *hx.H) {
	dir := os.Getenv("VERIF_RUNDIR")
	if dir == "" {
		dir = os.TempDir()
	}
	n := 2
	ch := make([]chan childResult, n)
	for k := 0; k < n; k++ {
		ch[k] = make(chan childResult, 1)
		go func(k int) {
			var res childResult
			for attempt := 0; attempt <= maxRestarts; attempt++ {
				out := fmt.Sprintf("%s/c04-child-%d-%d-%d.txt", dir, os.Getpid(), k, attempt)
				a := []string{"-tier", h.Tier, "-out", os.DevNull}
				if h.Only >= 0 {
					a = append(a, "-only", fmt.Sprint(h.Only))
				}
				cmd := exec.Command(os.Args[0], a...)
				cmd.Env = append(os.Environ(), fmt.Sprintf("C04_CHILD=%d", k+1), "C04_CHILD_OUT="+out, fmt.Sprintf("C04_SKIP=%d", len(res.lines)))
				done := make(chan error, 1)
				if err := cmd.Start(); err != nil {
					fmt.Fprintln(os.Stderr, "child:", err)
					os.Exit(3)
				}
				go func() { done <- cmd.Wait() }()
				var err error
				select {
				case err = <-done:
				case <-time.After(20 * time.Minute):
					cmd.Process.Kill()
					err = fmt.Errorf("timeout")
				}
				res.lines = append(res.lines, readLines(out)...)
				os.Remove(out)
				if err == nil {
					res.covered = 1 << 60
					break
				}
				// the case after the last line written killed (or hung) the child
				res.lines = append(res.lines, "crash")
				res.covered = len(res.lines)
			}
			ch[k] <- res
		}(k)
	}
	for k := 0; k < n; k++ {
		children = append(children, <-ch[k])
	}
}

func main() {
	if childMode {
		f, err := os.Create(os.Getenv("C04_CHILD_OUT"))
		if err != nil {
			fmt.Fprintln(os.Stderr, err)
			os.Exit(3)
		}
		childOut = f
	}
	hx.Main(func(h *hx.H) {
		if !childMode {
			runChildren(h)
		}
		generate(h)
	})
}
