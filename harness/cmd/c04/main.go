// c04: documents against the real graphql.ParseAndValidate, shipped (schema + parsed AST with
// positions + what the implementation answered in several runs) to the Coq check.
package main

import (
	"bufio"
	"fmt"
	"os"
	"os/exec"
	"sort"
	"strings"

	"github.com/ccbrown/api-fu/graphql"
	"github.com/ccbrown/api-fu/graphql/parser"

	"verifharness/internal/hx"
	"verifharness/internal/rng"
	"verifharness/internal/sexp"
)

// one observation of ParseAndValidate: "accept", "reject" with the error locations (one list per
// error), "panic", or "syntax" (did not parse: generator bug, reported as such)
type observation struct {
	Verdict string
	Errors  [][][2]int
	Panic   string
}

func observe(w *world, src string) (o observation) {
	defer func() {
		if e := recover(); e != nil {
			o = observation{Verdict: "panic", Panic: fmt.Sprint(e)}
		}
	}()
	_, errs := graphql.ParseAndValidate(src, w.S, w.Features)
	if len(errs) == 0 {
		return observation{Verdict: "accept"}
	}
	o.Verdict = "reject"
	for _, e := range errs {
		var locs [][2]int
		for _, l := range e.Locations {
			locs = append(locs, [2]int{l.Line, l.Column})
		}
		o.Errors = append(o.Errors, locs)
	}
	// canonical order of independent errors
	sort.Slice(o.Errors, func(i, j int) bool { return fmt.Sprint(o.Errors[i]) < fmt.Sprint(o.Errors[j]) })
	return o
}

func (o observation) sexp() sexp.Node {
	switch o.Verdict {
	case "accept":
		return sexp.T("accept")
	case "panic":
		return sexp.T("panic", sexp.Str(o.Panic))
	}
	var es []sexp.Node
	for _, e := range o.Errors {
		var ls []sexp.Node
		for _, l := range e {
			ls = append(ls, sexp.L(sexp.Int(l[0]), sexp.Int(l[1])))
		}
		es = append(es, sexp.L(ls...))
	}
	return sexp.T("reject", es...)
}

// compact text form used between parent and child processes
func (o observation) line() string {
	return strings.ReplaceAll(o.sexp().String(), "\n", " ")
}

type docCase struct {
	W      *world
	Src    string
	Intent string // "valid", a rule id such as "5.3.2", or "any"
	Tag    string // generator / mutator name, for evidence
}

const inProcessRuns = 3

var childObs [][]string // per child: observation line per emitted case
var childMode = os.Getenv("C04_CHILD") != ""

func emit(h *hx.H, gen func(r *rng.R) docCase) {
	mine := h.Only < 0 || h.Index() == h.Only
	slot := emitted // position of this case in the children's output
	h.Case(func(r *rng.R) sexp.Node {
		c := gen(r)
		if childMode {
			return observe(c.W, c.Src).sexp()
		}
		doc, perr := parser.ParseDocument([]byte(c.Src))
		if len(perr) > 0 || doc == nil {
			return sexp.T("case", sexp.T("syntax", sexp.Str(c.Src), sexp.Str(c.Tag)))
		}
		var runs []sexp.Node
		for i := 0; i < inProcessRuns; i++ {
			runs = append(runs, observe(c.W, c.Src).sexp())
		}
		for _, ch := range childObs {
			if slot < len(ch) {
				n, err := sexp.Parse(ch[slot])
				if err != nil {
					panic("child observation: " + err.Error())
				}
				runs = append(runs, n)
			} else {
				panic("child produced too few observations")
			}
		}
		var lines []sexp.Node
		for _, l := range strings.Split(c.Src, "\n") {
			lines = append(lines, sexp.Int(len([]rune(l))))
		}
		intent := sexp.Sym("any")
		if c.Intent != "any" && c.Intent != "" {
			intent = sexp.T("violates", sexp.Str(c.Intent))
		}
		return sexp.T("case",
			sexp.T("tag", sexp.Str(c.Tag)),
			sexp.T("src", sexp.Str(c.Src)),
			sexp.T("intent", intent),
			sexp.T("lines", sexp.L(lines...)),
			sexp.T("features", c.W.FeatSexp),
			c.W.Sexp,
			docS(doc),
			sexp.T("runs", sexp.L(runs...)))
	})
	if mine {
		emitted++
	}
}

var emitted int

// runChildren re-executes this binary twice in fresh processes over the same case stream (same seed,
// same -tier / -only), collecting one observation line per case.
func runChildren(h *hx.H) {
	if childMode {
		return
	}
	dir := os.Getenv("VERIF_RUNDIR")
	if dir == "" {
		dir = os.TempDir()
	}
	n := 2
	type res struct {
		lines []string
		err   error
	}
	ch := make([]chan res, n)
	for k := 0; k < n; k++ {
		ch[k] = make(chan res, 1)
		go func(k int) {
			out := fmt.Sprintf("%s/c04-child-%d-%d.sexp", dir, os.Getpid(), k)
			defer os.Remove(out)
			a := []string{"-tier", h.Tier, "-out", out}
			if h.Only >= 0 {
				a = append(a, "-only", fmt.Sprint(h.Only))
			}
			cmd := exec.Command(os.Args[0], a...)
			cmd.Env = append(os.Environ(), fmt.Sprintf("C04_CHILD=%d", k+1))
			if b, err := cmd.CombinedOutput(); err != nil {
				ch[k] <- res{err: fmt.Errorf("child %d: %v: %s", k, err, b)}
				return
			}
			f, err := os.Open(out)
			if err != nil {
				ch[k] <- res{err: err}
				return
			}
			defer f.Close()
			var lines []string
			sc := bufio.NewScanner(f)
			sc.Buffer(make([]byte, 1<<20), 1<<26)
			for sc.Scan() {
				lines = append(lines, sc.Text())
			}
			ch[k] <- res{lines: lines}
		}(k)
	}
	for k := 0; k < n; k++ {
		r := <-ch[k]
		if r.err != nil {
			fmt.Fprintln(os.Stderr, r.err)
			os.Exit(3)
		}
		childObs = append(childObs, r.lines)
	}
}

func main() {
	hx.Main(func(h *hx.H) {
		runChildren(h)
		generate(h)
	})
}
