package main

import (
	"sort"
	"strings"
)

// Bounded-exhaustive part: every document of at most k selections over the 3-type schema
// (smallWorld), built from a fixed alphabet of selections per parent type. Sibling selections are
// enumerated as multisets (in alphabet order); fragments F (on Query), G (on A) and H (on N) are
// defined exactly when they are referenced, with every body the budget allows (so cycles, repeated
// spreads and spreads that are impossible at their site all occur).

type atom struct {
	text  string // with %s for the nested set, if any
	child string // parent type of the nested set ("" = leaf atom)
}

var alphabet = map[string][]atom{
	"Query": {
		{"i", ""}, {"s", ""}, {"x: i", ""}, {"x: s", ""}, {"r(x: 1)", ""}, {"r", ""}, {"__typename", ""},
		{"i @include(if: true)", ""}, {"...F", ""}, {"...G", ""},
		{"... on Query {%s}", "Query"}, {"... on A {%s}", "A"},
		{"a {%s}", "A"}, {"a(x: 1) {%s}", "A"}, {"n {%s}", "N"}, {"x: a {%s}", "A"}, {"a(x: 1, x: 1) {%s}", "A"},
	},
	"A": {
		{"i", ""}, {"s", ""}, {"x: s", ""}, {"__typename", ""}, {"...G", ""}, {"...H", ""}, {"...F", ""},
		{"... on N {%s}", "N"}, {"q {%s}", "Query"}, {"i {%s}", "A"}, {"... @include(if: true) @include(if: true) {%s}", "A"},
	},
	"N": {
		{"i", ""}, {"x: i", ""}, {"s", ""}, {"...H", ""}, {"...G", ""}, {"... on A {%s}", "A"}, {"... on Query {%s}", "Query"},
	},
}

var fragType = map[string]string{"F": "Query", "G": "A", "H": "N"}

var enumMemo = map[string][]string{}

// all selection lists on parent using exactly n selections, atoms in alphabet order from index from
func enumSets(parent string, n int, from int) []string {
	if n == 0 {
		return []string{""}
	}
	key := parent + "/" + string(rune('0'+n)) + "/" + string(rune('A'+from))
	if v, ok := enumMemo[key]; ok {
		return v
	}
	var out []string
	as := alphabet[parent]
	for i := from; i < len(as); i++ {
		a := as[i]
		var heads []string
		var costs []int
		if a.child == "" {
			heads, costs = []string{a.text}, []int{1}
		} else {
			for c := 1; c <= n-1; c++ {
				for _, inner := range enumSets(a.child, c, 0) {
					heads = append(heads, strings.Replace(a.text, "%s", inner, 1))
					costs = append(costs, 1+c)
				}
			}
		}
		for k, h := range heads {
			for _, rest := range enumSets(parent, n-costs[k], i) {
				if rest == "" {
					out = append(out, h)
				} else {
					out = append(out, h+" "+rest)
				}
			}
		}
	}
	enumMemo[key] = out
	return out
}

func refsOf(s string, into map[string]bool) {
	for f := range fragType {
		if strings.Contains(s, "..."+f) {
			into[f] = true
		}
	}
}

func enumDocs(k int) []string {
	var docs []string
	var complete func(text string, refs map[string]bool, defined map[string]bool, budget int)
	complete = func(text string, refs map[string]bool, defined map[string]bool, budget int) {
		var missing []string
		for f := range refs {
			if !defined[f] {
				missing = append(missing, f)
			}
		}
		if len(missing) == 0 {
			docs = append(docs, text)
			return
		}
		sort.Strings(missing)
		f := missing[0]
		for m := 1; m <= budget; m++ {
			for _, body := range enumSets(fragType[f], m, 0) {
				r2 := map[string]bool{}
				for x := range refs {
					r2[x] = true
				}
				refsOf(body, r2)
				d2 := map[string]bool{f: true}
				for x := range defined {
					d2[x] = true
				}
				complete(text+" fragment "+f+" on "+fragType[f]+" {"+body+"}", r2, d2, budget-m)
			}
		}
	}
	for n := 1; n <= k; n++ {
		for _, s := range enumSets("Query", n, 0) {
			refs := map[string]bool{}
			refsOf(s, refs)
			complete("{"+s+"}", refs, map[string]bool{}, k-n)
		}
	}
	return docs
}
