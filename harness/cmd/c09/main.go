// c09: Relay connections.  Runs the real api-fu code on generated edge sets and arguments:
//
//	(conn ...)    one request to a Connection field through API.ServeGraphQL (httptest), in the
//	              modes {ResolveAllEdges, ResolveEdges+ResolveTotalCount} x {sync, apifu.Go promise}
//	(direct ...)  pagination.EdgesToReturn called directly
//	(walk ...)    a whole paging history: follow endCursor (startCursor) until hasNextPage
//	              (hasPreviousPage) is false
//	(codec ...)   SerializeCursor / DeserializeCursor on a cursor value
//	(decode ...)  DeserializeCursor on an arbitrary string (random, truncated, bit-flipped)
//
// Everything the model needs is in the case line: the edge set in insertion order, the arguments,
// what the application's getter was asked and what it answered, what the server answered, and for
// every cursor string the server emitted what the real DeserializeCursor makes of it.
package main

import (
	"bytes"
	"encoding/base64"
	"encoding/binary"
	"encoding/json"
	"fmt"
	"net/http/httptest"
	"reflect"
	"runtime"
	"runtime/debug"
	"sort"
	"strings"
	"time"

	apifu "github.com/ccbrown/api-fu"
	"github.com/ccbrown/api-fu/graphql"
	"github.com/ccbrown/api-fu/pagination"

	"verifharness/internal/hx"
	"verifharness/internal/rng"
	"verifharness/internal/sexp"
)

// ---------------------------------------------------------------------------------------------
// edges and cursors
// ---------------------------------------------------------------------------------------------

type edgeT struct {
	Key  interface{} // int, string or apifu.TimeBasedCursor: the cursor value
	Node int
}

// badCursor is a cursor type msgpack cannot encode (SerializeCursor fails for every value).
type badCursor struct {
	K int
	C chan int
}

func keyLess(a, b interface{}) bool {
	switch x := a.(type) {
	case int:
		return x < b.(int)
	case string:
		return x < b.(string)
	case apifu.TimeBasedCursor:
		return x.LessThan(b.(apifu.TimeBasedCursor))
	case badCursor:
		return x.K < b.(badCursor).K
	}
	panic("bad key type")
}

// zint writes a Go int.  internal/sexp prints |x| < 2^61 in decimal, ocaml/driver.ml reads at most
// 18 decimal digits; values in between are written in the #x form both sides understand.
func zint(x int) sexp.Node {
	if x >= 1000000000000000000 && x < 1<<61 {
		return sexp.Sym(fmt.Sprintf("#x%x", x))
	}
	if x <= -1000000000000000000 && x > -(1<<61) {
		return sexp.Sym(fmt.Sprintf("-#x%x", -x))
	}
	return sexp.Int(x)
}

func keySexp(k interface{}) sexp.Node {
	switch x := k.(type) {
	case int:
		return zint(x)
	case string:
		return sexp.Str(x)
	case apifu.TimeBasedCursor:
		return sexp.T("time", zint(int(x.Nano)), sexp.Str(x.Id))
	case badCursor:
		return zint(x.K)
	}
	panic("bad key type")
}

func optKeySexp(k interface{}) sexp.Node {
	if k == nil {
		return sexp.None()
	}
	return sexp.Some(keySexp(k))
}

func edgeSexp(e edgeT) sexp.Node { return sexp.L(keySexp(e.Key), sexp.Int(e.Node)) }

func edgesSexp(es []edgeT) sexp.Node {
	out := make([]sexp.Node, len(es))
	for i, e := range es {
		out[i] = edgeSexp(e)
	}
	return sexp.L(out...)
}

func sortedEdges(es []edgeT) []edgeT {
	s := append([]edgeT(nil), es...)
	sort.Slice(s, func(i, j int) bool { return keyLess(s[i].Key, s[j].Key) })
	return s
}

func cursorType(kind string) reflect.Type {
	switch kind {
	case "int":
		return reflect.TypeOf(0)
	case "time":
		return reflect.TypeOf(apifu.TimeBasedCursor{})
	}
	return reflect.TypeOf("")
}

// ---------------------------------------------------------------------------------------------
// the application behind the connection field
// ---------------------------------------------------------------------------------------------

// world is what the application's callbacks read while one request runs.
type world struct {
	edges  []edgeT // insertion order
	policy int     // which extra edges ResolveEdges returns beyond the required window
	r      *rng.R
	calls  []sexp.Node
	// a misbehaving application (not part of C09's statement; exercised so that the model's error
	// paths stay tied to the code): the edge getter fails (1: returns an error, 2: returns a
	// promise that delivers an error), ResolveTotalCount fails
	fail       int
	totalFails bool
	// TimeBasedConnection: what the EdgeGetter was asked (limit) and what it answered
	getterLimits  []int
	getterEdges   []edgeT
	getterAnswers []sexp.Node // ((sync|promise) edges) per call, in call order
	mixed        bool // the getter answers some calls directly and some through a promise
}

var errApp = fmt.Errorf("the application failed")

var cur *world

// window computes what a well-behaved ResolveEdges returns: the first `limit` (last `-limit`)
// edges of the requested range, plus extras according to the policy, in shuffled order.
func (w *world) window(after, before interface{}, limit int) []edgeT {
	s := sortedEdges(w.edges)
	var rangeEdges, outside []edgeT
	for _, e := range s {
		if (after == nil || keyLess(after, e.Key)) && (before == nil || keyLess(e.Key, before)) {
			rangeEdges = append(rangeEdges, e)
		} else {
			outside = append(outside, e)
		}
	}
	var need, rest []edgeT
	switch {
	case limit > 0 && limit < len(rangeEdges):
		need, rest = rangeEdges[:limit], rangeEdges[limit:]
	case limit < 0 && -limit < len(rangeEdges):
		need, rest = rangeEdges[len(rangeEdges)+limit:], rangeEdges[:len(rangeEdges)+limit]
	default:
		need = rangeEdges
	}
	out := append([]edgeT(nil), need...)
	switch w.policy {
	case 0: // minimal window, in order
		return out
	case 1: // minimal window, shuffled
	case 2: // plus every edge outside the range ("to indicate the presence of more pages")
		out = append(out, outside...)
	case 3: // everything
		out = append(append(out, rest...), outside...)
	default: // plus a random subset of the others
		for _, e := range append(append([]edgeT(nil), rest...), outside...) {
			if w.r.Bool() {
				out = append(out, e)
			}
		}
	}
	for i := len(out) - 1; i > 0; i-- {
		j := w.r.Intn(i + 1)
		out[i], out[j] = out[j], out[i]
	}
	return out
}

func lessFor(k apiKey) func(a, b interface{}) bool { return keyLess }

type apiKey struct {
	kind     string
	all      bool
	promise  bool
	dir      int  // 0 bidirectional, 1 forward-only, 2 backward-only
	serFails bool // cursor values of a type msgpack cannot encode
	timeconn bool // apifu.TimeBasedConnection instead of apifu.Connection (kind must be "time")
}

var dirNames = []string{"bidi", "fwd-only", "bwd-only"}

var apis = map[apiKey]*apifu.API{}

func getAPI(k apiKey) *apifu.API {
	if a, ok := apis[k]; ok {
		return a
	}
	deliver := func(ctx graphql.FieldContext, v interface{}) (interface{}, error) {
		switch cur.fail {
		case 1:
			return nil, errApp
		case 2:
			return apifu.Go(ctx.Context, func() (interface{}, error) { return nil, errApp }), nil
		}
		if k.promise {
			return apifu.Go(ctx.Context, func() (interface{}, error) { return v, nil }), nil
		}
		return v, nil
	}
	edgeFields := map[string]*graphql.FieldDefinition{
		"node": {
			Type: graphql.IntType,
			Resolve: func(ctx graphql.FieldContext) (interface{}, error) {
				return ctx.Object.(edgeT).Node, nil
			},
		},
	}
	if k.timeconn {
		// the library's own struct-cursor connection; its ResolveEdges asks the getter below once per
		// range query (C16 owns those) and concatenates the answers, which may be slices or promises
		tc := &apifu.TimeBasedConnectionConfig{
			NamePrefix: "Thing",
			EdgeCursor: func(edge interface{}) apifu.TimeBasedCursor { return edge.(edgeT).Key.(apifu.TimeBasedCursor) },
			EdgeFields: edgeFields,
			EdgeGetter: func(ctx graphql.FieldContext, minTime, maxTime time.Time, limit int) (interface{}, error) {
				var in []edgeT
				for _, e := range sortedEdges(cur.edges) {
					t := e.Key.(apifu.TimeBasedCursor).Time()
					if !t.Before(minTime) && !t.After(maxTime) {
						in = append(in, e)
					}
				}
				if limit > 0 && limit < len(in) {
					in = in[:limit]
				} else if limit < 0 && -limit < len(in) {
					in = in[len(in)+limit:]
				}
				cur.getterLimits = append(cur.getterLimits, limit)
				cur.getterEdges = append(cur.getterEdges, in...)
				if k.promise && (!cur.mixed || cur.r.Bool()) {
					cur.getterAnswers = append(cur.getterAnswers, sexp.L(sexp.Sym("promise"), edgesSexp(in)))
					return apifu.Go(ctx.Context, func() (interface{}, error) { return in, nil }), nil
				}
				cur.getterAnswers = append(cur.getterAnswers, sexp.L(sexp.Sym("sync"), edgesSexp(in)))
				if len(in) == 0 && cur.r.Bool() {
					return nil, nil
				}
				return in, nil
			},
			ResolveTotalCount: func(ctx graphql.FieldContext) (interface{}, error) { return len(cur.edges), nil },
		}
		cfg := &apifu.Config{}
		cfg.AddQueryField("connection", apifu.TimeBasedConnection(tc))
		a, err := apifu.NewAPI(cfg)
		if err != nil {
			panic(err)
		}
		apis[k] = a
		return a
	}
	// every generic connection also implements a ConnectionInterface; requests may select through it
	iface := apifu.ConnectionInterface(&apifu.ConnectionInterfaceConfig{
		NamePrefix:    "Iface",
		EdgeFields:    map[string]*graphql.FieldDefinition{"node": {Type: graphql.IntType}},
		HasTotalCount: true,
	})
	cc := &apifu.ConnectionConfig{
		NamePrefix:            "Thing",
		ImplementedInterfaces: []*graphql.InterfaceType{iface},
		Direction:             apifu.ConnectionDirection(k.dir),
		CursorType: cursorType(k.kind),
		EdgeCursor: func(edge interface{}) interface{} { return edge.(edgeT).Key },
		EdgeFields: edgeFields,
	}
	if k.serFails {
		cc.CursorType = reflect.TypeOf(badCursor{})
		cc.EdgeCursor = func(edge interface{}) interface{} { return badCursor{K: edge.(edgeT).Key.(int)} }
	}
	if k.all {
		cc.ResolveAllEdges = func(ctx graphql.FieldContext) (interface{}, func(a, b interface{}) bool, error) {
			v, err := deliver(ctx, append([]edgeT(nil), cur.edges...))
			return v, lessFor(k), err
		}
	} else {
		cc.ResolveEdges = func(ctx graphql.FieldContext, after, before interface{}, limit int) (interface{}, func(a, b interface{}) bool, error) {
			if b, ok := after.(badCursor); ok {
				after = b.K
			}
			if b, ok := before.(badCursor); ok {
				before = b.K
			}
			win := cur.window(after, before, limit)
			cur.calls = append(cur.calls, sexp.L(optKeySexp(after), optKeySexp(before), sexp.Int(limit), edgesSexp(win)))
			v, err := deliver(ctx, win)
			return v, lessFor(k), err
		}
		cc.ResolveTotalCount = func(ctx graphql.FieldContext) (interface{}, error) {
			if cur.totalFails {
				return nil, errApp
			}
			return len(cur.edges), nil
		}
	}
	cfg := &apifu.Config{}
	cfg.AddQueryField("connection", apifu.Connection(cc))
	a, err := apifu.NewAPI(cfg)
	if err != nil {
		panic(err)
	}
	apis[k] = a
	return a
}

// ---------------------------------------------------------------------------------------------
// one request
// ---------------------------------------------------------------------------------------------

// a count argument: absent, the literal null, or an int literal
type countArg struct {
	mode int // 0 absent, 1 null, 2 value
	val  int
}

func (c countArg) sexp() sexp.Node {
	if c.mode == 2 {
		return sexp.Some(sexp.Int(c.val))
	}
	return sexp.None()
}

func val(n int) countArg { return countArg{2, n} }

// a cursor argument: absent, null, a string passed as a variable
type cursorArg struct {
	mode int // 0 absent, 1 null, 2 string
	str  string
	// what the generator knows about the position the string denotes
	known bool
	pos   interface{} // nil = no cursor
}

func (c cursorArg) sexp() sexp.Node {
	if c.mode == 2 {
		return sexp.Some(sexp.Str(c.str))
	}
	return sexp.None()
}

func (c cursorArg) posSexp() sexp.Node {
	if c.mode != 2 || c.str == "" {
		return sexp.T("known", sexp.None())
	}
	if c.known {
		return sexp.T("known", optKeySexp(c.pos))
	}
	return sexp.T("unknown")
}

func cursorOf(key interface{}) cursorArg {
	s, err := apifu.SerializeCursor(key)
	if err != nil {
		panic(err)
	}
	return cursorArg{mode: 2, str: s, known: true, pos: key}
}

type selection struct{ edges, pageInfo, total bool }

var fullSel = selection{true, true, true}

type request struct {
	first, last   countArg
	after, before cursorArg
	sel           selection
	iface         bool // select everything through fragments on the ConnectionInterface / its edge interface
}

func (q request) document() (string, map[string]interface{}) {
	var args, decl []string
	vars := map[string]interface{}{}
	cnt := func(name string, c countArg) {
		switch c.mode {
		case 1:
			args = append(args, name+": null")
		case 2:
			args = append(args, fmt.Sprintf("%s: %d", name, c.val))
		}
	}
	curArg := func(name string, c cursorArg) {
		switch c.mode {
		case 1:
			args = append(args, name+": null")
		case 2:
			decl = append(decl, "$"+name+": String")
			args = append(args, name+": $"+name)
			vars[name] = c.str
		}
	}
	cnt("first", q.first)
	cnt("last", q.last)
	curArg("after", q.after)
	curArg("before", q.before)
	var sel []string
	if q.sel.edges && q.iface {
		sel = append(sel, "edges { ... on IfaceEdge { cursor node } }")
	} else if q.sel.edges {
		sel = append(sel, "edges { cursor node }")
	}
	if q.sel.pageInfo {
		sel = append(sel, "pageInfo { hasPreviousPage hasNextPage startCursor endCursor }")
	}
	if q.sel.total {
		sel = append(sel, "totalCount")
	}
	d := "query"
	if len(decl) > 0 {
		d += "(" + strings.Join(decl, ", ") + ")"
	}
	a := ""
	if len(args) > 0 {
		a = "(" + strings.Join(args, ", ") + ")"
	}
	if q.iface {
		return d + " { connection" + a + " { ... on IfaceConnection { " + strings.Join(sel, " ") + " } } }", vars
	}
	return d + " { connection" + a + " { " + strings.Join(sel, " ") + " } }", vars
}

type observed struct {
	node    sexp.Node
	emitted []string // cursor strings the server emitted
	isData  bool
	hasPrev bool
	hasNext bool
	start   string
	end     string
}

type gqlResponse struct {
	Data *struct {
		Connection *struct {
			Edges *[]struct {
				Cursor string
				Node   int
			}
			PageInfo *struct {
				HasPreviousPage bool
				HasNextPage     bool
				StartCursor     string
				EndCursor       string
			}
			TotalCount *int
		}
	}
	Errors []struct{ Message string }
}

// serve runs one request against the real server and abstracts the answer.
func serve(api *apifu.API, q request) (o observed) {
	doc, vars := q.document()
	body, _ := json.Marshal(map[string]interface{}{"query": doc, "variables": vars})
	hr := httptest.NewRequest("POST", "/graphql", bytes.NewReader(body))
	hr.Header.Set("Content-Type", "application/json")
	w := httptest.NewRecorder()
	panicked := func() (p bool) {
		defer func() {
			if e := recover(); e != nil {
				p = true
			}
		}()
		api.ServeGraphQL(w, hr)
		return false
	}()
	if panicked {
		o.node = sexp.T("panic")
		return
	}
	var resp gqlResponse
	if w.Code != 200 || json.Unmarshal(w.Body.Bytes(), &resp) != nil {
		o.node = sexp.T("unexpected", sexp.Int(w.Code), sexp.Str(w.Body.String()))
		return
	}
	if len(resp.Errors) > 0 {
		if resp.Data != nil && resp.Data.Connection != nil {
			o.node = sexp.T("unexpected", sexp.Int(w.Code), sexp.Str(w.Body.String()))
			return
		}
		o.node = sexp.T("error")
		return
	}
	if resp.Data == nil || resp.Data.Connection == nil {
		o.node = sexp.T("unexpected", sexp.Int(w.Code), sexp.Str(w.Body.String()))
		return
	}
	c := resp.Data.Connection
	e, p, t := sexp.None(), sexp.None(), sexp.None()
	if c.Edges != nil {
		var l []sexp.Node
		for _, x := range *c.Edges {
			l = append(l, sexp.L(sexp.Str(x.Cursor), sexp.Int(x.Node)))
			o.emitted = append(o.emitted, x.Cursor)
		}
		e = sexp.Some(sexp.L(l...))
	}
	if c.PageInfo != nil {
		p = sexp.Some(sexp.L(sexp.Bool(c.PageInfo.HasPreviousPage), sexp.Bool(c.PageInfo.HasNextPage),
			sexp.Str(c.PageInfo.StartCursor), sexp.Str(c.PageInfo.EndCursor)))
		o.emitted = append(o.emitted, c.PageInfo.StartCursor, c.PageInfo.EndCursor)
		o.hasPrev, o.hasNext = c.PageInfo.HasPreviousPage, c.PageInfo.HasNextPage
		o.start, o.end = c.PageInfo.StartCursor, c.PageInfo.EndCursor
	}
	if c.TotalCount != nil {
		t = sexp.Some(sexp.Int(*c.TotalCount))
	}
	o.isData = true
	o.node = sexp.T("data", e, p, t)
	return
}

// realDecode: what the real DeserializeCursor makes of a string (under recover).
func realDecode(kind string, s string) (n sexp.Node) {
	defer func() {
		if e := recover(); e != nil {
			n = sexp.T("panic")
		}
	}()
	v := apifu.DeserializeCursor(cursorType(kind), s)
	if v == nil {
		return sexp.None()
	}
	return sexp.Some(keySexp(v))
}

func cursorTable(kind string, emitted []string) sexp.Node {
	seen := map[string]bool{}
	var l []sexp.Node
	for _, s := range emitted {
		if s == "" || seen[s] {
			continue
		}
		seen[s] = true
		l = append(l, sexp.L(sexp.Str(s), realDecode(kind, s)))
	}
	return sexp.L(l...)
}

// recordedCalls: the ResolveEdges calls of the request.  A TimeBasedConnection's ResolveEdges is
// internal to api-fu; its call is reconstructed from what can be observed: limit = the limit of
// the last range query (the "middle" one), after / before = what the real DeserializeCursor makes
// of the arguments, answer = the concatenation of the getter's answers.
func (w *world) recordedCalls(k apiKey, q request) []sexp.Node {
	if !k.timeconn {
		return w.calls
	}
	if len(w.getterLimits) == 0 {
		return nil
	}
	dec := func(c cursorArg) interface{} {
		if c.mode != 2 || c.str == "" {
			return nil
		}
		return apifu.DeserializeCursor(cursorType("time"), c.str)
	}
	return []sexp.Node{sexp.L(optKeySexp(dec(q.after)), optKeySexp(dec(q.before)), sexp.Int(w.getterLimits[len(w.getterLimits)-1]), edgesSexp(w.getterEdges))}
}

type setup struct {
	key        apiKey
	edges      []edgeT
	policy     int
	fail       int
	totalFails bool
}

func (s setup) header() []sexp.Node {
	mode := "window"
	if s.key.all {
		mode = "all"
	}
	if s.key.timeconn {
		mode = "timeconn"
	}
	return []sexp.Node{
		sexp.T("direction", sexp.Sym(dirNames[s.key.dir])), sexp.T("ser-fails", sexp.Bool(s.key.serFails)),
		sexp.T("kind", sexp.Sym(s.key.kind)), sexp.T("mode", sexp.Sym(mode)), sexp.T("promise", sexp.Bool(s.key.promise)),
		sexp.T("edges", edgesSexp(s.edges)), sexp.T("total", sexp.Int(len(s.edges))),
		sexp.T("app-fails", sexp.Sym([]string{"no", "sync", "async"}[s.fail]), sexp.Bool(s.totalFails)),
	}
}

func (s setup) world(r *rng.R) *world {
	return &world{edges: s.edges, policy: s.policy, r: r, fail: s.fail, totalFails: s.totalFails, mixed: s.policy%2 == 1}
}

func reqFields(q request, calls []sexp.Node, o observed) []sexp.Node {
	return []sexp.Node{
		sexp.T("sel", sexp.Bool(q.sel.edges), sexp.Bool(q.sel.pageInfo), sexp.Bool(q.sel.total)),
		sexp.T("given", sexp.Bool(q.first.mode != 0), sexp.Bool(q.last.mode != 0), sexp.Bool(q.after.mode != 0), sexp.Bool(q.before.mode != 0)),
		sexp.T("first", q.first.sexp()), sexp.T("last", q.last.sexp()),
		sexp.T("after", q.after.sexp()), sexp.T("before", q.before.sexp()),
		sexp.T("after-pos", q.after.posSexp()), sexp.T("before-pos", q.before.posSexp()),
		sexp.T("calls", sexp.L(calls...)), sexp.T("obs", o.node),
		sexp.T("getter-answers", sexp.L(cur.getterAnswers...)),
	}
}

func connCase(s setup, q request, r *rng.R) sexp.Node {
	api := getAPI(s.key)
	cur = s.world(r)
	if !s.key.timeconn && r.Chance(1, 5) {
		q.iface = true
	}
	o := serve(api, q)
	fields := append(s.header(), reqFields(q, cur.recordedCalls(s.key, q), o)...)
	fields = append(fields, sexp.T("via-interface", sexp.Bool(q.iface)))
	fields = append(fields, sexp.T("cursors", cursorTable(s.key.kind, o.emitted)))
	return sexp.T("conn", fields...)
}

func walkCase(s setup, forward bool, n int, r *rng.R) sexp.Node {
	api := getAPI(s.key)
	var steps []sexp.Node
	var emitted []string
	var cursor cursorArg
	for i := 0; i < len(s.edges)+3; i++ {
		q := request{sel: fullSel}
		if forward {
			q.first, q.after = val(n), cursor
		} else {
			q.last, q.before = val(n), cursor
		}
		cur = s.world(r)
		o := serve(api, q)
		emitted = append(emitted, o.emitted...)
		steps = append(steps, sexp.T("step", reqFields(q, cur.recordedCalls(s.key, q), o)...))
		if !o.isData {
			break
		}
		if forward {
			if !o.hasNext {
				break
			}
			cursor = cursorArg{mode: 2, str: o.end}
		} else {
			if !o.hasPrev {
				break
			}
			cursor = cursorArg{mode: 2, str: o.start}
		}
		// what the client passes back is a string the server emitted; the position it denotes is
		// what the real DeserializeCursor makes of it (the oracle checks separately, through the
		// cursor table, that this is the cursor of the edge it was emitted for)
		func() {
			defer func() { recover() }()
			if v := apifu.DeserializeCursor(cursorType(s.key.kind), cursor.str); v != nil {
				cursor.known, cursor.pos = true, v
			}
		}()
	}
	dir := "bwd"
	if forward {
		dir = "fwd"
	}
	fields := append(s.header(), sexp.T("dir", sexp.Sym(dir)), sexp.T("n", sexp.Int(n)), sexp.T("steps", sexp.L(steps...)),
		sexp.T("cursors", cursorTable(s.key.kind, emitted)))
	return sexp.T("walk", fields...)
}

// ---------------------------------------------------------------------------------------------
// pagination.EdgesToReturn directly
// ---------------------------------------------------------------------------------------------

type dCursor int

func (c dCursor) LessThan(o dCursor) bool { return c < o }

type dEdge struct {
	c    dCursor
	node int
}

func (e dEdge) Cursor() dCursor { return e.c }

func optIntSexp(p *int) sexp.Node {
	if p == nil {
		return sexp.None()
	}
	return sexp.Some(zint(*p))
}

func directCase(edges []edgeT, after, before, first, last *int) sexp.Node {
	in := make([]dEdge, len(edges))
	for i, e := range edges {
		in[i] = dEdge{dCursor(e.Key.(int)), e.Node}
	}
	var ac, bc *dCursor
	if after != nil {
		c := dCursor(*after)
		ac = &c
	}
	if before != nil {
		c := dCursor(*before)
		bc = &c
	}
	obs := func() (n sexp.Node) {
		defer func() {
			if e := recover(); e != nil {
				n = sexp.T("panic")
			}
		}()
		out, pi := pagination.EdgesToReturn(in, ac, bc, first, last)
		l := make([]sexp.Node, len(out))
		for i, e := range out {
			l[i] = sexp.L(zint(int(e.c)), sexp.Int(e.node))
		}
		oc := func(c *dCursor) sexp.Node {
			if c == nil {
				return sexp.None()
			}
			return sexp.Some(zint(int(*c)))
		}
		return sexp.T("ret", sexp.L(l...), sexp.Bool(pi.HasPreviousPage), sexp.Bool(pi.HasNextPage), oc(pi.StartCursor), oc(pi.EndCursor))
	}()
	return sexp.T("direct", sexp.T("edges", edgesSexp(edges)), sexp.T("first", optIntSexp(first)), sexp.T("last", optIntSexp(last)),
		sexp.T("after", optIntSexp(after)), sexp.T("before", optIntSexp(before)), sexp.T("obs", obs))
}

// ---------------------------------------------------------------------------------------------
// codec
// ---------------------------------------------------------------------------------------------

func kindOf(key interface{}) string {
	switch key.(type) {
	case int:
		return "int"
	case apifu.TimeBasedCursor:
		return "time"
	}
	return "str"
}

func codecCase(key interface{}) sexp.Node {
	s, err := apifu.SerializeCursor(key)
	if err != nil {
		return sexp.T("codec", sexp.T("kind", sexp.Sym(kindOf(key))), sexp.T("value", keySexp(key)),
			sexp.T("serialized", sexp.None()), sexp.T("decoded", sexp.None()))
	}
	return sexp.T("codec", sexp.T("kind", sexp.Sym(kindOf(key))), sexp.T("value", keySexp(key)),
		sexp.T("serialized", sexp.Some(sexp.Str(s))), sexp.T("decoded", realDecode(kindOf(key), s)))
}

// decodeCase runs the real DeserializeCursor on an arbitrary string, under recover, and measures
// how much heap the call allocated (the process also runs under debug.SetMemoryLimit).
func decodeCase(kind string, input string) sexp.Node {
	var m0, m1 runtime.MemStats
	runtime.ReadMemStats(&m0)
	res := realDecode(kind, input)
	runtime.ReadMemStats(&m1)
	return sexp.T("decode", sexp.T("kind", sexp.Sym(kind)), sexp.T("input", sexp.Str(input)), sexp.T("result", res),
		sexp.T("alloc", sexp.Int(int(m1.TotalAlloc-m0.TotalAlloc))))
}

// codeProbes: for one first byte c of a msgpack document, the documents that exercise the decoder's
// and Skip's handling of that code: alone, with every plausible length field truncated, with length
// fields claiming 2^32-1 / 2^16-1 / 255 elements or bytes, with a correct small payload, nested in
// containers, and placed where the struct decoder skips values (unknown map key, extra array element).
func codeProbes(c byte) [][]byte {
	ff := []byte{0xff, 0xff, 0xff, 0xff}
	small := []byte{0, 0, 0, 2, 1, 2, 3, 4, 5, 6, 7, 8, 9, 10, 11, 12, 13, 14, 15, 16, 17, 18}
	var docs [][]byte
	add := func(b ...byte) { docs = append(docs, append([]byte(nil), b...)) }
	add(c)
	for n := 1; n <= 4; n++ {
		add(append([]byte{c}, ff[:n]...)...) // truncated / maximal length field
	}
	add(append(append([]byte{c}, ff...), small...)...) // claims 2^32-1 (or 2^16-1, 255), delivers 22 bytes
	add(append([]byte{c}, small...)...)                // 4-byte length 2 / 2-byte length 0 / 1-byte length 0 ...
	add(append([]byte{c, 2}, small...)...)
	add(append([]byte{c, 0, 2}, small...)...)
	add(c, 0xa1, 'a', 1, 0xa1, 'b', 2)              // a map / array of 1-2 with well-formed elements
	add(c, 0xa4, 'N', 'a', 'n', 'o', 5, 0xa2, 'I', 'd', 0xa1, 'z') // the struct's own keys
	add(c, 7, 0xa1, 'z', 0xc0, 0xc0)                 // array form: Nano, Id, extras
	var out [][]byte
	for _, d := range docs {
		out = append(out, d)
		out = append(out, append([]byte{0x81, 0xa1, 'x'}, d...))                 // struct: unknown key, value skipped
		out = append(out, append([]byte{0x93, 5, 0xa1, 'i'}, d...))              // struct as array: extra element skipped
		out = append(out, append([]byte{0x82, 0xa1, 'x', 0x92, 0x91}, d...))     // skipped value nested in arrays
		out = append(out, append([]byte{0x81, 0xa1, 'x', 0xdf, 0xff, 0xff, 0xff, 0xff}, d...)) // ... in a map32 claiming 2^32-1 pairs
	}
	return out
}

var b64 = base64.RawURLEncoding

// ---------------------------------------------------------------------------------------------
// cost: what ValidateCost (default field cost 1) computes for one connection request
// ---------------------------------------------------------------------------------------------

var costSchemas = map[int]*graphql.Schema{}

func costSchema(dir int) *graphql.Schema {
	if s, ok := costSchemas[dir]; ok {
		return s
	}
	field := apifu.Connection(&apifu.ConnectionConfig{
		NamePrefix: "Thing",
		Direction:  apifu.ConnectionDirection(dir),
		CursorType: reflect.TypeOf(0),
		EdgeCursor: func(edge interface{}) interface{} { return edge.(edgeT).Key },
		EdgeFields: map[string]*graphql.FieldDefinition{"node": {Type: graphql.IntType, Resolve: func(ctx graphql.FieldContext) (interface{}, error) { return 0, nil }}},
		ResolveAllEdges: func(ctx graphql.FieldContext) (interface{}, func(a, b interface{}) bool, error) {
			return []edgeT{}, keyLess, nil
		},
	})
	s, err := graphql.NewSchema(&graphql.SchemaDefinition{Query: &graphql.ObjectType{Name: "Query", Fields: map[string]*graphql.FieldDefinition{"connection": field}}})
	if err != nil {
		panic(err)
	}
	costSchemas[dir] = s
	return s
}

func costCase(dir int, q request) sexp.Node {
	doc, _ := q.document()
	var cost int
	_, errs := graphql.ParseAndValidate(doc, costSchema(dir), nil, graphql.ValidateCost("", nil, -1, &cost, graphql.FieldCost{Resolver: 1}))
	obs := sexp.None()
	if len(errs) == 0 {
		obs = sexp.Some(sexp.Int(cost))
	}
	return sexp.T("cost", sexp.T("direction", sexp.Sym(dirNames[dir])),
		sexp.T("given", sexp.Bool(q.first.mode != 0), sexp.Bool(q.last.mode != 0), sexp.Bool(false), sexp.Bool(false)),
		sexp.T("first", q.first.sexp()), sexp.T("last", q.last.sexp()),
		sexp.T("sel", sexp.Bool(q.sel.edges), sexp.Bool(q.sel.pageInfo), sexp.Bool(q.sel.total)), sexp.T("obs", obs))
}

// hostile cursor strings.  ascii: only strings that survive a JSON round trip unchanged.
func hostile(r *rng.R, kind string, ascii bool) string {
	alphabet := "ABCDEFGHIJKLMNOPQRSTUVWXYZabcdefghijklmnopqrstuvwxyz0123456789-_"
	randKey := func() interface{} {
		if kind == "int" {
			return randInt(r)
		}
		if kind == "time" {
			return apifu.TimeBasedCursor{Nano: int64(randInt(r)), Id: randString(r, 12)}
		}
		return randString(r, 40)
	}
	valid := func() string {
		s, _ := apifu.SerializeCursor(randKey())
		if s == "" {
			s = "AA"
		}
		return s
	}
	// the bytes behind a valid cursor (whatever alphabet / padding the implementation uses)
	validBytes := func() []byte {
		s := strings.TrimRight(valid(), "=")
		s = strings.NewReplacer("+", "-", "/", "_").Replace(s)
		b, err := b64.DecodeString(s)
		if err != nil || len(b) == 0 {
			return []byte{0xd3, 0, 0, 0, 0, 0, 0, 0, 7}
		}
		return b
	}
	randBytes := func(n int) []byte {
		b := make([]byte, n)
		for i := range b {
			b[i] = byte(r.Intn(256))
		}
		return b
	}
	be := func(n int, v uint64) []byte {
		b := make([]byte, 8)
		binary.BigEndian.PutUint64(b, v)
		return b[8-n:]
	}
	switch r.Intn(17) {
	case 14: // a msgpack document built from the per-code probes
		return b64.EncodeToString(rng.Pick(r, codeProbes(byte(r.Intn(256)))))
	case 15: // nested containers, shallow to deep, ending in anything
		d := rng.Pick(r, []int{1, 2, 3, 10, 100, 1000})
		b := []byte{0x81, 0xa1, 'x'}
		for i := 0; i < d; i++ {
			b = append(b, rng.Pick(r, []byte{0x91, 0x81, 0x92, 0xdc, 0xdd, 0xde, 0xdf}))
			if r.Chance(1, 4) {
				b = append(b, randBytes(r.Intn(5))...)
			}
		}
		return b64.EncodeToString(append(b, randBytes(r.Intn(4))...))
	case 16: // the struct in its three accepted shapes with a field replaced
		id := randString(r, 6)
		m := []byte{0x82, 0xa4, 'N', 'a', 'n', 'o', 0xd3, 0, 0, 0, 0, 0, 0, 0, byte(r.Intn(256)), 0xa2, 'I', 'd', 0xa0 | byte(len(id))}
		m = append(m, id...)
		switch r.Intn(6) {
		case 0:
			m[0] = rng.Pick(r, []byte{0x80, 0x81, 0x83, 0x8f, 0xc0})
		case 1:
			m = append([]byte{0xde, 0, 2}, m[1:]...)
		case 2:
			m = append([]byte{0xdf, 0, 0, 0, byte(r.Intn(4))}, m[1:]...)
		case 3:
			m = append([]byte{rng.Pick(r, []byte{0x90, 0x91, 0x92, 0x93, 0x9f}), byte(r.Intn(128)), 0xa0 | byte(len(id))}, id...)
			m = append(m, randBytes(r.Intn(6))...)
		case 4:
			m[2+r.Intn(4)] ^= 0x20 // another key: the value is skipped
		default:
			m = append(m[:6], append([]byte{rng.Pick(r, []byte{0xcc, 0xd0, 0xc0, 0xca, 0xa1})}, m[7:]...)...)
		}
		return b64.EncodeToString(m)
	case 0: // random characters of the alphabet
		n := r.Intn(16)
		b := make([]byte, n)
		for i := range b {
			b[i] = alphabet[r.Intn(64)]
		}
		return string(b)
	case 1: // truncated valid cursor
		s := valid()
		return s[:r.Intn(len(s)+1)]
	case 2: // one character of a valid cursor replaced by another alphabet character
		s := []byte(valid())
		s[r.Intn(len(s))] = alphabet[r.Intn(64)]
		return string(s)
	case 3: // one bit of the msgpack bytes flipped
		b := validBytes()
		i := r.Intn(len(b))
		b[i] ^= 1 << uint(r.Intn(8))
		return b64.EncodeToString(b)
	case 4: // valid cursor with line breaks inside (base64 skips them)
		s := valid()
		i := r.Intn(len(s) + 1)
		return s[:i] + rng.Pick(r, []string{"\n", "\r", "\r\n"}) + s[i:]
	case 5: // padding, other alphabet, spaces
		s := valid()
		return rng.Pick(r, []string{s + "=", s + "==", strings.ReplaceAll(s, "_", "/"), strings.ReplaceAll(s, "-", "+"), " " + s, s + " ", s + "A", s + "AA", s + "AAAA"})
	case 6: // valid cursor followed by trailing bytes
		return b64.EncodeToString(append(validBytes(), randBytes(1+r.Intn(4))...))
	case 7: // every integer format of msgpack, possibly truncated
		codes := []struct {
			c byte
			n int
		}{{0xcc, 1}, {0xcd, 2}, {0xce, 4}, {0xcf, 8}, {0xd0, 1}, {0xd1, 2}, {0xd2, 4}, {0xd3, 8}}
		c := rng.Pick(r, codes)
		v := r.Uint64()
		if r.Chance(1, 3) {
			v = ^uint64(0) >> uint(r.Intn(64))
		}
		b := append([]byte{c.c}, be(c.n, v)...)
		if r.Chance(1, 5) {
			b = b[:r.Intn(len(b)+1)]
		}
		return b64.EncodeToString(b)
	case 8: // fixnums, nil, booleans, floats, containers, ext
		b := []byte{byte(r.Intn(256))}
		b = append(b, randBytes(r.Intn(10))...)
		return b64.EncodeToString(b)
	case 9: // string / bin headers with right, short and absurd lengths
		payload := randBytes(r.Intn(40))
		l := uint64(len(payload))
		switch r.Intn(4) {
		case 0:
			l += uint64(1 + r.Intn(5))
		case 1:
			if l > 0 {
				l -= uint64(1 + r.Intn(int(l)))
			}
		case 2:
			l = rng.Pick(r, []uint64{0xff, 0xffff, 0xffffffff, 0x7fffffff, 0x80000000, 0x100000})
		}
		var h []byte
		switch r.Intn(7) {
		case 0:
			h = []byte{0xa0 | byte(l&31)}
		case 1:
			h = append([]byte{0xd9}, be(1, l)...)
		case 2:
			h = append([]byte{0xda}, be(2, l)...)
		case 3:
			h = append([]byte{0xdb}, be(4, l)...)
		case 4:
			h = append([]byte{0xc4}, be(1, l)...)
		case 5:
			h = append([]byte{0xc5}, be(2, l)...)
		default:
			h = append([]byte{0xc6}, be(4, l)...)
		}
		return b64.EncodeToString(append(h, payload...))
	case 10: // the other kind's cursor
		if kind == "time" {
			if r.Bool() {
				s, _ := apifu.SerializeCursor(randInt(r))
				return s
			}
			s, _ := apifu.SerializeCursor(randString(r, 10))
			return s
		}
		if r.Chance(1, 3) {
			s, _ := apifu.SerializeCursor(apifu.TimeBasedCursor{Nano: int64(randInt(r)), Id: randString(r, 5)})
			return s
		}
		if kind == "int" {
			s, _ := apifu.SerializeCursor(randString(r, 10))
			return s
		}
		s, _ := apifu.SerializeCursor(randInt(r))
		return s
	case 11: // very short
		return rng.Pick(r, []string{"A", "AA", "AAA", "wA", "w", "_w", "-", "oA", "0w", "\n", "=", "===="})
	case 12: // arbitrary bytes, not even base64
		if ascii {
			n := 1 + r.Intn(12)
			b := make([]byte, n)
			for i := range b {
				b[i] = byte(0x20 + r.Intn(0x5f))
			}
			return string(b)
		}
		return string(randBytes(1 + r.Intn(24)))
	default: // random msgpack-ish bytes, base64 encoded
		return b64.EncodeToString(randBytes(1 + r.Intn(12)))
	}
}

// ---------------------------------------------------------------------------------------------
// generators
// ---------------------------------------------------------------------------------------------

func randInt(r *rng.R) int {
	switch r.Intn(8) {
	case 0:
		return r.Range(-40, 40)
	case 1:
		return rng.Pick(r, []int{0, 1, -1, 127, 128, -32, -33, -128, -129, 255, 256, 32767, 32768, -32768, -32769, 65535, 65536,
			1<<31 - 1, 1 << 31, -(1 << 31), -(1 << 31) - 1, 1<<32 - 1, 1 << 32, 1<<63 - 1, -(1 << 63), 1 << 62})
	case 2:
		return int(r.Uint64())
	default:
		return r.Range(-1000, 1000)
	}
}

func randString(r *rng.R, maxLen int) string {
	n := r.Intn(maxLen + 1)
	b := make([]byte, n)
	for i := range b {
		switch r.Intn(4) {
		case 0:
			b[i] = byte(r.Intn(256))
		case 1:
			b[i] = byte('a' + r.Intn(3))
		default:
			b[i] = byte(0x20 + r.Intn(0x5f))
		}
	}
	return string(b)
}

func shuffle(r *rng.R, es []edgeT) []edgeT {
	out := append([]edgeT(nil), es...)
	for i := len(out) - 1; i > 0; i-- {
		j := r.Intn(i + 1)
		out[i], out[j] = out[j], out[i]
	}
	return out
}

// the small edge sets of the exhaustive part: cursors 10, 20, ..., 10k
func smallSet(k int) []edgeT {
	es := make([]edgeT, k)
	for i := range es {
		es[i] = edgeT{Key: 10 * (i + 1), Node: 100 + 7*i}
	}
	return es
}

func randomSet(r *rng.R, kind string, maxN int) []edgeT {
	n := r.Intn(maxN + 1)
	seen := map[interface{}]bool{}
	var es []edgeT
	for len(es) < n {
		var k interface{}
		switch kind {
		case "int":
			k = randInt(r)
		case "time":
			// few timestamps, so that several edges share one (ordered by Id then)
			k = apifu.TimeBasedCursor{Nano: int64(r.Range(-3, 3)) * 1000, Id: randString(r, 2)}
		default:
			k = randString(r, 6)
		}
		if seen[k] {
			continue
		}
		seen[k] = true
		es = append(es, edgeT{Key: k, Node: r.Range(-5, 1000)})
	}
	return es
}

// a key that is (probably) not in the set, close to its members
func foreignKey(r *rng.R, kind string, es []edgeT) interface{} {
	if kind == "time" {
		if len(es) > 0 && r.Chance(3, 4) {
			c := rng.Pick(r, es).Key.(apifu.TimeBasedCursor)
			switch r.Intn(4) {
			case 0:
				c.Nano += int64(rng.Pick(r, []int{-1, 1, -1000, 1000}))
			case 1:
				c.Id += string([]byte{byte(r.Intn(256))})
			case 2:
				if c.Id != "" {
					c.Id = c.Id[:len(c.Id)-1]
				}
			default:
				c.Id = randString(r, 2)
			}
			return c
		}
		return apifu.TimeBasedCursor{Nano: int64(r.Range(-4, 4)) * 1000, Id: randString(r, 2)}
	}
	if len(es) > 0 && r.Chance(3, 4) {
		e := rng.Pick(r, es)
		if kind == "int" {
			return e.Key.(int) + rng.Pick(r, []int{-1, 1})
		}
		s := e.Key.(string)
		if r.Bool() || s == "" {
			return s + string([]byte{byte(r.Intn(256))})
		}
		return s[:len(s)-1]
	}
	if kind == "int" {
		return randInt(r)
	}
	return randString(r, 6)
}

func randomCursorArg(r *rng.R, kind string, es []edgeT) cursorArg {
	switch r.Intn(10) {
	case 0, 1, 2:
		return cursorArg{}
	case 3:
		return rng.Pick(r, []cursorArg{{mode: 1}, {mode: 2, str: "", known: true}})
	case 4, 5, 6:
		if len(es) > 0 {
			return cursorOf(rng.Pick(r, es).Key)
		}
		return cursorOf(foreignKey(r, kind, es))
	default:
		return cursorOf(foreignKey(r, kind, es))
	}
}

func randomCounts(r *rng.R, n int) (countArg, countArg) {
	c := func() countArg {
		switch r.Intn(12) {
		case 0:
			return val(-1 - r.Intn(3))
		case 1:
			return val(rng.Pick(r, []int{1<<31 - 1, 1000}))
		default:
			return val(r.Intn(n + 3))
		}
	}
	switch r.Intn(12) {
	case 0:
		return countArg{}, countArg{}
	case 1:
		return c(), c()
	case 2:
		return countArg{mode: 1}, c()
	case 3:
		return c(), countArg{mode: 1}
	case 4, 5, 6, 7:
		return c(), countArg{}
	default:
		return countArg{}, c()
	}
}

var selections = []selection{fullSel, {true, false, true}, {true, false, false}, {false, true, false}, {false, false, true}, {true, true, false}, {false, true, true}}

func allKeys(kind string) []apiKey {
	return []apiKey{{kind: kind, all: true}, {kind: kind, all: true, promise: true}, {kind: kind}, {kind: kind, promise: true}}
}

// smallTimeSet: k edges with struct cursors, two edges per timestamp
func smallTimeSet(k int) []edgeT {
	es := smallSet(k)
	for i := range es {
		es[i].Key = apifu.TimeBasedCursor{Nano: int64(1000 * (i/2 + 1)), Id: fmt.Sprintf("k%02d", i)}
	}
	return es
}

func intp(i int) *int { return &i }

func main() {
	debug.SetMemoryLimit(2 << 30)
	hx.Main(func(h *hx.H) {
		maxK := 5
		if h.Thorough() {
			maxK = 6
		}

		// ---- 1. codec: boundary values first
		ints := []int{0, 1, -1, 5, 127, 128, -32, -33, -128, -129, 255, 256, 32767, 32768, -32768, -32769, 65535, 65536,
			1<<31 - 1, 1 << 31, -(1 << 31), -(1 << 31) - 1, 1<<32 - 1, 1 << 32, 1<<63 - 1, -(1 << 63)}
		for _, v := range ints {
			v := v
			h.Case(func(*rng.R) sexp.Node { return codecCase(v) })
		}
		// string lengths around every msgpack header change and around MaxCursorLength (65536
		// characters = 49152 bytes of msgpack = a string of 49149 bytes): beyond it SerializeCursor fails
		for _, n := range []int{0, 1, 2, 3, 31, 32, 33, 255, 256, 257, 49148, 49149, 49150, 65535, 65536} {
			n := n
			h.Case(func(r *rng.R) sexp.Node {
				b := make([]byte, n)
				for i := range b {
					b[i] = byte(r.Intn(256))
				}
				return codecCase(string(b))
			})
		}
		for _, v := range ints {
			v := v
			h.Case(func(r *rng.R) sexp.Node { return codecCase(apifu.TimeBasedCursor{Nano: int64(v), Id: randString(r, 40)}) })
		}
		for _, n := range []int{0, 31, 32, 255, 256, 49125, 49126, 49127, 49128, 49129, 49130} {
			n := n
			h.Case(func(r *rng.R) sexp.Node {
				return codecCase(apifu.TimeBasedCursor{Nano: int64(randInt(r)), Id: strings.Repeat("i", n)})
			})
		}

		// ---- 1b. DeserializeCursor on every msgpack type code: every first byte 0x00-0xff, for every
		// cursor type, alone / truncated / oversized length fields / nested / in skipped positions
		for c := 0; c < 256; c++ {
			for _, kind := range []string{"int", "str", "time"} {
				for i := range codeProbes(byte(c)) {
					c, kind, i := c, kind, i
					if kind != "time" && i%5 != 0 {
						continue // the wrapped variants only matter to the struct decoder
					}
					h.Case(func(*rng.R) sexp.Node { return decodeCase(kind, b64.EncodeToString(codeProbes(byte(c))[i])) })
				}
			}
		}
		// nesting: as deep as MaxCursorLength allows, and the string that used to kill the process
		for _, d := range []int{1, 10, 1000, 20000, 49000, 49149, 49150, 100000, 6000000} {
			for _, open := range []byte{0x91, 0x81} {
				d, open := d, open
				if d > 100000 && !h.Thorough() && open == 0x81 {
					continue
				}
				h.Case(func(*rng.R) sexp.Node {
					b := []byte{0x81, 0xa1, 'x'}
					for i := 0; i < d; i++ {
						b = append(b, open)
						if open == 0x81 {
							b = append(b, 0xc0)
						}
					}
					b = append(b, 0xc0)
					n := decodeCase("time", b64.EncodeToString(b))
					if len(b) > 60000 {
						// keep the case line small: the model only needs the length to reject it
						return sexp.T("decode-long", sexp.T("kind", sexp.Sym("time")), sexp.T("length", sexp.Int(b64.EncodedLen(len(b)))),
							sexp.T("result", realDecode("time", b64.EncodeToString(b))))
					}
					return n
				})
			}
		}

		// ---- 2. pagination.EdgesToReturn, exhaustively over small sets
		for k := 0; k <= maxK; k++ {
			base := smallSet(k)
			counts := []*int{nil, intp(-1)}
			for c := 0; c <= k+1; c++ {
				counts = append(counts, intp(c))
			}
			cursors := []*int{nil}
			for c := 5; c <= 10*k+5; c += 5 {
				cursors = append(cursors, intp(c))
			}
			for _, first := range counts {
				for _, last := range counts {
					for _, after := range cursors {
						for _, before := range cursors {
							first, last, after, before := first, last, after, before
							h.Case(func(r *rng.R) sexp.Node { return directCase(shuffle(r, base), after, before, first, last) })
						}
					}
				}
			}
		}

		// ---- 3. the connection field, exhaustively over small sets, int cursors.  All synchronous
		// cases come before the promise cases: a panic of the code under test is caught by the
		// harness (and written out as an observation) only on the request's own goroutine; in
		// promise mode it would kill the process.
		for _, promise := range []bool{false, true} {
			for k := 0; k <= maxK; k++ {
				base := smallSet(k)
				type cnt struct{ first, last countArg }
				var counts []cnt
				counts = append(counts, cnt{}, cnt{val(0), val(0)}, cnt{val(1), val(1)}, cnt{val(k + 1), val(0)}, cnt{val(-1), val(1)}, cnt{val(1), val(-1)})
				for c := -1; c <= k+1; c++ {
					counts = append(counts, cnt{val(c), countArg{}}, cnt{countArg{}, val(c)})
				}
				cursors := []cursorArg{{}}
				for c := 5; c <= 10*k+5; c += 5 {
					cursors = append(cursors, cursorOf(c))
				}
				if k <= 2 {
					// the literal null and the empty string both mean "no cursor"
					cursors = append(cursors, cursorArg{mode: 1}, cursorArg{mode: 2, str: "", known: true})
				}
				for _, key := range []apiKey{{kind: "int", all: true, promise: promise}, {kind: "int", promise: promise}} {
					for _, c := range counts {
						for _, after := range cursors {
							for _, before := range cursors {
								key, c, after, before := key, c, after, before
								h.Case(func(r *rng.R) sexp.Node {
									q := request{first: c.first, last: c.last, after: after, before: before, sel: fullSel}
									zero := (c.first.mode == 2 && c.first.val == 0) || (c.last.mode == 2 && c.last.val == 0)
									if zero || r.Chance(1, 8) {
										q.sel = rng.Pick(r, selections)
									}
									return connCase(setup{key: key, edges: shuffle(r, base), policy: r.Intn(5)}, q, r)
								})
							}
						}
					}
				}
			}
		}

		// ---- 4. walks: every page size over small sets, both directions, all modes
		maxW := maxK + 1
		for _, kind := range []string{"int", "str"} {
			for k := 0; k <= maxW; k++ {
				for n := 1; n <= k+1; n++ {
					for _, key := range allKeys(kind) {
						for _, fwd := range []bool{true, false} {
							kind, k, n, key, fwd := kind, k, n, key, fwd
							h.Case(func(r *rng.R) sexp.Node {
								es := smallSet(k)
								if kind == "str" {
									for i := range es {
										es[i].Key = fmt.Sprintf("k%02d", es[i].Key.(int))
									}
								} else if k%2 == 1 {
									// negative, zero and positive cursors ('-' and '_' in the serialised form)
									for i := range es {
										es[i].Key = es[i].Key.(int) - 10*(k/2+1)
									}
								}
								return walkCase(setup{key: key, edges: shuffle(r, es), policy: r.Intn(5)}, fwd, n, r)
							})
						}
					}
				}
			}
		}

		// ---- 4b. ConnectionConfig.Direction: forward-only and backward-only connections, every way of
		// writing the four arguments (absent / null / value) over small sets
		for _, dir := range []int{1, 2} {
			for k := 0; k <= 3; k++ {
				base := smallSet(k)
				countForms := []countArg{{}, {mode: 1}, val(-1)}
				for c := 0; c <= k+1; c++ {
					countForms = append(countForms, val(c))
				}
				otherCount := []countArg{{}, {mode: 1}, val(1)}
				cursors := []cursorArg{{}, {mode: 1}, {mode: 2, str: "", known: true}}
				for c := 5; c <= 10*k+5; c += 5 {
					cursors = append(cursors, cursorOf(c))
				}
				otherCursor := []cursorArg{{}, {mode: 1}, cursorOf(15)}
				for _, key := range []apiKey{{kind: "int", all: true, dir: dir}, {kind: "int", dir: dir}, {kind: "int", dir: dir, promise: true}} {
					for _, mine := range countForms {
						for _, other := range otherCount {
							for _, c := range cursors {
								for _, oc := range otherCursor {
									if other.mode != 0 && oc.mode != 0 && c.mode == 2 && c.str != "" {
										continue // both foreign arguments at once: sampled by the cases with simple cursors
									}
									key, mine, other, c, oc := key, mine, other, c, oc
									h.Case(func(r *rng.R) sexp.Node {
										q := request{sel: fullSel}
										if key.dir == 1 {
											q.first, q.last, q.after, q.before = mine, other, c, oc
										} else {
											q.last, q.first, q.before, q.after = mine, other, c, oc
										}
										if r.Chance(1, 8) {
											q.sel = rng.Pick(r, selections)
										}
										return connCase(setup{key: key, edges: shuffle(r, base), policy: r.Intn(5)}, q, r)
									})
								}
							}
						}
					}
				}
			}
		}
		// walks over one-directional connections (the only direction they offer)
		for _, dir := range []int{1, 2} {
			for k := 0; k <= maxW; k++ {
				for n := 1; n <= k+1; n++ {
					for _, base := range allKeys("int") {
						dir, k, n, key := dir, k, n, base
						key.dir = dir
						h.Case(func(r *rng.R) sexp.Node {
							return walkCase(setup{key: key, edges: shuffle(r, smallSet(k)), policy: r.Intn(5)}, dir == 1, n, r)
						})
					}
				}
			}
		}

		// ---- 4c. struct cursors (apifu.TimeBasedCursor) through the generic Connection and through
		// TimeBasedConnection (whose edge getter answers range queries directly, through promises, or
		// some of each): requests over small sets, then walks with every page size
		timeKeys := append(allKeys("time"), apiKey{kind: "time", timeconn: true}, apiKey{kind: "time", timeconn: true, promise: true})
		for k := 0; k <= 4; k++ {
			base := smallTimeSet(k)
			var cursors []cursorArg
			cursors = append(cursors, cursorArg{})
			for _, e := range base {
				c := e.Key.(apifu.TimeBasedCursor)
				cursors = append(cursors, cursorOf(c), cursorOf(apifu.TimeBasedCursor{Nano: c.Nano, Id: c.Id + "x"}), cursorOf(apifu.TimeBasedCursor{Nano: c.Nano - 500, Id: c.Id}))
			}
			cursors = append(cursors, cursorOf(apifu.TimeBasedCursor{Nano: 99000, Id: ""}), cursorOf(apifu.TimeBasedCursor{}))
			for _, key := range timeKeys {
				for c := 0; c <= k+1; c++ {
					for _, fwd := range []bool{true, false} {
						for _, after := range cursors {
							for _, before := range cursors {
								if after.mode != 0 && before.mode != 0 && (k > 2 || c > 2) {
									continue
								}
								key, c, fwd, after, before := key, c, fwd, after, before
								h.Case(func(r *rng.R) sexp.Node {
									q := request{after: after, before: before, sel: fullSel}
									if fwd {
										q.first = val(c)
									} else {
										q.last = val(c)
									}
									if c == 0 {
										q.sel = rng.Pick(r, selections)
									}
									return connCase(setup{key: key, edges: shuffle(r, base), policy: r.Intn(5)}, q, r)
								})
							}
						}
					}
				}
			}
		}
		for k := 0; k <= maxW; k++ {
			for n := 1; n <= k+1; n++ {
				for _, key := range timeKeys {
					for _, fwd := range []bool{true, false} {
						k, n, key, fwd := k, n, key, fwd
						h.Case(func(r *rng.R) sexp.Node {
							return walkCase(setup{key: key, edges: shuffle(r, smallTimeSet(k)), policy: r.Intn(5)}, fwd, n, r)
						})
					}
				}
			}
		}

		// ---- 4d. SerializeCursor fails: (a) a cursor type msgpack cannot encode at all, (b) string
		// cursors of which some exceed MaxCursorLength.  What the resolver does with the error (an
		// error on the field, never a panic) is compared with the model.
		for i := 0; i < 64; i++ {
			key := allKeys("int")[i%4]
			key.serFails = true
			h.Case(func(r *rng.R) sexp.Node {
				es := shuffle(r, smallSet(r.Intn(4)))
				q := request{sel: rng.Pick(r, selections)}
				if r.Bool() {
					q.first = val(r.Intn(len(es) + 2))
				} else {
					q.last = val(r.Intn(len(es) + 2))
				}
				if r.Chance(1, 4) {
					q.after = rng.Pick(r, []cursorArg{{mode: 1}, {mode: 2, str: "", known: true}})
				}
				return connCase(setup{key: key, edges: es, policy: r.Intn(5)}, q, r)
			})
		}
		// every placement of unserialisable cursors among three edges (start / middle / end of the
		// page), every count, forwards and backwards: the start cursor fails, only the end cursor
		// fails, only an edge in the middle fails (visible only when its cursor is selected)
		longKey := func(j int, long bool) string {
			k := fmt.Sprintf("%c", 'a'+j)
			if long {
				k += strings.Repeat("L", 50000)
			}
			return k
		}
		for _, key := range []apiKey{{kind: "str", all: true}, {kind: "str", promise: true}} {
			for pat := 1; pat < 8; pat++ {
				if !h.Thorough() && pat != 1 && pat != 2 && pat != 4 {
					continue // quick tier: exactly one unserialisable cursor (first / middle / last edge)
				}
				for c := 1; c <= 3; c++ {
					for _, fwd := range []bool{true, false} {
						for _, sel := range []selection{fullSel, {true, false, false}, {false, true, false}} {
							key, pat, c, fwd, sel := key, pat, c, fwd, sel
							if sel != fullSel && c == 2 {
								continue
							}
							h.Case(func(r *rng.R) sexp.Node {
								es := make([]edgeT, 3)
								for j := range es {
									es[j] = edgeT{Key: longKey(j, pat&(1<<uint(j)) != 0), Node: j}
								}
								q := request{sel: sel}
								if fwd {
									q.first = val(c)
								} else {
									q.last = val(c)
								}
								return connCase(setup{key: key, edges: shuffle(r, es), policy: r.Intn(5)}, q, r)
							})
						}
					}
				}
			}
		}
		nLong := 4
		if h.Thorough() {
			nLong = 100
		}
		for i := 0; i < nLong; i++ {
			key := allKeys("str")[i%4]
			h.Case(func(r *rng.R) sexp.Node {
				n := 3 + r.Intn(3)
				es := make([]edgeT, n)
				for j := range es {
					es[j] = edgeT{Key: longKey(j, r.Chance(1, 3)), Node: j}
				}
				q := request{sel: rng.Pick(r, selections)}
				if r.Bool() {
					q.first = val(r.Intn(n + 2))
				} else {
					q.last = val(r.Intn(n + 2))
				}
				if r.Chance(1, 3) {
					q.after = cursorOf(fmt.Sprintf("%c", 'a'+r.Intn(n)))
				}
				return connCase(setup{key: key, edges: shuffle(r, es), policy: r.Intn(5)}, q, r)
			})
		}

		// ---- 4e. cost of a connection request (defaultConnectionCost + the edges multiplier), all three
		// directions, every form of first / last, every selection
		for dir := 0; dir < 3; dir++ {
			forms := []countArg{{}, {mode: 1}, val(-3), val(0), val(1), val(2), val(7), val(1000), val(1<<31 - 1)}
			for _, f := range forms {
				for _, l := range forms {
					for _, sel := range selections {
						dir, f, l, sel := dir, f, l, sel
						h.Case(func(*rng.R) sexp.Node { return costCase(dir, request{first: f, last: l, sel: sel}) })
					}
				}
			}
		}

		// ---- 5. random streams
		nRandom, nHostileConn, nDecode, nWalk, nDirect := 2500, 1500, 4000, 150, 1500
		if h.Thorough() {
			nRandom, nHostileConn, nDecode, nWalk, nDirect = 100000, 60000, 250000, 6000, 60000
		}
		kinds := []string{"int", "str", "time"}
		for i := 0; i < nRandom; i++ {
			kind := kinds[i%3]
			key := allKeys(kind)[(i/3)%4]
			if kind == "time" && (i/12)%3 == 2 {
				key = apiKey{kind: "time", timeconn: true, promise: (i/3)%2 == 1}
			}
			h.Case(func(r *rng.R) sexp.Node {
				es := randomSet(r, kind, 12)
				first, last := randomCounts(r, len(es))
				q := request{first: first, last: last, after: randomCursorArg(r, kind, es), before: randomCursorArg(r, kind, es), sel: fullSel}
				if r.Chance(1, 4) {
					q.sel = rng.Pick(r, selections)
				}
				return connCase(setup{key: key, edges: es, policy: r.Intn(5)}, q, r)
			})
		}
		nFail := 400
		if h.Thorough() {
			nFail = 8000
		}
		for i := 0; i < nFail; i++ {
			key := allKeys("int")[i%4]
			h.Case(func(r *rng.R) sexp.Node {
				es := randomSet(r, "int", 5)
				q := request{sel: rng.Pick(r, selections)}
				if r.Bool() {
					q.first = val(r.Intn(len(es) + 2))
				} else {
					q.last = val(r.Intn(len(es) + 2))
				}
				if r.Chance(1, 3) {
					q.after = randomCursorArg(r, "int", es)
				}
				s := setup{key: key, edges: es, policy: r.Intn(5)}
				switch r.Intn(4) {
				case 0:
					s.fail = 1
				case 1:
					s.fail = 2
				case 2:
					s.totalFails = true
				default:
					s.fail, s.totalFails = 1+r.Intn(2), true
				}
				// A promise that fails beneath the non-null pageInfo / totalCount fields of the lazy
				// zero-edge path runs into the executor's dropped-error defect (DESIGN section 6
				// row 2, owned by C02/C03: {"connection":{"":null}} without an error).  What the
				// executor makes of a failed promise is not part of this model, so asynchronous
				// failures are only generated where the connection field itself is the promise.
				if s.fail == 2 {
					if q.first.mode == 2 && q.first.val == 0 {
						q.first.val = 1
					}
					if q.last.mode == 2 && q.last.val == 0 {
						q.last.val = 1
					}
				}
				return connCase(s, q, r)
			})
		}
		for i := 0; i < nHostileConn; i++ {
			kind := kinds[i%3]
			key := allKeys(kind)[(i/3)%4]
			if kind == "time" && (i/12)%3 == 2 {
				key = apiKey{kind: "time", timeconn: true, promise: (i/3)%2 == 1}
			}
			h.Case(func(r *rng.R) sexp.Node {
				es := randomSet(r, kind, 6)
				q := request{sel: fullSel}
				if r.Bool() {
					q.first = val(r.Intn(len(es) + 2))
				} else {
					q.last = val(r.Intn(len(es) + 2))
				}
				hc := cursorArg{mode: 2, str: hostile(r, kind, true)}
				other := randomCursorArg(r, kind, es)
				if r.Chance(1, 10) {
					other = cursorArg{mode: 2, str: hostile(r, kind, true)}
				}
				if r.Bool() {
					q.after, q.before = hc, other
				} else {
					q.after, q.before = other, hc
				}
				return connCase(setup{key: key, edges: es, policy: r.Intn(5)}, q, r)
			})
		}
		for i := 0; i < nDecode; i++ {
			kind := kinds[i%3]
			h.Case(func(r *rng.R) sexp.Node {
				if r.Chance(1, 6) {
					if kind == "int" {
						return codecCase(randInt(r))
					}
					if kind == "time" {
						return codecCase(apifu.TimeBasedCursor{Nano: int64(randInt(r)), Id: randString(r, 300)})
					}
					return codecCase(randString(r, 300))
				}
				return decodeCase(kind, hostile(r, kind, false))
			})
		}
		for i := 0; i < nWalk; i++ {
			kind := kinds[i%3]
			key := allKeys(kind)[(i/3)%4]
			if kind == "time" && (i/12)%2 == 1 {
				key = apiKey{kind: "time", timeconn: true, promise: (i/3)%2 == 1}
			}
			fwd := (i/24)%2 == 0
			h.Case(func(r *rng.R) sexp.Node {
				es := randomSet(r, kind, 24)
				return walkCase(setup{key: key, edges: es, policy: r.Intn(5)}, fwd, 1+r.Intn(len(es)+2), r)
			})
		}
		for i := 0; i < nDirect; i++ {
			h.Case(func(r *rng.R) sexp.Node {
				es := randomSet(r, "int", 14)
				pick := func() *int {
					switch r.Intn(5) {
					case 0, 1:
						return nil
					case 2:
						if len(es) > 0 {
							return intp(rng.Pick(r, es).Key.(int))
						}
						return intp(randInt(r))
					default:
						return intp(foreignKey(r, "int", es).(int))
					}
				}
				cnt := func() *int {
					switch r.Intn(6) {
					case 0, 1:
						return nil
					case 2:
						return intp(-1 - r.Intn(2))
					default:
						return intp(r.Intn(len(es) + 3))
					}
				}
				return directCase(es, pick(), pick(), cnt(), cnt())
			})
		}
	})
}
