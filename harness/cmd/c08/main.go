// c08: WebSocket conversations (graphql-ws and graphql-transport-ws) against the real
// API.ServeGraphQLWS over loopback; see conv.go for how a conversation is driven and observed.
//
// Case plan (indices are stable for a given tier):
//  1. regression scripts (defect witnesses, id reuse, queue-capacity overflow at close);
//  2. exhaustive: every label sequence up to length 3 over the alphabet of each protocol, and every
//     sequence "accepted init + 3 labels" (thorough: up to 4 / init + 4), endings rotated;
//  3. random longer conversations with random wire spellings and endings;
//  4. thorough only: a client that never reads (defect #31, needs the 5 s write deadline).
package main

import (
	"fmt"
	"os"
	"runtime"
	"runtime/debug"
	"strings"
	"sync"

	"verifharness/internal/hx"
	"verifharness/internal/rng"
	"verifharness/internal/sexp"
)

func startType(proto string) string {
	if proto == protoTWS {
		return "subscribe"
	}
	return "start"
}
func stopType(proto string) string {
	if proto == protoTWS {
		return "complete"
	}
	return "stop"
}

func msg(t string, id int, pay string, doc string) Label {
	return Label{Kind: lMsg, Type: t, ID: id, Pay: pay, Doc: doc}
}

// alphabet of the exhaustive part
func alphabet(proto string) []Label {
	st, sp := startType(proto), stopType(proto)
	return []Label{
		msg("init", 0, "none", ""),
		msg("init", 0, "reject", ""),
		msg(st, 1, "doc", "query"),
		msg(st, 1, "doc", "sub"),
		msg(st, 2, "doc", "sub"),
		msg(st, 1, "doc", "invalid"),
		msg(st, 1, "junk", ""),
		msg(sp, 1, "none", ""),
		msg(sp, 2, "none", ""),
		msg("ping", 0, "none", ""),
		msg("pong", 0, "none", ""),
		msg("terminate", 0, "none", ""),
		msg("other", 0, "none", ""),
		{Kind: lMalformed},
		{Kind: lEmit, Src: 0},
		{Kind: lSrcEnd, Src: 0},
		{Kind: lEmit, Src: 1},
	}
}

var endings = []string{"client-close", "drop", "app-close", "drop-rst"}

func randomLabel(r *rng.R, proto string) Label {
	st, sp := startType(proto), stopType(proto)
	other := stopType(protoWS)
	otherStart := startType(protoWS)
	if proto == protoWS {
		other, otherStart = stopType(protoTWS), startType(protoTWS)
	}
	id := rng.Pick(r, []int{1, 1, 2, 2, 3, 0})
	v := r.Intn(1 << 16)
	var l Label
	switch x := r.Intn(100); {
	case x < 6:
		l = msg("init", id, rng.Pick(r, []string{"none", "none", "junk", "doc"}), "query")
	case x < 8:
		l = msg("init", id, "reject", "")
	case x < 20:
		l = msg(st, id, "doc", "query")
	case x < 24:
		l = msg(st, id, "doc", "mutation")
	case x < 42:
		l = msg(st, id, "doc", "sub")
	case x < 45:
		l = msg(st, id, "doc", "subfail")
	case x < 50:
		l = msg(st, id, "doc", "invalid")
	case x < 52:
		l = msg(st, id, rng.Pick(r, []string{"none", "junk", "reject"}), "")
	case x < 64:
		l = msg(sp, id, rng.Pick(r, []string{"none", "none", "junk", "doc"}), "query")
	case x < 68:
		l = msg("ping", 0, rng.Pick(r, []string{"none", "junk"}), "")
	case x < 70:
		l = msg("pong", 0, "none", "")
	case x < 71:
		l = msg("terminate", 0, "none", "")
	case x < 73:
		l = msg("other", id, rng.Pick(r, []string{"none", "doc"}), "query")
	case x < 74:
		l = msg(other, id, "none", "")
	case x < 75:
		l = msg(otherStart, id, "doc", "query")
	case x < 76:
		l = Label{Kind: lMalformed}
	case x < 92:
		l = Label{Kind: lEmit, Src: r.Intn(4)}
	default:
		l = Label{Kind: lSrcEnd, Src: r.Intn(4)}
	}
	l.Variant = v
	return l
}

type plan struct {
	mode string
	make func(r *rng.R) Script
	slow bool // lasts a keep-alive period or more: started at once, beside the worker pool
}

func fixed(sc Script) plan { return plan{mode: "det", make: func(*rng.R) Script { return sc }} }

func buildPlans(thorough bool) []plan {
	var plans []plan
	protos := []string{protoWS, protoTWS}

	// 1. regression scripts
	for _, p := range protos {
		st, sp := startType(p), stopType(p)
		init := msg("init", 0, "none", "")
		subA := msg(st, 1, "doc", "sub")
		scripts := [][]Label{
			{init, msg("ping", 0, "none", ""), msg(st, 1, "doc", "query")},                                    // defect #25
			{msg("ping", 0, "none", ""), init, msg("ping", 0, "none", "")},                                    // ping before init
			{init, subA, {Kind: lSrcEnd, Src: 0}, subA, {Kind: lEmit, Src: 1}, msg(sp, 1, "none", "")},         // id reuse after the source ended
			{init, subA, msg(sp, 1, "none", ""), subA, {Kind: lEmit, Src: 1}, msg(sp, 1, "none", "")},          // id reuse after stop
			{init, subA, msg(st, 1, "doc", "query"), {Kind: lEmit, Src: 0}, msg(sp, 1, "none", "")},            // query under the id of a live subscription
			{init, subA, subA, {Kind: lEmit, Src: 0}, {Kind: lEmit, Src: 1}},                                   // duplicate subscribe
			{msg(st, 1, "doc", "query"), msg(st, 1, "doc", "sub"), msg(sp, 1, "none", ""), init},               // before init
			{init, init, msg(st, 1, "doc", "query")},                                                          // second init
			{msg("init", 0, "reject", ""), init, msg(st, 1, "doc", "query")},                                  // rejected init
			{init, subA, msg(st, 2, "doc", "sub"), msg("terminate", 0, "none", "")},                           // terminate with live subscriptions
			{init, subA, msg(st, 2, "doc", "sub"), {Kind: lMalformed}},                                        // malformed with live subscriptions
			{init, msg(st, 1, "doc", "mutation"), msg(st, 1, "doc", "subfail"), msg(st, 1, "doc", "invalid")}, // mutation, failing subscribe
		}
		for _, s := range scripts {
			for _, e := range []string{"client-close", "drop", "app-close"} {
				plans = append(plans, fixed(Script{Proto: p, Labels: s, End: e, Barrier: e != "app-close"}))
			}
		}
		// more live subscriptions than the outgoing queue holds when the connection goes away
		for _, e := range []string{"drop", "client-close", "app-close"} {
			ls := []Label{init}
			for i := 0; i < 108; i++ {
				ls = append(ls, msg(st, 1, "doc", "sub"))
				ls[len(ls)-1].Variant = i // distinct ids are not needed by the model: reuse id via variants? no: ids below
			}
			// distinct ids: the model knows ids only as numbers
			for i := 1; i < len(ls); i++ {
				ls[i].ID = 1000 + i
			}
			plans = append(plans, fixed(Script{Proto: p, Labels: ls, End: e, Barrier: true}))
		}
	}

	// 2. exhaustive
	maxLen, maxAfterInit := 3, 3
	if thorough {
		maxLen, maxAfterInit = 4, 4
	}
	for _, p := range protos {
		al := alphabet(p)
		rot := 0
		var rec func(prefix []Label, depth int, limit int)
		rec = func(prefix []Label, depth int, limit int) {
			if depth > 0 {
				sc := append([]Label(nil), prefix...)
				var ends []string
				if depth <= 2 && limit == maxLen && len(prefix) <= 2 {
					ends = []string{"client-close", "drop", "app-close"}
				} else {
					ends = []string{endings[rot%3]}
					rot++
				}
				for _, e := range ends {
					plans = append(plans, fixed(Script{Proto: p, Labels: sc, End: e, Barrier: e != "app-close" || rot%2 == 0}))
				}
			}
			if depth == limit {
				return
			}
			for _, l := range al {
				rec(append(prefix, l), depth+1, limit)
			}
		}
		rec(nil, 0, maxLen)
		// accepted init followed by every sequence of exactly maxAfterInit labels (shorter ones are
		// covered above when maxAfterInit < maxLen)
		var rec2 func(prefix []Label, depth int)
		rec2 = func(prefix []Label, depth int) {
			if depth == maxAfterInit {
				e := endings[rot%3]
				rot++
				plans = append(plans, fixed(Script{Proto: p, Labels: append([]Label(nil), prefix...), End: e, Barrier: e != "app-close" || rot%2 == 0}))
				return
			}
			for _, l := range al {
				rec2(append(prefix, l), depth+1)
			}
		}
		rec2([]Label{al[0]}, 0)
	}

	// 3. random longer conversations
	nRandom := 3000
	if thorough {
		nRandom = 60000
	}
	for i := 0; i < nRandom; i++ {
		plans = append(plans, plan{mode: "det", make: func(r *rng.R) Script {
			p := rng.Pick(r, protos)
			n := r.Range(4, 14)
			var ls []Label
			if r.Chance(9, 10) {
				ls = append(ls, Label{Kind: lMsg, Type: "init", Pay: "none", Variant: r.Intn(1 << 16)})
			}
			for len(ls) < n {
				ls = append(ls, randomLabel(r, p))
			}
			e := rng.Pick(r, endings)
			return Script{Proto: p, Labels: ls, End: e, Barrier: e != "app-close" || r.Bool()}
		}})
	}

	// 3b. bursts: frames written back to back, then a frame that makes the server close: everything
	// the read loop queued before it began closing must arrive before the close frame (drain-then-close)
	nBurst := 300
	if thorough {
		nBurst = 3000
	}
	for i := 0; i < nBurst; i++ {
		plans = append(plans, plan{mode: "det", make: func(r *rng.R) Script {
			p := rng.Pick(r, protos)
			st := startType(p)
			ls := []Label{{Kind: lMsg, Type: "init", Pay: "none", Variant: r.Intn(1 << 16)}}
			var burst []Label
			n := r.Range(5, 40)
			for len(burst) < n {
				var l Label
				switch x := r.Intn(100); {
				case x < 45:
					l = msg(st, rng.Pick(r, []int{1, 2, 3, 0}), "doc", "query")
					l.Big = r.Chance(1, 2)
				case x < 55:
					l = msg(st, rng.Pick(r, []int{1, 2, 3}), "doc", "mutation")
				case x < 70:
					l = msg(st, rng.Pick(r, []int{1, 2, 3}), "doc", "invalid")
				case x < 85:
					l = msg("ping", 0, "none", "")
				case x < 92:
					l = msg("pong", 0, "none", "")
				default:
					l = msg(stopType(p), rng.Pick(r, []int{1, 2, 3}), "none", "")
				}
				l.Variant = r.Intn(1 << 16)
				if l.Big {
					l.Variant = 0
				}
				burst = append(burst, l)
			}
			var closer Label
			if p == protoWS {
				closer = msg("terminate", 0, "none", "")
			} else if r.Bool() {
				closer = Label{Kind: lMalformed, Variant: r.Intn(1 << 16)}
			} else {
				closer = msg("other", 0, "none", "")
				closer.Variant = r.Intn(1 << 16)
			}
			return Script{Proto: p, Labels: ls, Burst: burst, Closer: &closer, End: "client-close", Barrier: true}
		}})
	}

	// 4. a client that never reads (defect #31): the write deadline is 5 s, thorough tier only
	if thorough {
		for _, p := range protos {
			plans = append(plans, plan{mode: "flood", make: func(r *rng.R) Script {
				return Script{Proto: p, Labels: []Label{msg("init", 0, "none", ""), msg(startType(p), 2, "doc", "sub")}, End: "drop", Flood: 600}
			}})
		}
	}
	// 4b. frames in flight while the server is closing: a frame that makes the server begin closing,
	// then frames written right behind it without waiting (the read loop still dispatches them), then
	// the harness's sentinel; every prefix x trigger x body of length <= 2, and random longer bodies
	for _, p := range protos {
		st, sp := startType(p), stopType(p)
		init := msg("init", 0, "none", "")
		prefixes := [][]Label{{}, {init}, {init, msg(st, 1, "doc", "sub")}}
		triggers := []Label{msg("init", 0, "reject", ""), msg("terminate", 0, "none", "")}
		if p == protoTWS {
			triggers = append(triggers, Label{Kind: lMalformed}, msg(st, 3, "junk", ""))
		}
		body := []Label{
			msg(st, 1, "doc", "query"), msg(st, 1, "doc", "sub"), msg(st, 2, "doc", "sub"), msg(sp, 1, "none", ""),
			msg("ping", 0, "none", ""), msg(st, 2, "doc", "invalid"), init,
		}
		add := func(pre []Label, pipe []Label) {
			sc := Script{Proto: p, Labels: append([]Label(nil), pre...), Pipe: append([]Label(nil), pipe...), End: "client-close", Barrier: true}
			plans = append(plans, plan{mode: "pipe", make: func(*rng.R) Script { return sc }})
		}
		for _, pre := range prefixes {
			for _, tr := range triggers {
				if tr.Pay == "junk" && len(pre) == 0 {
					continue // an undecodable payload is a protocol error only on an initialised connection
				}
				add(pre, []Label{tr})
				for _, a := range body {
					add(pre, []Label{tr, a})
					for _, b := range body {
						add(pre, []Label{tr, a, b})
					}
				}
			}
		}
	}
	nPipe := 300
	if thorough {
		nPipe = 6000
	}
	for i := 0; i < nPipe; i++ {
		plans = append(plans, plan{mode: "pipe", make: func(r *rng.R) Script {
			p := rng.Pick(r, protos)
			var ls []Label
			if r.Chance(3, 4) {
				ls = append(ls, Label{Kind: lMsg, Type: "init", Pay: "none", Variant: r.Intn(1 << 16)})
			}
			for n := r.Intn(4); n > 0; n-- {
				ls = append(ls, randomLabel(r, p))
			}
			var tr Label
			switch x := r.Intn(10); {
			case x < 4:
				tr = msg("init", 0, "reject", "")
			case x < 7 || p == protoWS:
				tr = msg("terminate", 0, "none", "")
			case x < 8:
				tr = Label{Kind: lMalformed}
			case x < 9:
				tr = msg("other", 0, "none", "")
			default:
				tr = msg("other", 0, "none", "")
				if len(ls) > 0 && ls[0].Type == "init" {
					tr = msg(startType(p), 3, "junk", "")
				}
			}
			tr.Variant = r.Intn(1 << 16)
			pipe := []Label{tr}
			for n := r.Range(1, 8); n > 0; n-- {
				l := randomLabel(r, p)
				for l.Kind != lMsg && l.Kind != lMalformed {
					l = randomLabel(r, p)
				}
				pipe = append(pipe, l)
			}
			return Script{Proto: p, Labels: ls, Pipe: pipe, End: "client-close", Barrier: true}
		}})
	}

	// 4c. the application closes the connection while a handler call is in flight (the init callback,
	// a resolver, a subscribe resolver blocked on the harness's gate); the gate opens after the write
	// loop has given up waiting for the peer's close and has exited
	for _, p := range protos {
		st := startType(p)
		init := msg("init", 0, "none", "")
		subA := msg(st, 1, "doc", "sub")
		type gs struct {
			pre  []Label
			gate Label
		}
		scripts := []gs{
			// (a gated subscription uses an id no other label uses: a duplicate of a live id never reaches the resolver)
			{[]Label{init}, msg(st, 7, "doc", "sub")},
			{[]Label{init}, msg(st, 2, "doc", "query")},
			{[]Label{init, subA}, msg(st, 7, "doc", "sub")},
			{[]Label{init, subA, {Kind: lEmit, Src: 0}}, msg(st, 2, "doc", "query")},
			{[]Label{init, subA, {Kind: lSrcEnd, Src: 0}}, msg(st, 1, "doc", "sub")}, // id reuse after the source ended
			{[]Label{}, init},
			{[]Label{init}, init},
			{[]Label{msg(st, 1, "doc", "query")}, init},
		}
		for _, s := range scripts {
			g := s.gate
			sc := Script{Proto: p, Labels: s.pre, Gate: &g, End: "app-close", Barrier: true}
			plans = append(plans, plan{mode: "gate", make: func(*rng.R) Script { return sc }})
		}
	}
	nGate := 40
	if thorough {
		nGate = 1500
	}
	for i := 0; i < nGate; i++ {
		plans = append(plans, plan{mode: "gate", make: func(r *rng.R) Script {
			p := rng.Pick(r, protos)
			ls := []Label{{Kind: lMsg, Type: "init", Pay: "none", Variant: r.Intn(1 << 16)}}
			for n := r.Intn(6); n > 0; n-- {
				ls = append(ls, randomLabel(r, p))
			}
			var g Label
			switch r.Intn(5) {
			case 0:
				g = msg("init", 0, "none", "")
			case 1, 2:
				g = msg(startType(p), rng.Pick(r, []int{1, 2, 3}), "doc", "query")
			default:
				g = msg(startType(p), 7, "doc", "sub")
			}
			return Script{Proto: p, Labels: ls, Gate: &g, End: "app-close", Barrier: true}
		}})
	}

	// 4d. the same with handler calls that return only when their context is cancelled: nobody opens a
	// gate; the application's Close() must return within the harness's bound
	for _, p := range protos {
		st := startType(p)
		init := msg("init", 0, "none", "")
		subA := msg(st, 1, "doc", "sub")
		type gs struct {
			pre  []Label
			gate Label
		}
		scripts := []gs{
			{[]Label{init}, msg(st, 2, "doc", "query")},
			{[]Label{init}, msg(st, 7, "doc", "sub")},
			{[]Label{init, subA}, msg(st, 2, "doc", "query")},
			{[]Label{init, subA, {Kind: lEmit, Src: 0}}, msg(st, 7, "doc", "sub")},
			{[]Label{}, init},
			{[]Label{init, subA}, init},
		}
		for _, s := range scripts {
			g := s.gate
			sc := Script{Proto: p, Labels: s.pre, Gate: &g, GateCtx: true, End: "app-close", Barrier: true}
			plans = append(plans, plan{mode: "gatectx", make: func(*rng.R) Script { return sc }})
		}
	}
	// 4e. the outgoing queue full while the server is closing: a frame that makes the server begin
	// closing is not answered (the write loop waits 1 s and drains nothing), a source delivers events
	// until its goroutine blocks on the queue, one more query blocks the read loop; then the write
	// loop exits
	for _, p := range protos {
		st := startType(p)
		init := msg("init", 0, "none", "")
		subA := msg(st, 1, "doc", "sub")
		triggers := []Label{msg("init", 0, "reject", ""), msg("terminate", 0, "none", "")}
		if p == protoTWS {
			triggers = append(triggers, Label{Kind: lMalformed}, msg(st, 3, "junk", ""))
		}
		for _, tr := range triggers {
			for _, pre := range [][]Label{{init, subA}, {init, subA, msg(st, 2, "doc", "sub"), {Kind: lEmit, Src: 0}}} {
				tr := tr
				sc := Script{Proto: p, Labels: pre, Full: &tr, End: "client-close", Barrier: true}
				plans = append(plans, plan{mode: "full", make: func(*rng.R) Script { return sc }})
			}
		}
	}

	// 4f. the client drops the connection while a handler call waits for the cancellation of its context:
	// the write loop notices at the second keep-alive write after the drop (30 s); slow cases
	for _, p := range protos {
		st := startType(p)
		init := msg("init", 0, "none", "")
		g1 := msg(st, 2, "doc", "query")
		g2 := msg(st, 7, "doc", "sub")
		for _, sc := range []Script{
			{Proto: p, Labels: []Label{init}, Gate: &g1, GateCtx: true, GateDrop: true, End: "drop"},
			{Proto: p, Labels: []Label{init, msg(st, 1, "doc", "sub")}, Gate: &g2, GateCtx: true, GateDrop: true, End: "drop"},
		} {
			sc := sc
			plans = append(plans, plan{mode: "gatectx", slow: true, make: func(*rng.R) Script { return sc }})
		}
	}

	// 4g. the unresponsive but connected peer: once the server ends the connection (every server-initiated ending:
	// a frame that makes it close, an init the application refuses, the application's Close()) the client answers
	// nothing, sends nothing and keeps the TCP connection open; teardown must complete by itself within a bound
	for _, p := range protos {
		st := startType(p)
		init := msg("init", 0, "none", "")
		subA := msg(st, 1, "doc", "sub")
		triggers := []Label{msg("init", 0, "reject", ""), msg("terminate", 0, "none", "")}
		if p == protoTWS {
			triggers = append(triggers, Label{Kind: lMalformed}, msg(st, 3, "junk", ""))
		}
		for _, pre := range [][]Label{{init}, {init, subA}, {init, subA, msg(st, 2, "doc", "sub"), {Kind: lEmit, Src: 0}, {Kind: lSrcEnd, Src: 1}}} {
			for _, tr := range triggers {
				ls := append(append([]Label(nil), pre...), tr)
				sc := Script{Proto: p, Labels: ls, Mute: true, End: "client-close", Barrier: true}
				plans = append(plans, plan{mode: "mute", make: func(*rng.R) Script { return sc }})
			}
			sc := Script{Proto: p, Labels: append([]Label(nil), pre...), Mute: true, End: "app-close", Barrier: true}
			plans = append(plans, plan{mode: "mute", make: func(*rng.R) Script { return sc }})
		}
		// before any init
		sc := Script{Proto: p, Labels: []Label{msg("init", 0, "reject", "")}, Mute: true, End: "client-close"}
		plans = append(plans, plan{mode: "mute", make: func(*rng.R) Script { return sc }})
	}
	// 4h. a slow reader: the client pipelines queries with 100 KB answers and reads nothing for 2.5 s, then reads
	// everything; nothing may be lost (slow: beside the worker pool)
	nSlowQ := []int{220}
	if thorough {
		nSlowQ = []int{150, 220, 400}
	}
	for _, p := range protos {
		for _, n := range nSlowQ {
			sc := Script{Proto: p, Labels: []Label{msg("init", 0, "none", ""), msg(startType(p), 1, "doc", "sub")}, Slow: n, End: "client-close", Barrier: true}
			plans = append(plans, plan{mode: "slow", slow: true, make: func(*rng.R) Script { return sc }})
		}
	}

	// 4i. the write-error ending with an unresponsive peer, in the quick tier too: a client that never reads
	// (300 x 100 KB answers fill the socket buffers and the outgoing queue, senders block), the write loop hits
	// its 5 s write deadline and exits; teardown is accounted while the client still holds the connection (slow)
	for _, p := range protos {
		p := p
		plans = append(plans, plan{mode: "flood", slow: true, make: func(r *rng.R) Script {
			return Script{Proto: p, Labels: []Label{msg("init", 0, "none", ""), msg(startType(p), 2, "doc", "sub")}, End: "drop", Flood: 300, Mute: true}
		}})
	}

	// 4j. a client that stops reading while a subscription with 100 KB events floods, pings while the outgoing
	// queue is full, then resumes reading: the pong must be there (graphql-transport-ws; in graphql-ws the ping is
	// an ignored frame, the events must all arrive)
	for _, p := range protos {
		sb := msg(startType(p), 1, "doc", "sub")
		sb.Big = true
		sc := Script{Proto: p, Labels: []Label{msg("init", 0, "none", ""), sb}, SlowPing: true, End: "client-close", Barrier: true}
		plans = append(plans, plan{mode: "slow", slow: true, make: func(*rng.R) Script { return sc }})
	}

	// 5. keep-alive periods: the conversation waits 15 s (+ margin) per tick label, so these few run
	// beside the worker pool from the start and are handed out last
	for _, p := range protos {
		st := startType(p)
		init := msg("init", 0, "none", "")
		q := msg(st, 1, "doc", "query")
		tick := Label{Kind: lTick}
		type se struct {
			ls  []Label
			end string
		}
		scripts := []se{
			{[]Label{tick, init, q}, "client-close"},                                           // a period passes before init (the keep-alive defect)
			{[]Label{init, tick, q}, "drop"},                                                   // periodic keep-alive after the ack
			{[]Label{init, msg(st, 1, "doc", "sub"), tick, {Kind: lEmit, Src: 0}}, "app-close"}, // with a live subscription
		}
		if thorough {
			scripts = append(scripts,
				se{[]Label{tick, init, tick, q}, "client-close"},
				se{[]Label{tick, tick, init, q}, "drop"},
				se{[]Label{msg("ping", 0, "none", ""), tick, msg("init", 0, "reject", "")}, "client-close"},
				se{[]Label{init, tick, tick, msg(st, 2, "doc", "sub"), tick}, "app-close"},
			)
		}
		for _, s := range scripts {
			sc := Script{Proto: p, Labels: s.ls, End: s.end, Barrier: s.end != "app-close"}
			plans = append(plans, plan{mode: "det", slow: true, make: func(*rng.R) Script { return sc }})
		}
	}
	return plans
}

func caseSexp(mode string, sc Script, res Result) sexp.Node {
	proto := "ws"
	if sc.Proto == protoTWS {
		proto = "tws"
	}
	labels := make([]sexp.Node, len(res.Labels))
	for i, l := range res.Labels {
		labels[i] = l.sexp()
	}
	stall := make([]sexp.Node, len(res.Stall))
	for i, s := range res.Stall {
		stall[i] = sexp.Sym(s)
	}
	lenient := len(res.Labels)
	if res.Lenient >= 0 && res.Lenient < lenient {
		lenient = res.Lenient
	}
	return sexp.T("case", sexp.T("proto", sexp.Sym(proto)), sexp.T("mode", sexp.Sym(mode)),
		sexp.T("labels", sexp.L(labels...)), sexp.T("obs", sexp.L(res.Obs...)), sexp.T("log", sexp.L(res.Log...)),
		res.Final, sexp.T("stall", sexp.L(stall...)), sexp.T("lenient", sexp.Int(lenient)), sexp.T("attempts", sexp.Int(res.Attempts)))
}

// inconclusive: the conversation did not run as scripted for reasons of timing
func inconclusive(sc Script, res Result) bool {
	if len(res.Stall) > 0 {
		return true
	}
	if n := len(res.Labels); n > 0 && res.Labels[n-1].Kind == lEnd && res.Labels[n-1].End == "peer" && sc.Flood == 0 {
		return true // the server ended a connection the script meant to end itself (its write deadline passed)
	}
	return false
}

type outcome struct {
	line  string
	panic interface{}
	stack string
	first uint64
}

func main() {
	hx.Main(func(h *hx.H) {
		plans := buildPlans(h.Thorough())
		root, _ := rng.FromEnv()
		workers := 4 * runtime.GOMAXPROCS(0)
		if v := os.Getenv("C08_WORKERS"); v != "" {
			fmt.Sscan(v, &workers)
		}
		// Scheduler variation: the number of OS threads running Go code is rotated every 2048 cases
		// (thorough tier, which is also built with -race; or the list in C08_GOMAXPROCS), so that the
		// races between read loop, write loop, subscription goroutines and closers are exercised
		// with one, few and many processors.  What a case contains does not depend on it.
		var procs []int
		if v := os.Getenv("C08_GOMAXPROCS"); v != "" {
			for _, w := range strings.Split(v, ",") {
				var n int
				if _, err := fmt.Sscan(w, &n); err == nil && n > 0 {
					procs = append(procs, n)
				}
			}
		} else if h.Thorough() {
			procs = []int{runtime.GOMAXPROCS(0), 2, 1, 4}
		}
		// Conversations run in parallel; their case lines are handed to hx in index order as they
		// become available (a window of at most a few hundred results is held in memory).
		var mu sync.Mutex
		cond := sync.NewCond(&mu)
		results := map[int]*outcome{}
		next := 0 // next index hx will emit
		running := 0
		jobs := make(chan int)
		go func() {
			for i := range plans {
				if (h.Only >= 0 && i != h.Only) || plans[i].slow {
					continue
				}
				mu.Lock()
				for h.Only < 0 && i > next+8*workers {
					cond.Wait()
				}
				mu.Unlock()
				if len(procs) > 0 && i%2048 == 0 {
					runtime.GOMAXPROCS(procs[(i/2048)%len(procs)])
				}
				// no more conversations at a time than the processors in use can serve (with one or two
				// processors and the race detector, 64 conversations at once are slower than the harness's waits)
				mu.Lock()
				for limit := 4 * runtime.GOMAXPROCS(0); h.Only < 0 && running >= limit && running >= 8; limit = 4 * runtime.GOMAXPROCS(0) {
					cond.Wait()
				}
				running++
				mu.Unlock()
				jobs <- i
			}
			close(jobs)
		}()
		runOne := func(i int) {
			o := &outcome{}
			func() {
				defer func() {
					if e := recover(); e != nil {
						o.panic = e
						o.stack = string(debug.Stack())
					}
				}()
				// the same stream hx hands to the Case closure of index i (checked below)
				r := root.Fork(uint64(i))
				o.first = root.Fork(uint64(i)).Uint64()
				sc := plans[i].make(r)
				res := runConversation(fmt.Sprint(i), sc)
				attempts := 1
				// Cases that depend on real time (a client that pauses reading against the server's 5 s write
				// deadline) are inconclusive when the machine is so loaded that the connection ended in a way the
				// script did not intend (the server closed it, or a wait of the harness ran out): such an attempt is
				// repeated from scratch, up to 3 more times; a defect shows on every attempt, load does not.
				for plans[i].slow && (plans[i].mode == "slow" || plans[i].mode == "flood") && attempts < 4 && inconclusive(sc, res) {
					attempts++
					res = runConversation(fmt.Sprintf("%d.%d", i, attempts), sc)
				}
				res.Attempts = attempts
				o.line = caseSexp(plans[i].mode, sc, res).String()
			}()
			mu.Lock()
			results[i] = o
			cond.Broadcast()
			mu.Unlock()
		}
		for i := range plans {
			if plans[i].slow && (h.Only < 0 || i == h.Only) {
				go runOne(i)
			}
		}
		for k := 0; k < workers; k++ {
			go func() {
				for i := range jobs {
					runOne(i)
					mu.Lock()
					running--
					cond.Broadcast()
					mu.Unlock()
				}
			}()
		}
		for i := range plans {
			i := i
			var o *outcome
			if h.Only < 0 || i == h.Only {
				mu.Lock()
				for results[i] == nil {
					cond.Wait()
				}
				o = results[i]
				delete(results, i)
				mu.Unlock()
			}
			h.Case(func(r *rng.R) sexp.Node {
				if o.panic != nil {
					panic(fmt.Sprintf("%v\n%s", o.panic, o.stack))
				}
				if r.Uint64() != o.first {
					panic("c08: the random stream of the case differs from the one hx hands out")
				}
				n, err := sexp.Parse(o.line)
				if err != nil {
					panic(err)
				}
				return n
			})
			mu.Lock()
			next = i + 1
			cond.Broadcast()
			mu.Unlock()
		}
	})
}
