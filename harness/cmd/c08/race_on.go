//go:build race

package main

import "time"

// Built with -race (thorough tier) everything is several times slower, and the conversations run 64
// at a time: the bound of the harness's waits (reached only when the server deviates) is raised so
// that slowness is not mistaken for a deviation.
func init() { waitT = 30 * time.Second; muteBound = 12 * time.Second }
