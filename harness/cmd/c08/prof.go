package main

// Goroutine accounting per conversation.  Every conversation starts its own httptest server inside
// pprof.Do(labels("c08", <case tag>)); goroutine labels are inherited at `go`, so the accept loop,
// the per-connection HTTP goroutine, the connection's read loop, write loop and every subscription
// goroutine carry the tag.  The text goroutine profile (debug=1) lists the labels of each group of
// goroutines with identical stacks, which lets many conversations run in parallel in one process
// and still be accounted for separately.

import (
	"bytes"
	"regexp"
	"runtime/pprof"
	"strconv"
	"strings"
	"sync"
	"time"
)

type profGroup struct {
	count int
	funcs []string
}

type profSnapshot struct {
	taken  time.Time
	groups map[string][]profGroup // tag -> groups
}

var (
	profMu   sync.Mutex
	profLast *profSnapshot
	reHeader = regexp.MustCompile(`^(\d+) @`)
	reLabel  = regexp.MustCompile(`"c08":"([^"]*)"`)
)

// snapshotAfter returns a goroutine profile taken at or after t (shared between callers).
func snapshotAfter(t time.Time) *profSnapshot {
	profMu.Lock()
	defer profMu.Unlock()
	if profLast != nil && !profLast.taken.Before(t) {
		return profLast
	}
	taken := time.Now()
	var buf bytes.Buffer
	pprof.Lookup("goroutine").WriteTo(&buf, 1)
	snap := &profSnapshot{taken: taken, groups: map[string][]profGroup{}}
	var cur *profGroup
	curTag := ""
	flush := func() {
		if cur != nil && curTag != "" {
			snap.groups[curTag] = append(snap.groups[curTag], *cur)
		}
		cur, curTag = nil, ""
	}
	for _, line := range strings.Split(buf.String(), "\n") {
		if m := reHeader.FindStringSubmatch(line); m != nil {
			flush()
			n, _ := strconv.Atoi(m[1])
			cur = &profGroup{count: n}
			continue
		}
		if cur == nil {
			continue
		}
		if strings.HasPrefix(line, "# labels:") {
			if m := reLabel.FindStringSubmatch(line); m != nil {
				curTag = m[1]
			}
			continue
		}
		if strings.HasPrefix(line, "#\t") {
			parts := strings.Split(line, "\t")
			if len(parts) >= 3 {
				fn := parts[2]
				if i := strings.LastIndex(fn, "+0x"); i >= 0 {
					fn = fn[:i]
				}
				cur.funcs = append(cur.funcs, fn)
			}
		}
	}
	flush()
	profLast = snap
	return snap
}

// leakInfo: how many goroutines still carry the tag, and a stable description of where they are
// (the innermost api-fu function of each group, sorted) for classification.
func leakInfo(tag string, since time.Time) (int, []string) {
	snap := snapshotAfter(since)
	total := 0
	var where []string
	for _, g := range snap.groups[tag] {
		total += g.count
		w := "?"
		for _, fn := range g.funcs {
			if strings.Contains(fn, "ccbrown/api-fu") {
				w = fn[strings.LastIndex(fn, "/")+1:]
				break
			}
		}
		if w == "?" && len(g.funcs) > 0 {
			w = g.funcs[len(g.funcs)-1]
			w = w[strings.LastIndex(w, "/")+1:]
		}
		where = append(where, w)
	}
	return total, where
}

// servingInfo: like leakInfo, but only goroutines that are inside api-fu (read loop, write loop, subscription
// goroutines, a caller of Close()): usable while the conversation's HTTP server is still up.
func servingInfo(tag string, since time.Time) (int, []string) {
	snap := snapshotAfter(since)
	total := 0
	var where []string
	for _, g := range snap.groups[tag] {
		for _, fn := range g.funcs {
			if strings.Contains(fn, "ccbrown/api-fu") {
				total += g.count
				where = append(where, fn[strings.LastIndex(fn, "/")+1:])
				break
			}
		}
	}
	return total, where
}
