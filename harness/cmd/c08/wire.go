package main

// Labels of a WebSocket conversation and their wire form for the two sub-protocols.
//
// A label is what the Coq model consumes (Ws/WsModel.v: cframe / label); the wire form is what the
// real server receives.  Several wire spellings ("variants") map to the same label; the exhaustive
// part always uses variant 0, the random part picks variants at random.

import (
	"encoding/json"
	"fmt"

	"verifharness/internal/sexp"
)

const (
	protoWS  = "graphql-ws"
	protoTWS = "graphql-transport-ws"
)

// operation ids on the wire; index = the number the model sees
var idText = map[int]string{0: "", 1: "a", 2: "b", 3: "c", 9: "zz"}
var idNum = map[string]int{"": 0, "a": 1, "b": 2, "c": 3, "zz": 9}

const barrierID = 9

func idString(n int) string {
	if t, ok := idText[n]; ok {
		return t
	}
	return fmt.Sprintf("i%d", n)
}

func idNumber(t string) (int, bool) {
	if v, ok := idNum[t]; ok {
		return v, true
	}
	var n int
	if _, err := fmt.Sscanf(t, "i%d", &n); err == nil && idString(n) == t {
		return n, true
	}
	return 0, false
}

type labelKind int

const (
	lMsg labelKind = iota
	lMalformed
	lEmit
	lSrcEnd
	lEnd
	lTick // one keep-alive period of the server's write loop passes (the harness waits for it)
)

// Label is one step of a conversation.
type Label struct {
	Kind labelKind
	// lMsg
	Type    string // model message type: init terminate start stop subscribe complete ping pong other
	ID      int
	Pay     string // none junk reject doc
	Doc     string // query mutation sub subfail invalid   (Pay == "doc")
	Variant int    // wire spelling
	Big     bool   // query whose answer is ~100 KB (same label: a query)
	GateCtx bool   // like Gated, but the handler call waits for the cancellation of its context only (nobody opens a gate)
	Gated   bool   // the handler call of this frame (init callback, resolver, subscribe resolver) blocks on the harness's gate (same label)
	// lEmit / lSrcEnd: Src is the creation index of the source the script means; Op is filled in
	// when the label is performed: the operation number of that source (what the model's label
	// names), or the label's own index when there is no such source
	Src int
	Op  int
	// lEnd
	End string // client-close drop app-close peer
}

func (l Label) sexp() sexp.Node {
	switch l.Kind {
	case lMsg:
		pay := sexp.Sym(l.Pay)
		if l.Pay == "doc" {
			pay = sexp.T("doc", sexp.Sym(l.Doc))
		}
		return sexp.T("msg", sexp.Sym(l.Type), sexp.Int(l.ID), pay)
	case lMalformed:
		return sexp.T("malformed")
	case lEmit:
		return sexp.T("emit", sexp.Int(l.Op))
	case lSrcEnd:
		return sexp.T("srcend", sexp.Int(l.Op))
	case lEnd:
		return sexp.T("end", sexp.Sym(l.End))
	case lTick:
		return sexp.T("tick")
	}
	panic("label kind")
}

// wire type words; "other" has several spellings, among them the words only the server sends and
// the words of the other sub-protocol are reached through their own model types.
var typeWord = map[string]string{
	"init": "connection_init", "terminate": "connection_terminate", "start": "start", "stop": "stop",
	"subscribe": "subscribe", "complete": "complete", "ping": "ping", "pong": "pong",
}
var otherWords = []string{"bogus", "next", "data", "error", "ka", "connection_ack", "connection_error", "", "START", "connection_init "}

// documents; n is the operation number (index of the label in the conversation), echoed by the
// resolvers so that every result frame names the operation incarnation it belongs to.
func docText(doc string, variant int, n int) (query string, extra map[string]interface{}) {
	switch doc {
	case "query":
		switch variant % 4 {
		case 0:
			return fmt.Sprintf("{q(n:%d)}", n), nil
		case 1:
			return fmt.Sprintf("query{q(n:%d)}", n), nil
		case 2:
			return fmt.Sprintf("query Q{q(n:%d)} query R{q(n:0)}", n), map[string]interface{}{"operationName": "Q"}
		default:
			return "query($n:Int){q(n:$n)}", map[string]interface{}{"variables": map[string]interface{}{"n": n}}
		}
	case "mutation":
		return fmt.Sprintf("mutation{m(n:%d)}", n), nil
	case "sub":
		switch variant % 2 {
		case 0:
			return fmt.Sprintf("subscription{s(n:%d)}", n), nil
		default:
			return fmt.Sprintf("subscription S{s(n:%d)} query R{q(n:0)}", n), map[string]interface{}{"operationName": "S"}
		}
	case "subfail":
		return fmt.Sprintf("subscription{sf(n:%d)}", n), nil
	case "invalid":
		switch variant % 5 {
		case 0:
			return "{nope}", nil
		case 1:
			return "{q(", nil
		case 2:
			return "", nil
		case 3:
			return "subscription{nope}", nil
		default:
			return "query A{q} query B{q}", nil // valid document, no operation selected
		}
	}
	panic("doc " + doc)
}

var junkPayloads = []string{`"zz"`, `[1]`, `{"query":5}`, `17`, `{"variables":"x"}`}
var malformedTexts = []string{`garbage`, ``, `[]`, `{"type":5}`, `{"type":"start","id":5}`, `{"type":"connection_init"`, `"str"`, `nul`, "\x00\x01\xff", `{"type":"ping","payload":}`}

func mustJSON(v interface{}) string {
	b, err := json.Marshal(v)
	if err != nil {
		panic(err)
	}
	return string(b)
}

// wire returns the bytes of the client frame for a lMsg / lMalformed label. binary reports whether
// it is sent as a binary WebSocket message (the server does not look at the message type).
func (l Label) wire(n int) (data []byte, binary bool) {
	if l.Kind == lMalformed {
		t := malformedTexts[l.Variant%len(malformedTexts)]
		return []byte(t), (l.Variant/len(malformedTexts))%2 == 1
	}
	word, ok := typeWord[l.Type]
	if !ok {
		word = otherWords[l.Variant%len(otherWords)]
	}
	s := `{"type":` + mustJSON(word)
	if l.ID != 0 || l.Variant%7 == 3 {
		s += `,"id":` + mustJSON(idString(l.ID))
	}
	switch l.Pay {
	case "none":
		if l.Gated && l.Type == "init" {
			if l.GateCtx {
				s += `,"payload":{"gatectx":true}`
			} else {
				s += `,"payload":{"gate":true}`
			}
		}
	case "junk":
		s += `,"payload":` + junkPayloads[l.Variant%len(junkPayloads)]
	case "reject":
		s += `,"payload":{"reject":true}`
	case "doc":
		q, extra := docText(l.Doc, l.Variant, n)
		if l.Big && l.Doc == "query" {
			q, extra = fmt.Sprintf("{big(n:%d)}", n), nil
		}
		if l.Big && l.Doc == "sub" {
			q, extra = fmt.Sprintf("subscription{sb(n:%d)}", n), nil
		}
		gq, gs := "qg", "sg"
		if l.GateCtx {
			gq, gs = "qc", "sc"
		}
		if l.Gated && l.Doc == "query" {
			q, extra = fmt.Sprintf("{q:%s(n:%d)}", gq, n), nil
		}
		if l.Gated && l.Doc == "sub" {
			q, extra = fmt.Sprintf("subscription{s:%s(n:%d)}", gs, n), nil
		}
		p := map[string]interface{}{"query": q}
		for k, v := range extra {
			p[k] = v
		}
		s += `,"payload":` + mustJSON(p)
	default:
		panic("pay " + l.Pay)
	}
	s += "}"
	return []byte(s), l.Variant%11 == 5
}

// ---- server frames as observed ----

// SFrame is a server frame reduced to what the property talks about.
type SFrame struct {
	Kind  string // ack ka connerror pong data complete other closed
	ID    int
	Class string // data: res ev err
	N, K  int    // res n / ev n k
	Code  int    // closed
	Raw   string // other
}

func (f SFrame) sexp() sexp.Node {
	switch f.Kind {
	case "ack", "ka", "connerror", "pong":
		return sexp.Sym(f.Kind)
	case "data":
		switch f.Class {
		case "res":
			return sexp.T("data", sexp.Int(f.ID), sexp.T("res", sexp.Int(f.N)))
		case "ev":
			return sexp.T("data", sexp.Int(f.ID), sexp.T("ev", sexp.Int(f.N), sexp.Int(f.K)))
		default:
			return sexp.T("data", sexp.Int(f.ID), sexp.Sym("err"))
		}
	case "complete":
		return sexp.T("complete", sexp.Int(f.ID))
	case "closed":
		return sexp.T("closed", sexp.Int(f.Code))
	}
	return sexp.T("other", sexp.Str(f.Raw))
}

// parseServerFrame abstracts one text frame sent by the server.
func parseServerFrame(proto string, p []byte) SFrame {
	var m struct {
		ID      *string         `json:"id"`
		Type    string          `json:"type"`
		Payload json.RawMessage `json:"payload"`
	}
	raw := string(p)
	if len(raw) > 200 {
		raw = raw[:200]
	}
	if err := json.Unmarshal(p, &m); err != nil {
		return SFrame{Kind: "other", Raw: raw}
	}
	id := 0
	if m.ID != nil {
		v, ok := idNumber(*m.ID)
		if !ok {
			return SFrame{Kind: "other", Raw: raw}
		}
		id = v
	}
	dataWord := "data"
	if proto == protoTWS {
		dataWord = "next"
	}
	switch {
	case m.Type == "connection_ack":
		return SFrame{Kind: "ack"}
	case m.Type == "ka" && proto == protoWS:
		return SFrame{Kind: "ka"}
	case m.Type == "connection_error" && proto == protoWS:
		return SFrame{Kind: "connerror"}
	case m.Type == "pong" && proto == protoTWS:
		return SFrame{Kind: "pong"}
	case m.Type == "complete":
		return SFrame{Kind: "complete", ID: id}
	case m.Type == dataWord:
		var resp0 struct {
			Data   map[string]json.RawMessage `json:"data"`
			Errors []json.RawMessage          `json:"errors"`
		}
		if err := json.Unmarshal(m.Payload, &resp0); err != nil {
			return SFrame{Kind: "other", Raw: raw}
		}
		resp := struct {
			Data   map[string]*int
			Errors []json.RawMessage
		}{Data: map[string]*int{}, Errors: resp0.Errors}
		for k, v := range resp0.Data {
			var n int
			var str string
			if json.Unmarshal(v, &n) == nil && string(v) != "null" {
				n := n
				resp.Data[k] = &n
			} else if (k == "big" || k == "sb") && json.Unmarshal(v, &str) == nil {
				if _, err := fmt.Sscanf(str, "%d:", &n); err == nil {
					n := n
					if k == "big" {
						resp.Data["q"] = &n // a big answer is the result of a query
					} else {
						resp.Data["s"] = &n // a big event of a subscription
					}
				}
			} else {
				resp.Data[k] = nil
			}
		}
		for _, k := range []string{"q", "m"} {
			if v := resp.Data[k]; v != nil && len(resp.Errors) == 0 {
				return SFrame{Kind: "data", ID: id, Class: "res", N: *v}
			}
		}
		if v := resp.Data["s"]; v != nil && len(resp.Errors) == 0 {
			return SFrame{Kind: "data", ID: id, Class: "ev", N: *v / 1000, K: *v % 1000}
		}
		if len(resp.Errors) > 0 {
			// errors only, or errors with null data (a field that failed: e.g. "context canceled" for an
			// operation executed after the handler context was cancelled)
			allNull := true
			for _, v := range resp.Data {
				if v != nil {
					allNull = false
				}
			}
			if allNull {
				return SFrame{Kind: "data", ID: id, Class: "err"}
			}
		}
	}
	return SFrame{Kind: "other", Raw: raw}
}
