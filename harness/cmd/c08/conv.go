package main

// One conversation: a real gorilla/websocket client over loopback against API.ServeGraphQLWS of a
// fresh API whose resolvers and subscription sources are instrumented and driven by the harness.
//
// Determinism.  After every client frame the harness sends a WebSocket-level ping; gorilla answers
// it from the server's read loop, i.e. after handleMessage of the preceding frame has returned, so
// when the pong arrives the counters (resolver calls, Stop() calls) are exact.  Reactions that are
// produced asynchronously (a subscription goroutine's data / complete, the acknowledgement of an
// accepted init, the server's close frame) are waited for because a *fact* the harness observed
// says they are due (the event was taken from the channel, Stop() ran on a live source, the init
// callback returned nil / an error); only the wait for a close frame after a frame that may be a
// protocol error relies on the harness knowing the protocol (mayClose).  On a correct server no
// wait ever ends by timeout; on a deviating one the wait times out (bounded) and the recorded
// trace then differs from the model's, which is reported.

import (
	"context"
	"encoding/json"
	"fmt"
	"io"
	"net"
	"net/http"
	"net/http/httptest"
	"regexp"
	"runtime/pprof"
	"strings"
	"sync"
	"sync/atomic"
	"time"

	apifu "github.com/ccbrown/api-fu"
	"github.com/ccbrown/api-fu/graphql"
	"github.com/gorilla/websocket"
	"github.com/sirupsen/logrus"

	"verifharness/internal/sexp"
)

var waitT = 3 * time.Second // bound of every wait; reached only when the server deviates

// the period of the write loops' keep-alive tickers (connection.go of both transports) and how long
// after the end of a period the harness goes on (and how long before the next one it stops)
const keepAlivePeriod = 15 * time.Second
const tickMargin = 1500 * time.Millisecond

// connectionSendBufferSize of both transports
const queueCapacity = 100

// unresponsive peer: the write loop waits 1 s for the answer to its close frame; everything must be gone this long
// after the close frame was seen
var muteBound = 5 * time.Second

// slow reader: longer than a sender would reasonably wait, shorter than the write loop's 5 s write deadline
const slowPause = 1500 * time.Millisecond

type source struct {
	idx     int
	n       int // operation number that created it
	ch      chan int
	stops   int32
	stopped chan struct{}
	ended   bool // the harness closed ch
	emitted int
}

type world struct {
	// gate: handler calls of gated frames signal entered and block until the harness closes gate
	gate     chan struct{}
	entered  chan struct{}
	// handler calls that waited for the cancellation of their context only and saw it
	sawCancel int32
	mu       sync.Mutex
	execs    []sexp.Node
	sources  []*source
	initOK   int
	initRej  int
	logLines int32
}

func (w *world) addExec(n sexp.Node) {
	w.mu.Lock()
	w.execs = append(w.execs, n)
	w.mu.Unlock()
}

func (w *world) takeExecs() []sexp.Node {
	w.mu.Lock()
	defer w.mu.Unlock()
	e := w.execs
	w.execs = nil
	return e
}

func (w *world) stopCounts() []sexp.Node {
	w.mu.Lock()
	defer w.mu.Unlock()
	out := make([]sexp.Node, len(w.sources))
	for i, s := range w.sources {
		out[i] = sexp.Int(int(atomic.LoadInt32(&s.stops)))
	}
	return out
}

func (w *world) source(i int) *source {
	w.mu.Lock()
	defer w.mu.Unlock()
	if i < 0 || i >= len(w.sources) {
		return nil
	}
	return w.sources[i]
}

type countingWriter struct{ n *int32 }

func (c countingWriter) Write(p []byte) (int, error) { atomic.AddInt32(c.n, 1); return len(p), nil }

var bigString = strings.Repeat("x", 100000)

func argN(ctx graphql.FieldContext) int {
	if v, ok := ctx.Arguments["n"].(int); ok {
		return v
	}
	return -1
}

func newAPI(w *world) *apifu.API {
	lg := logrus.New()
	lg.SetOutput(countingWriter{&w.logLines})
	_ = io.Discard
	cfg := &apifu.Config{Logger: lg}
	nArg := map[string]*graphql.InputValueDefinition{"n": {Type: graphql.IntType}}
	cfg.AddQueryField("q", &graphql.FieldDefinition{Type: graphql.IntType, Arguments: nArg,
		Resolve: func(ctx graphql.FieldContext) (interface{}, error) {
			return argN(ctx), nil
		}})
	cfg.AddQueryField("big", &graphql.FieldDefinition{Type: graphql.StringType, Arguments: nArg,
		Resolve: func(ctx graphql.FieldContext) (interface{}, error) {
			return fmt.Sprintf("%d:", argN(ctx)) + bigString, nil
		}})
	cfg.AddMutation("m", &graphql.FieldDefinition{Type: graphql.IntType, Arguments: nArg,
		Resolve: func(ctx graphql.FieldContext) (interface{}, error) {
			return argN(ctx), nil
		}})
	cfg.AddSubscription("s", &graphql.FieldDefinition{Type: graphql.IntType, Arguments: nArg,
		Resolve: func(ctx graphql.FieldContext) (interface{}, error) {
			if ctx.IsSubscribe {
				n := argN(ctx)
				w.mu.Lock()
				src := &source{idx: len(w.sources), n: n, ch: make(chan int), stopped: make(chan struct{})}
				w.sources = append(w.sources, src)
				w.execs = append(w.execs, sexp.T("sub", sexp.Int(n)))
				w.mu.Unlock()
				return &apifu.SubscriptionSourceStream{
					EventChannel: src.ch,
					Stop: func() {
						if atomic.AddInt32(&src.stops, 1) == 1 {
							close(src.stopped)
						}
					},
				}, nil
			}
			return ctx.Object, nil
		}})
	waitGate := func() {
		w.entered <- struct{}{}
		select {
		case <-w.gate:
		case <-time.After(20 * waitT):
		}
	}
	// a handler call that returns only when its context is cancelled (a resolver waiting for a backend
	// with the request's context); the bound is a safety net for the harness, far beyond every wait
	waitCancel := func(ctx context.Context) {
		w.entered <- struct{}{}
		select {
		case <-ctx.Done():
			atomic.AddInt32(&w.sawCancel, 1)
		case <-time.After(20 * waitT):
		}
	}
	cfg.AddQueryField("qc", &graphql.FieldDefinition{Type: graphql.IntType, Arguments: nArg,
		Resolve: func(ctx graphql.FieldContext) (interface{}, error) {
			waitCancel(ctx.Context)
			return argN(ctx), nil
		}})
	cfg.AddSubscription("sc", &graphql.FieldDefinition{Type: graphql.IntType, Arguments: nArg,
		Resolve: func(ctx graphql.FieldContext) (interface{}, error) {
			if ctx.IsSubscribe {
				n := argN(ctx)
				w.mu.Lock()
				src := &source{idx: len(w.sources), n: n, ch: make(chan int), stopped: make(chan struct{})}
				w.sources = append(w.sources, src)
				w.execs = append(w.execs, sexp.T("sub", sexp.Int(n)))
				w.mu.Unlock()
				waitCancel(ctx.Context)
				return &apifu.SubscriptionSourceStream{
					EventChannel: src.ch,
					Stop: func() {
						if atomic.AddInt32(&src.stops, 1) == 1 {
							close(src.stopped)
						}
					},
				}, nil
			}
			return ctx.Object, nil
		}})
	cfg.AddQueryField("qg", &graphql.FieldDefinition{Type: graphql.IntType, Arguments: nArg,
		Resolve: func(ctx graphql.FieldContext) (interface{}, error) {
			waitGate()
			return argN(ctx), nil
		}})
	cfg.AddSubscription("sg", &graphql.FieldDefinition{Type: graphql.IntType, Arguments: nArg,
		Resolve: func(ctx graphql.FieldContext) (interface{}, error) {
			if ctx.IsSubscribe {
				n := argN(ctx)
				w.mu.Lock()
				src := &source{idx: len(w.sources), n: n, ch: make(chan int), stopped: make(chan struct{})}
				w.sources = append(w.sources, src)
				w.execs = append(w.execs, sexp.T("sub", sexp.Int(n)))
				w.mu.Unlock()
				waitGate()
				return &apifu.SubscriptionSourceStream{
					EventChannel: src.ch,
					Stop: func() {
						if atomic.AddInt32(&src.stops, 1) == 1 {
							close(src.stopped)
						}
					},
				}, nil
			}
			return ctx.Object, nil
		}})
	// a subscription whose events are 100 KB each
	cfg.AddSubscription("sb", &graphql.FieldDefinition{Type: graphql.StringType, Arguments: nArg,
		Resolve: func(ctx graphql.FieldContext) (interface{}, error) {
			if ctx.IsSubscribe {
				n := argN(ctx)
				w.mu.Lock()
				src := &source{idx: len(w.sources), n: n, ch: make(chan int), stopped: make(chan struct{})}
				w.sources = append(w.sources, src)
				w.execs = append(w.execs, sexp.T("sub", sexp.Int(n)))
				w.mu.Unlock()
				return &apifu.SubscriptionSourceStream{
					EventChannel: src.ch,
					Stop: func() {
						if atomic.AddInt32(&src.stops, 1) == 1 {
							close(src.stopped)
						}
					},
				}, nil
			}
			v, _ := ctx.Object.(int)
			return fmt.Sprintf("%d:", v) + bigString, nil
		}})
	cfg.AddSubscription("sf", &graphql.FieldDefinition{Type: graphql.IntType, Arguments: nArg,
		Resolve: func(ctx graphql.FieldContext) (interface{}, error) {
			if ctx.IsSubscribe {
				w.addExec(sexp.T("subfail", sexp.Int(argN(ctx))))
				return nil, fmt.Errorf("refused")
			}
			return ctx.Object, nil
		}})
	cfg.HandleGraphQLWSInit = func(ctx context.Context, p json.RawMessage) (context.Context, error) {
		var v struct {
			Reject bool `json:"reject"`
			Gate    bool `json:"gate"`
			GateCtx bool `json:"gatectx"`
		}
		_ = json.Unmarshal(p, &v)
		if v.Gate || v.GateCtx {
			w.mu.Lock()
			w.initOK++
			w.execs = append(w.execs, sexp.T("init", sexp.Bool(true)))
			w.mu.Unlock()
			if v.GateCtx {
				waitCancel(ctx)
			} else {
				waitGate()
			}
			return ctx, nil
		}
		w.mu.Lock()
		defer w.mu.Unlock()
		if v.Reject {
			w.initRej++
			w.execs = append(w.execs, sexp.T("init", sexp.Bool(false)))
			return ctx, fmt.Errorf("rejected")
		}
		w.initOK++
		w.execs = append(w.execs, sexp.T("init", sexp.Bool(true)))
		return ctx, nil
	}
	// Config.Execute: every execution of a query or mutation (not the per-event executions of a
	// subscription) is recorded with the operation number written into its document, whether or not
	// its resolvers run (they do not when the handler context is already cancelled)
	cfg.Execute = func(r *graphql.Request, info *apifu.RequestInfo) *graphql.Response {
		if r.InitialValue == nil {
			if n, ok := opNumber(r); ok {
				w.addExec(sexp.T("exec", sexp.Int(n)))
			}
		}
		return graphql.Execute(r)
	}
	api, err := apifu.NewAPI(cfg)
	if err != nil {
		panic(err)
	}
	return api
}

var opNumberRE = regexp.MustCompile(`\(n:(\d+)\)`)

// opNumber: the operation number the harness wrote into the document (or its variables).
func opNumber(r *graphql.Request) (int, bool) {
	if m := opNumberRE.FindStringSubmatch(r.Query); m != nil {
		var n int
		fmt.Sscan(m[1], &n)
		return n, true
	}
	switch v := r.VariableValues["n"].(type) {
	case float64:
		return int(v), true
	case int:
		return v, true
	case json.Number:
		n, err := v.Int64()
		return int(n), err == nil
	}
	return 0, false
}

func registrySize(api *apifu.API) int {
	if c, ok := interface{}(api).(interface{ VerifWSConnectionCount() int }); ok {
		return c.VerifWSConnectionCount()
	}
	return -1 // hook absent: not observed
}

type event struct {
	kind string // frame pong term
	f    SFrame
	tok  string
	code int // term: close code sent by the server, -1 when the connection ended without a close frame
}

// Script is what a case asks for; Result what happened.
type Script struct {
	Proto   string
	Labels  []Label // without the ending
	End     string  // client-close drop drop-rst app-close
	Barrier bool    // flush with a barrier query before the ending (always for client-close / drop)
	Flood   int     // >0: after the labels, send this many big queries without ever reading, wait for the write deadline, then drop
	// Burst: after the labels, these frames are written back to back without waiting for anything,
	// followed by Closer (a frame after which the server closes); then the harness reads until the
	// server's close.  Only stateless frames (queries, mutations, invalid documents, pings, ignored
	// frames): their resolver calls are attributed to their labels by the echoed operation number.
	Burst  []Label
	Closer *Label
	// Pipe: after the labels, these frames are written back to back without reading anything; the first
	// of them makes the server begin closing (an init the application rejects, terminate, a protocol
	// error), the others are on their way while it closes.  The harness appends an init as a sentinel:
	// the init callback is called whatever the state of the connection, so when it has been called
	// the handler calls of all frames before it have returned.
	Pipe []Label
	// Gate: after the labels, this frame's handler call (init callback / resolver / subscribe resolver)
	// blocks on the harness's gate; while it is blocked the application closes the connection
	// (CloseHijackedConnections), the write loop's wait for the peer's close passes (1 s), then the gate
	// is opened.
	Gate *Label
	// GateCtx: the gated handler call waits for the cancellation of its context only; the harness opens
	// nothing: the application's Close() must return (and the call must have seen the cancellation)
	// within the harness's bound.
	GateCtx bool
	// GateDrop (with GateCtx): instead of the application closing the connection, the client drops the TCP
	// connection while the handler call waits for its cancellation; the server notices when a write fails
	// (the second keep-alive after the drop at the latest) and must then cancel the handler context.
	GateDrop bool
	// Mute: the peer stays connected but unresponsive once the server has begun to end the connection: it does not
	// answer the close frame, sends nothing, does not drop.  The server must tear the connection down by itself
	// (the write loop's 1 s wait for the answer, then the socket is closed, which ends the read loop): registry,
	// Stop() counters and goroutines are read within a bound, BEFORE the client closes anything.
	Mute bool
	// Slow: after the labels, this many queries with 100 KB answers are written back to back while the client reads
	// nothing for slowPause; then it reads everything.  The write loop blocks on the socket, the queue fills, the
	// read loop blocks in sendMessage: back-pressure, nothing may be lost.
	Slow int
	// SlowPing: the first source's subscription has 100 KB events; the client stops reading, the source delivers
	// events until its goroutine blocks on the full outgoing queue (socket buffers and queue are full of results the
	// goroutine queued, the read loop is free), then the client sends a ping, waits, and resumes reading: all
	// events and the pong must arrive.
	SlowPing bool
	// Full: after the labels (which start at least one subscription) this frame makes the server begin
	// closing; the harness does not answer the close frame, so the write loop sits in its 1 s wait and
	// drains nothing; meanwhile the first source delivers events until the goroutine blocks on the full
	// outgoing queue, then the client sends one more query (the read loop blocks on the queue as well);
	// after 1 s the write loop exits: everybody blocked on the queue must be released.
	Full *Label
}

type Result struct {
	Attempts int // how often the conversation was run (timing-dependent cases are repeated when inconclusive)
	Lenient int // labels performed while the connection was served normally (-1: all)
	Labels []Label
	Obs    []sexp.Node // one per label
	Log    []sexp.Node
	Final  sexp.Node
	Stall  []string
}

type conv struct {
	proto    string
	w        *world
	api      *apifu.API
	c        *websocket.Conn
	evs      chan event
	frames   []SFrame
	log      []sexp.Node
	term     bool
	termCode int
	ackSeen  bool
	pingTok  int
	stall    []string
	noRead   bool
}

// pump consumes one event (or times out). Returns false on timeout or when the connection has ended.
func (cv *conv) pump(deadline time.Time) bool {
	if cv.term {
		return false
	}
	d := time.Until(deadline)
	if d <= 0 {
		return false
	}
	t := time.NewTimer(d)
	defer t.Stop()
	select {
	case e := <-cv.evs:
		switch e.kind {
		case "frame":
			cv.frames = append(cv.frames, e.f)
			cv.log = append(cv.log, sexp.T("f", e.f.sexp()))
			if e.f.Kind == "ack" {
				cv.ackSeen = true
			}
		case "pong":
			cv.frames = append(cv.frames, SFrame{Kind: "wspong", Raw: e.tok})
		case "term":
			cv.term = true
			cv.termCode = e.code
		}
		return true
	case <-t.C:
		return false
	}
}

// waitFor waits until a frame matching m has been received at or after position from.
func (cv *conv) waitFor(what string, from int, m func(SFrame) bool) bool {
	deadline := time.Now().Add(waitT)
	for {
		for _, f := range cv.frames[from:] {
			if m(f) {
				return true
			}
		}
		if !cv.pump(deadline) {
			if !cv.term {
				cv.stall = append(cv.stall, what)
			}
			return false
		}
	}
}

// waitUntil waits until cond (a predicate on cv.frames) holds.
func (cv *conv) waitUntil(what string, cond func() bool) bool {
	deadline := time.Now().Add(waitT)
	for !cond() {
		if !cv.pump(deadline) {
			if !cv.term {
				cv.stall = append(cv.stall, what)
			}
			return false
		}
	}
	return true
}

func (cv *conv) countKind(kind string) int {
	n := 0
	for _, f := range cv.frames {
		if f.Kind == kind {
			n++
		}
	}
	return n
}

func (cv *conv) waitTerm(what string) bool {
	deadline := time.Now().Add(waitT)
	for !cv.term {
		if !cv.pump(deadline) && !cv.term {
			cv.stall = append(cv.stall, what)
			return false
		}
	}
	return true
}

// syncReader: WebSocket-level ping; returns when its pong (or the end of the connection) arrives.
func (cv *conv) syncReader() {
	cv.pingTok++
	tok := fmt.Sprint(cv.pingTok)
	from := len(cv.frames)
	if err := cv.c.WriteControl(websocket.PingMessage, []byte(tok), time.Now().Add(waitT)); err != nil {
		// the connection is going down; the end will be observed by the reader
		cv.waitTerm("ping-write-failed")
		return
	}
	cv.waitFor("ws-pong", from, func(f SFrame) bool { return f.Kind == "wspong" && f.Raw == tok })
}

// mayClose: frames after which the harness waits for the server's close frame (see file comment).
func (cv *conv) mayClose(l Label) bool {
	if cv.proto == protoWS {
		return l.Kind == lMsg && l.Type == "terminate"
	}
	if l.Kind == lMalformed {
		return true
	}
	switch l.Type {
	case "init", "complete", "ping", "pong":
		return false
	case "subscribe":
		return cv.ackSeen && (l.Pay == "none" || l.Pay == "junk")
	}
	return true
}

func runConversation(tag string, sc Script) (res Result) {
	w := &world{gate: make(chan struct{}), entered: make(chan struct{}, 16)}
	api := newAPI(w)
	var ts *httptest.Server
	pprof.Do(context.Background(), pprof.Labels("c08", tag), func(context.Context) {
		ts = httptest.NewServer(http.HandlerFunc(api.ServeGraphQLWS))
	})
	cv := &conv{proto: sc.Proto, w: w, api: api, evs: make(chan event, 1<<14)}
	d := &websocket.Dialer{Subprotocols: []string{sc.Proto}, HandshakeTimeout: 5 * time.Second}
	c, _, err := d.Dial("ws"+strings.TrimPrefix(ts.URL, "http"), nil)
	if err != nil {
		panic(fmt.Sprintf("dial: %v", err))
	}
	cv.c = c
	// keep-alive periods: the write loop's ticker runs from the moment the connection is served
	// (graphql-transport-ws; graphql-ws before the repair of the keep-alive defect) or from the first
	// ack (graphql-ws).  A tick label waits until one more period (plus a margin) has passed since
	// that moment; the model says which keep-alive, if any, the period brings.
	tickAnchor := time.Now()
	ticksWaited := 0
	cv.noRead = sc.Flood > 0
	var clientClosing int32
	var readerPaused int32
	readerDone := make(chan struct{})
	c.SetPongHandler(func(s string) error { cv.evs <- event{kind: "pong", tok: s}; return nil })
	// The client does not answer the server's close frame by itself: the harness first records
	// the counters (the server is then waiting for the answer, its shutdown has not run), then
	// answers.  This separates what a frame did from what the shutdown did.
	c.SetCloseHandler(func(code int, text string) error { return nil })
	replyClose := func() {
		c.WriteControl(websocket.CloseMessage, websocket.FormatCloseMessage(websocket.CloseNormalClosure, ""), time.Now().Add(waitT))
	}
	startReader := func() {
		go func() {
			defer close(readerDone)
			for {
				for atomic.LoadInt32(&readerPaused) != 0 {
					time.Sleep(2 * time.Millisecond)
				}
				_, p, err := c.ReadMessage()
				if err != nil {
					code := -1
					if atomic.LoadInt32(&clientClosing) != 0 {
						code = -2 // the client ended the conversation; what the server answers is not compared
					} else if ce, ok := err.(*websocket.CloseError); ok {
						code = ce.Code
					}
					cv.evs <- event{kind: "term", code: code}
					return
				}
				cv.evs <- event{kind: "frame", f: parseServerFrame(sc.Proto, p)}
			}
		}()
	}

	performed := []Label{}
	obs := []sexp.Node{}
	snapshot := func() sexp.Node {
		return sexp.T("obs", sexp.T("execs", w.takeExecs()...), sexp.T("stops", w.stopCounts()...))
	}
	stopsNow := func() []int32 {
		w.mu.Lock()
		defer w.mu.Unlock()
		out := make([]int32, len(w.sources))
		for i, s := range w.sources {
			out[i] = atomic.LoadInt32(&s.stops)
		}
		return out
	}

	doFrame := func(l Label) {
		n := len(performed)
		from := len(cv.frames)
		before := stopsNow()
		w.mu.Lock()
		ok0, rej0 := w.initOK, w.initRej
		w.mu.Unlock()
		performed = append(performed, l)
		cv.log = append(cv.log, sexp.T("sent", sexp.Int(n)))
		data, binary := l.wire(n)
		mt := websocket.TextMessage
		if binary {
			mt = websocket.BinaryMessage
		}
		if err := c.WriteMessage(mt, data); err != nil {
			cv.waitTerm("write-failed")
			obs = append(obs, snapshot())
			return
		}
		if cv.noRead {
			obs = append(obs, sexp.T("obs", sexp.T("execs"), sexp.T("stops")))
			return
		}
		cv.syncReader()
		o := snapshot()
		if !cv.term {
			w.mu.Lock()
			ok1, rej1 := w.initOK, w.initRej
			w.mu.Unlock()
			if ok1 > ok0 {
				first := !cv.ackSeen
				cv.waitFor("ack", from, func(f SFrame) bool { return f.Kind == "ack" })
				if first && cv.ackSeen && sc.Proto == protoWS {
					tickAnchor, ticksWaited = time.Now(), 0
				}
			}
			after := stopsNow()
			for i := range before {
				src := w.source(i)
				if before[i] == 0 && after[i] > 0 && !src.ended {
					id := idOfSource(performed, src)
					cv.waitFor("complete-after-stop", from, func(f SFrame) bool { return f.Kind == "complete" && f.ID == id })
				}
			}
			if rej1 > rej0 || cv.mayClose(l) {
				cv.waitTerm("close-after-protocol-error")
			}
		}
		obs = append(obs, o)
	}

	doEmit := func(l Label) {
		n := len(performed)
		from := len(cv.frames)
		src := w.source(l.Src)
		l.Op = n
		if src != nil {
			l.Op = src.n
		}
		performed = append(performed, l)
		cv.log = append(cv.log, sexp.T("sent", sexp.Int(n)))
		if src != nil && !src.ended && atomic.LoadInt32(&src.stops) == 0 && src.emitted < 998 {
			src.emitted++
			val := src.n*1000 + src.emitted
			t := time.NewTimer(waitT)
			select {
			case src.ch <- val:
				t.Stop()
				if !cv.noRead {
					k := src.emitted
					cv.waitFor("data-after-event", from, func(f SFrame) bool {
						return f.Kind == "data" && f.Class == "ev" && f.N == src.n && f.K == k
					})
				}
			case <-t.C:
				cv.stall = append(cv.stall, "event-not-taken")
			}
		}
		obs = append(obs, snapshot())
	}

	doSrcEnd := func(l Label) {
		n := len(performed)
		from := len(cv.frames)
		src := w.source(l.Src)
		l.Op = n
		if src != nil {
			l.Op = src.n
		}
		performed = append(performed, l)
		cv.log = append(cv.log, sexp.T("sent", sexp.Int(n)))
		if src != nil && !src.ended {
			src.ended = true
			live := atomic.LoadInt32(&src.stops) == 0
			close(src.ch)
			w.addExec(sexp.T("srcended", sexp.Int(src.n)))
			if live && !cv.noRead {
				id := idOfSource(performed, src)
				cv.waitFor("complete-after-source-end", from, func(f SFrame) bool { return f.Kind == "complete" && f.ID == id })
			}
		}
		obs = append(obs, snapshot())
	}

	doTick := func(l Label) {
		n := len(performed)
		performed = append(performed, l)
		cv.log = append(cv.log, sexp.T("sent", sexp.Int(n)))
		ticksWaited++
		deadline := tickAnchor.Add(time.Duration(ticksWaited)*keepAlivePeriod + tickMargin)
		for !cv.term && time.Now().Before(deadline) {
			cv.pump(deadline)
		}
		obs = append(obs, snapshot())
	}

	startWord, stopWord := "start", "stop"
	if sc.Proto == protoTWS {
		startWord, stopWord = "subscribe", "complete"
	}
	// flush: a barrier query through the outgoing queue.  Frames queued by the read loop are
	// written in order, so once the barrier's complete is here every frame queued earlier is
	// here too.  It is done before a label whose reaction is awaited by operation id (a complete
	// after stop / after the end of a source), so that a complete still in flight for an earlier
	// query with the same id cannot be mistaken for it, and before the ending.  The barrier is an
	// ordinary label of the conversation (the model sees it too).
	dirty := false
	flush := func() {
		if !dirty || !cv.ackSeen || cv.term || cv.noRead {
			return
		}
		from := len(cv.frames)
		doFrame(Label{Kind: lMsg, Type: startWord, ID: barrierID, Pay: "doc", Doc: "query"})
		if !cv.term {
			cv.waitFor("barrier", from, func(f SFrame) bool { return f.Kind == "complete" && f.ID == barrierID })
		}
		dirty = false
	}
	if !cv.noRead {
		startReader()
		// Dial returns when the client has the handshake response; the server registers the
		// connection and starts its loops after writing it.  One ping / pong makes sure the read
		// loop is running (so the connection is registered) before anything else happens.
		cv.syncReader()
	}
	for _, l := range sc.Labels {
		if cv.term {
			break
		}
		switch l.Kind {
		case lMsg, lMalformed:
			if l.Kind == lMsg && l.Type == stopWord {
				flush()
				if cv.term {
					break
				}
			}
			doFrame(l)
			dirty = true
		case lEmit:
			doEmit(l)
		case lTick:
			doTick(l)
		case lSrcEnd:
			flush()
			if cv.term {
				break
			}
			doSrcEnd(l)
		}
	}
	if sc.Closer != nil && !cv.term {
		flush()
		w.takeExecs()
		first := len(performed)
		all := append(append([]Label(nil), sc.Burst...), *sc.Closer)
		for _, l := range all {
			n := len(performed)
			performed = append(performed, l)
			cv.log = append(cv.log, sexp.T("sent", sexp.Int(n)))
			data, binary := l.wire(n)
			mt := websocket.TextMessage
			if binary {
				mt = websocket.BinaryMessage
			}
			c.SetWriteDeadline(time.Now().Add(waitT))
			if err := c.WriteMessage(mt, data); err != nil {
				break
			}
		}
		cv.waitTerm("close-after-burst")
		// resolver calls of the burst, by the operation number they echo
		byN := map[int][]sexp.Node{}
		for _, e := range w.takeExecs() {
			if len(e.List) == 2 && e.List[1].Kind == 'z' {
				n := int(e.List[1].Int.Int64())
				byN[n] = append(byN[n], e)
			} else {
				byN[-1] = append(byN[-1], e)
			}
		}
		for n := first; n < len(performed); n++ {
			es := byN[n]
			if n == first {
				es = append(byN[-1], es...)
			}
			obs = append(obs, sexp.T("obs", sexp.T("execs", es...), sexp.T("stops", w.stopCounts()...)))
		}
	}
	res.Lenient = -1
	if len(sc.Pipe) > 0 && !cv.term {
		flush()
		w.takeExecs()
		first := len(performed)
		res.Lenient = first + 1 // what the frame that begins the closing itself queues is drained before the close frame
		all := append(append([]Label(nil), sc.Pipe...), Label{Kind: lMsg, Type: "init", Pay: "none"})
		w.mu.Lock()
		inits := w.initOK + w.initRej
		w.mu.Unlock()
		for _, l := range all {
			n := len(performed)
			performed = append(performed, l)
			cv.log = append(cv.log, sexp.T("sent", sexp.Int(n)))
			if l.Kind == lMsg && l.Type == "init" {
				inits++
			}
			data, binary := l.wire(n)
			mt := websocket.TextMessage
			if binary {
				mt = websocket.BinaryMessage
			}
			c.SetWriteDeadline(time.Now().Add(waitT))
			if err := c.WriteMessage(mt, data); err != nil {
				break
			}
		}
		// the sentinel's init callback has run: every handler call of the pipe has returned
		deadline := time.Now().Add(waitT)
		for {
			w.mu.Lock()
			got := w.initOK + w.initRej
			w.mu.Unlock()
			if got >= inits {
				break
			}
			if time.Now().After(deadline) {
				cv.stall = append(cv.stall, "pipe-sentinel")
				break
			}
			time.Sleep(200 * time.Microsecond)
		}
		final := sexp.T("stops", w.stopCounts()...)
		// facts: resolver calls by the operation number they echo, init callbacks in the order of the init labels
		byN := map[int][]sexp.Node{}
		var initFacts []sexp.Node
		for _, e := range w.takeExecs() {
			if len(e.List) == 2 && e.List[1].Kind == 'z' {
				n := int(e.List[1].Int.Int64())
				byN[n] = append(byN[n], e)
			} else {
				initFacts = append(initFacts, e)
			}
		}
		for n := first; n < len(performed); n++ {
			es := byN[n]
			if l := performed[n]; l.Kind == lMsg && l.Type == "init" && len(initFacts) > 0 {
				es = append([]sexp.Node{initFacts[0]}, es...)
				initFacts = initFacts[1:]
			}
			st := sexp.T("nostops")
			if n == len(performed)-1 {
				st = final
			}
			obs = append(obs, sexp.T("obs", sexp.T("execs", es...), st))
		}
		cv.waitTerm("close-after-pipe")
	}
	gateClosed := false
	gateDropped := false
	var gateDone chan struct{}
	if sc.Gate != nil && !cv.term {
		flush()
		w.takeExecs()
		n := len(performed)
		res.Lenient = n
		l := *sc.Gate
		l.Gated = true
		l.GateCtx = sc.GateCtx
		performed = append(performed, l)
		cv.log = append(cv.log, sexp.T("sent", sexp.Int(n)))
		data, _ := l.wire(n)
		c.SetWriteDeadline(time.Now().Add(waitT))
		if err := c.WriteMessage(websocket.TextMessage, data); err == nil {
			t := time.NewTimer(waitT)
			select {
			case <-w.entered:
			case <-t.C:
				cv.stall = append(cv.stall, "gate-not-entered")
			}
			t.Stop()
		}
		obs = append(obs, snapshot())
		if sc.GateDrop {
			atomic.StoreInt32(&clientClosing, 1)
			c.UnderlyingConn().Close()
			deadline := time.Now().Add(2*keepAlivePeriod + 2*tickMargin)
			for atomic.LoadInt32(&w.sawCancel) == 0 && time.Now().Before(deadline) {
				time.Sleep(20 * time.Millisecond)
			}
			if atomic.LoadInt32(&w.sawCancel) == 0 {
				cv.stall = append(cv.stall, "handler-context-not-cancelled")
			}
			gateDropped = true
		} else {
			// the application closes the connection while the handler call is blocked
			gateDone = make(chan struct{})
			go func() { api.CloseHijackedConnections(); close(gateDone) }()
			if cv.waitTerm("close-from-application-during-handler") {
				cv.log = append(cv.log, sexp.T("f", SFrame{Kind: "closed", Code: cv.termCode}.sexp()))
			}
			if !sc.GateCtx {
				// the read loop is not reading, so the client's answer to the close frame would not be seen:
				// the write loop gives up waiting after 1 s, closes the socket and exits
				time.Sleep(1300 * time.Millisecond)
				close(w.gate)
			}
			gateClosed = true
		}
	}
	if sc.Full != nil && !cv.term && len(w.sources) > 0 {
		flush()
		w.takeExecs()
		first := len(performed)
		res.Lenient = first + 1
		l := *sc.Full
		performed = append(performed, l)
		cv.log = append(cv.log, sexp.T("sent", sexp.Int(first)))
		data, _ := l.wire(first)
		c.SetWriteDeadline(time.Now().Add(waitT))
		c.WriteMessage(websocket.TextMessage, data)
		cv.waitTerm("close-before-filling-the-queue") // the close frame is here: the write loop has drained and is waiting
		obs = append(obs, snapshot())
		src := w.source(0)
		pushed := 0
		for pushed < 3*queueCapacity && !src.ended && atomic.LoadInt32(&src.stops) == 0 {
			src.emitted++
			t := time.NewTimer(100 * time.Millisecond)
			ok := false
			select {
			case src.ch <- src.n*1000 + src.emitted:
				ok = true
			case <-t.C:
			}
			t.Stop()
			if !ok {
				src.emitted--
				break // the goroutine is blocked in sendMessage on the full queue
			}
			n := len(performed)
			performed = append(performed, Label{Kind: lEmit, Src: 0, Op: src.n})
			cv.log = append(cv.log, sexp.T("sent", sexp.Int(n)))
			obs = append(obs, sexp.T("obs", sexp.T("execs"), sexp.T("nostops")))
			pushed++
		}
		// one more operation: its result finds the queue full as well
		n := len(performed)
		q := Label{Kind: lMsg, Type: startWord, ID: 2, Pay: "doc", Doc: "query"}
		performed = append(performed, q)
		cv.log = append(cv.log, sexp.T("sent", sexp.Int(n)))
		qd, _ := q.wire(n)
		c.SetWriteDeadline(time.Now().Add(waitT))
		c.WriteMessage(websocket.TextMessage, qd)
		deadline := time.Now().Add(800 * time.Millisecond)
		for time.Now().Before(deadline) {
			w.mu.Lock()
			got := len(w.execs) > 0
			w.mu.Unlock()
			if got {
				break
			}
			time.Sleep(time.Millisecond)
		}
		obs = append(obs, sexp.T("obs", sexp.T("execs", w.takeExecs()...), sexp.T("stops", w.stopCounts()...)))
		// the write loop's 1 s wait passes; it closes the socket and exits
		time.Sleep(1300 * time.Millisecond)
	}
	if sc.SlowPing && !cv.term && cv.ackSeen && len(w.sources) > 0 {
		flush()
		w.takeExecs()
		atomic.StoreInt32(&readerPaused, 1)
		time.Sleep(20 * time.Millisecond)
		src := w.source(0)
		for src.emitted < 900 && !src.ended && atomic.LoadInt32(&src.stops) == 0 {
			src.emitted++
			t := time.NewTimer(300 * time.Millisecond)
			ok := false
			select {
			case src.ch <- src.n*1000 + src.emitted:
				ok = true
			case <-t.C:
			}
			t.Stop()
			if !ok {
				src.emitted--
				break // the goroutine is blocked in sendMessage: socket buffers and queue are full
			}
			n := len(performed)
			performed = append(performed, Label{Kind: lEmit, Src: 0, Op: src.n})
			cv.log = append(cv.log, sexp.T("sent", sexp.Int(n)))
			obs = append(obs, sexp.T("obs", sexp.T("execs"), sexp.T("nostops")))
		}
		lastK := src.emitted
		n := len(performed)
		pl := Label{Kind: lMsg, Type: "ping", Pay: "none"}
		performed = append(performed, pl)
		cv.log = append(cv.log, sexp.T("sent", sexp.Int(n)))
		pd, _ := pl.wire(n)
		c.SetWriteDeadline(time.Now().Add(waitT))
		c.WriteMessage(websocket.TextMessage, pd)
		obs = append(obs, sexp.T("obs", sexp.T("execs"), sexp.T("nostops")))
		time.Sleep(500 * time.Millisecond) // the read loop has the ping in hand while the queue is full
		from := len(cv.frames)
		atomic.StoreInt32(&readerPaused, 0)
		longWait := func(what string, m func(SFrame) bool) {
			deadline := time.Now().Add(10 * waitT)
			for !cv.term {
				for _, f := range cv.frames[from:] {
					if m(f) {
						return
					}
				}
				if !cv.pump(deadline) {
					if !cv.term {
						cv.stall = append(cv.stall, what)
					}
					return
				}
			}
		}
		longWait("slow-events", func(f SFrame) bool { return f.Kind == "data" && f.Class == "ev" && f.N == src.n && f.K == lastK })
		dirty = true
	}
	if sc.Slow > 0 && !cv.term && cv.ackSeen {
		flush()
		w.takeExecs()
		firstSlow := len(performed)
		atomic.StoreInt32(&readerPaused, 1)
		time.Sleep(20 * time.Millisecond) // the reader is parked (or inside one last ReadMessage)
		for i := 0; i < sc.Slow; i++ {
			n := len(performed)
			l := Label{Kind: lMsg, Type: startWord, ID: 2000 + i, Pay: "doc", Doc: "query", Big: true}
			performed = append(performed, l)
			cv.log = append(cv.log, sexp.T("sent", sexp.Int(n)))
			data, _ := l.wire(n)
			c.SetWriteDeadline(time.Now().Add(4 * waitT))
			if err := c.WriteMessage(websocket.TextMessage, data); err != nil {
				cv.stall = append(cv.stall, "slow-write-failed")
				break
			}
		}
		time.Sleep(slowPause)
		atomic.StoreInt32(&readerPaused, 0)
		// all of them have been executed (the read loop got through its back-pressure)
		nSlow := len(performed) - firstSlow
		deadline := time.Now().Add(10 * waitT)
		for {
			w.mu.Lock()
			got := len(w.execs)
			w.mu.Unlock()
			if got >= nSlow || time.Now().After(deadline) {
				if got < nSlow {
					cv.stall = append(cv.stall, "slow-not-executed")
				}
				break
			}
			cv.pump(time.Now().Add(5 * time.Millisecond))
		}
		byN := map[int][]sexp.Node{}
		for _, e := range w.takeExecs() {
			if len(e.List) == 2 && e.List[1].Kind == 'z' {
				n := int(e.List[1].Int.Int64())
				byN[n] = append(byN[n], e)
			}
		}
		for n := firstSlow; n < len(performed); n++ {
			obs = append(obs, sexp.T("obs", sexp.T("execs", byN[n]...), sexp.T("nostops")))
		}
		// everything the read loop queued for these operations arrives before the barrier's complete
		dirty = true
		flushLong := func() {
			from := len(cv.frames)
			doFrame(Label{Kind: lMsg, Type: startWord, ID: barrierID, Pay: "doc", Doc: "query"})
			if !cv.term {
				deadline := time.Now().Add(10 * waitT)
				for !cv.term {
					found := false
					for _, f := range cv.frames[from:] {
						if f.Kind == "complete" && f.ID == barrierID {
							found = true
						}
					}
					if found || !cv.pump(deadline) {
						if !found && !cv.term {
							cv.stall = append(cv.stall, "slow-barrier")
						}
						break
					}
				}
			}
			dirty = false
		}
		flushLong()
	}
	if sc.Flood > 0 && !cv.term {
		// a client that never reads: big responses fill the socket buffers and the outgoing queue
		for i := 0; i < sc.Flood; i++ {
			n := len(performed)
			l := Label{Kind: lMsg, Type: startWord, ID: 1, Pay: "doc", Doc: "query"}
			performed = append(performed, l)
			obs = append(obs, sexp.T("obs", sexp.T("execs"), sexp.T("stops")))
			msg := fmt.Sprintf(`{"type":"%s","id":"a","payload":{"query":"{big(n:%d)}"}}`, startWord, n)
			c.SetWriteDeadline(time.Now().Add(2 * time.Second))
			if err := c.WriteMessage(websocket.TextMessage, []byte(msg)); err != nil {
				performed = performed[:n]
				obs = obs[:n]
				break
			}
		}
		time.Sleep(6500 * time.Millisecond) // the server's 5 s write deadline passes
		w.takeExecs()
	}

	end := sc.End
	if gateDropped {
		end = "drop-during-handler"
	} else if gateClosed {
		end = "app-close-during-handler"
	} else if cv.term {
		end = "peer"
		cv.log = append(cv.log, sexp.T("f", SFrame{Kind: "closed", Code: cv.termCode}.sexp()))
	} else {
		if sc.Barrier && !cv.noRead {
			// flush: everything the read loop has queued so far is received before the ending
			if cv.ackSeen {
				flush()
			} else if sc.Proto == protoTWS && dirty {
				// not initialised: the only frames that can be queued answer pings
				doFrame(Label{Kind: lMsg, Type: "ping", Pay: "none"})
				if !cv.term {
					pings := 0
					for _, l := range performed {
						if l.Kind == lMsg && l.Type == "ping" {
							pings++
						}
					}
					cv.waitUntil("pong-barrier", func() bool { return cv.countKind("pong") >= pings })
				}
			}
		}
		if cv.term {
			end = "peer"
			cv.log = append(cv.log, sexp.T("f", SFrame{Kind: "closed", Code: cv.termCode}.sexp()))
		}
	}
	cv.log = append(cv.log, sexp.T("sent", sexp.Int(len(performed))))
	// unresponsive peer: what is left of the connection muteBound after the server's close frame, while the client
	// still holds the TCP connection open and has answered nothing
	muted := false
	var muteLeft, muteReg int
	var muteWhere []string
	var muteObs sexp.Node
	muteAccount := func() {
		// meanwhile the sources stay busy: every live source delivers an event every 150 ms (the goroutines keep
		// handing frames to sendMessage while the write loop waits for the answer to its close frame)
		stopBusy := make(chan struct{})
		busyDone := make(chan struct{})
		go func() {
			defer close(busyDone)
			for {
				w.mu.Lock()
				srcs := append([]*source(nil), w.sources...)
				w.mu.Unlock()
				for _, src := range srcs {
					if src.ended {
						continue
					}
					select {
					case src.ch <- src.n*1000 + 999:
					case <-src.stopped:
					case <-stopBusy:
						return
					case <-time.After(20 * time.Millisecond):
					}
				}
				select {
				case <-stopBusy:
					return
				case <-time.After(150 * time.Millisecond):
				}
			}
		}()
		defer func() { close(stopBusy); <-busyDone }()
		deadline := time.Now().Add(muteBound)
		for {
			muteLeft, muteWhere = servingInfo(tag, time.Now())
			muteReg = registrySize(api)
			if (muteLeft == 0 && muteReg <= 0) || time.Now().After(deadline) {
				break
			}
			time.Sleep(5 * time.Millisecond)
		}
		muteObs = snapshot()
		muted = true
	}
	switch end {
	case "drop-during-handler":
		end = "drop"
	case "app-close-during-handler":
		replyClose()
		t := time.NewTimer(2 * waitT)
		select {
		case <-gateDone:
		case <-t.C:
			cv.stall = append(cv.stall, "close-not-completed")
		}
		t.Stop()
		if sc.GateCtx && atomic.LoadInt32(&w.sawCancel) == 0 {
			cv.stall = append(cv.stall, "handler-context-not-cancelled")
		}
		end = "app-close"
	case "peer":
		if sc.Mute {
			muteAccount()
		} else {
			replyClose()
		}
	case "client-close":
		atomic.StoreInt32(&clientClosing, 1)
		c.WriteControl(websocket.CloseMessage, websocket.FormatCloseMessage(websocket.CloseNormalClosure, "bye"), time.Now().Add(waitT))
		if !cv.noRead {
			cv.waitTerm("close-reply")
		}
	case "drop", "drop-rst":
		if sc.Mute && sc.Flood > 0 {
			// the write loop has failed a write (5 s write deadline) and exited while the peer still holds the
			// connection: everything must be gone before the client does anything
			muteAccount()
		}
		atomic.StoreInt32(&clientClosing, 1)
		if tc, ok := c.UnderlyingConn().(*net.TCPConn); ok && end == "drop-rst" {
			tc.SetLinger(0)
		}
		c.UnderlyingConn().Close()
		end = "drop"
	case "app-close":
		done := make(chan struct{})
		go func() { api.CloseHijackedConnections(); close(done) }()
		if !cv.noRead {
			if cv.waitTerm("close-from-application") {
				cv.log = append(cv.log, sexp.T("f", SFrame{Kind: "closed", Code: cv.termCode}.sexp()))
			}
		}
		if sc.Mute {
			muteAccount()
			select {
			case <-done:
			default:
				cv.stall = append(cv.stall, "close-not-completed")
			}
			atomic.StoreInt32(&clientClosing, 1)
			c.Close() // only now does the peer go away
		} else {
			replyClose()
		}
		t := time.NewTimer(2 * waitT)
		select {
		case <-done:
		case <-t.C:
			cv.stall = append(cv.stall, "CloseHijackedConnections-blocked")
		}
		t.Stop()
	default:
		panic("ending " + end)
	}
	performed = append(performed, Label{Kind: lEnd, End: end})
	c.Close()
	if !cv.noRead {
		select {
		case <-readerDone:
		case <-time.After(waitT):
			cv.stall = append(cv.stall, "client-reader")
		}
	}
	ts.Close()

	// post-close accounting: poll until clean or the deadline
	deadline := time.Now().Add(waitT)
	var left int
	var where []string
	reg := 0
	for {
		left, where = leakInfo(tag, time.Now())
		reg = registrySize(api)
		if (left == 0 && reg <= 0) || time.Now().After(deadline) {
			break
		}
		time.Sleep(2 * time.Millisecond)
	}
	if muted {
		left, where, reg = muteLeft, muteWhere, muteReg
		obs = append(obs, muteObs)
	} else {
		obs = append(obs, snapshot())
	}
	wn := make([]sexp.Node, len(where))
	for i, s := range where {
		wn[i] = sexp.Str(s)
	}
	res.Labels = performed
	res.Obs = obs
	res.Log = cv.log
	res.Stall = cv.stall
	res.Final = sexp.T("final", sexp.T("registry", sexp.Int(reg)), sexp.T("goroutines", sexp.Int(left)), sexp.T("where", wn...))
	return res
}

// idOfSource: the operation id under which the source's subscription was started.
func idOfSource(performed []Label, src *source) int {
	if src.n >= 0 && src.n < len(performed) {
		return performed[src.n].ID
	}
	return -1
}
