// c16: time-based connections.  An apifu.API with one TimeBasedConnection field whose EdgeGetter is
// backed by a generated data set and honours (minTime, maxTime, limit) exactly; every request goes
// through API.ServeGraphQL.  Observed per request: the returned edges (node and cursor), the page
// info, the (min, max, limit) triples the getter received and what it answered to each.
//
// The real code runs in a worker subprocess (this binary re-executed with C16_WORKER=1): a panic
// inside a goroutine started by apifu.Go cannot be recovered and kills the process (DESIGN §6 row
// 32); the parent then records the observation (crash) for that request and starts a new worker.
package main

import (
	"bufio"
	"bytes"
	"context"
	"encoding/base64"
	"encoding/hex"
	"encoding/json"
	"fmt"
	"io"
	"math"
	"math/big"
	"net/http/httptest"
	"os"
	"os/exec"
	"reflect"
	"sort"
	"strconv"
	"strings"
	"time"

	apifu "github.com/ccbrown/api-fu"
	"github.com/ccbrown/api-fu/graphql"

	"verifharness/internal/hx"
	"verifharness/internal/rng"
	"verifharness/internal/sexp"
)

// ---------------------------------------------------------------------------------------------
// shared between parent and worker
// ---------------------------------------------------------------------------------------------

type edge struct {
	Nano int64
	Id   string
}

func edgeLess(a, b edge) bool {
	return a.Nano < b.Nano || (a.Nano == b.Nano && strings.Compare(a.Id, b.Id) < 0)
}

type presT struct {
	Promise bool // hand the result over through apifu.Go
	Nil     bool // an empty result is the untyped nil
	Err     int  // 0: no error; 1: the call fails with the error "getter-error-<call index>"; 2: a typed nil error value; 3: no error, but a value that is neither nil nor a slice
	Partial bool // a failing call returns the first half of its edges beside the error (otherwise nil)
	Delay   int  // a promise resolves after Delay x 300 microseconds (orders the resolutions)
}

const (
	errNone     = 0
	errReal     = 1
	errTypedNil = 2
	errBadValue = 3
)

// an error type whose nil pointer is a non-nil error interface value
type typedErr struct{}

func (*typedErr) Error() string { return "typed nil error dereferenced" }

const totalCountErrorMessage = "total-count-error"

const (
	getterExact    = 0 // first/last |limit| edges of the range in (time, id) order
	getterReversed = 1 // the same edges in descending order
	getterGenerous = 2 // every edge of the range (limit ignored), descending
)

type workReq struct {
	Edges    []edge
	Getter   int
	Pres     []presT // per getter call; calls beyond the list are synchronous slices
	TypedNil bool    // empty results that are not the untyped nil: typed nil slice instead of empty slice
	Store    int     // 1: the getter answers with windows store[lo:hi] of its own sorted []any storage (spare capacity into live data), built from Edges; 2: the same, on the storage the previous request left behind
	Query    string
	TCErr    bool // ResolveTotalCount fails
	TCAsync  bool // ResolveTotalCount answers through apifu.Go
	Zone     int  // EdgeCursor builds the cursor with NewTimeBasedCursor from a time.Time in this zone (seconds east)
	First    *int // the first / last arguments of the request, for the field's cost functions
	Last     *int
}

type workResp struct {
	Status       int
	Body         string
	Triples      [][3]string // min, max (nanoseconds since the epoch, decimal), limit
	Returns      [][]edge    // what the getter answered to each call, in the order it returned the edges
	Raised       []int       // per call: errNone / errReal / errTypedNil
	TCCalls      int         // calls of ResolveTotalCount
	Cost         [3]int      // the connection field's Cost: Resolver, Multiplier; the Multiplier of its edges field
	StoreChanged bool        // store mode: the application's storage differs from what the application put there
}

// zbig writes an integer of any size.  (internal/sexp prints values below 2^61 in decimal, but the
// model runner's reader refuses decimals of more than 18 digits; large values are therefore
// written in the #x form here, which every reader of the format accepts.)
func zbig(i *big.Int) sexp.Node {
	if new(big.Int).Abs(i).Cmp(big.NewInt(100000000000000000)) < 0 {
		return sexp.Big(i)
	}
	s := "#x" + new(big.Int).Abs(i).Text(16)
	if i.Sign() < 0 {
		s = "-" + s
	}
	return sexp.Sym(s)
}

func z64(i int64) sexp.Node { return zbig(big.NewInt(i)) }

func nanosOf(t time.Time) *big.Int {
	n := new(big.Int).Mul(big.NewInt(t.Unix()), big.NewInt(1000000000))
	return n.Add(n, big.NewInt(int64(t.Nanosecond())))
}

// ---------------------------------------------------------------------------------------------
// worker: the real code
// ---------------------------------------------------------------------------------------------

type workerState struct {
	req      *workReq
	calls    int
	triples  [][3]string
	returns  [][]edge
	raised   []int
	tcCalls  int
	def      *graphql.FieldDefinition
	store    []any  // store mode: the application's sorted storage
	pristine []edge // ... and what the application put there
}

func newAPI(st *workerState) *apifu.API {
	cfg := &apifu.Config{}
	st.def = apifu.TimeBasedConnection(&apifu.TimeBasedConnectionConfig{
		NamePrefix: "Test",
		EdgeGetter: func(ctx graphql.FieldContext, minTime time.Time, maxTime time.Time, limit int) (interface{}, error) {
			i := st.calls
			st.calls++
			st.triples = append(st.triples, [3]string{nanosOf(minTime).String(), nanosOf(maxTime).String(), fmt.Sprint(limit)})
			var ret []edge
			var window []any // store mode: the answer is this sub-slice of the application's storage
			if st.req.Store != 0 {
				lo, hi := len(st.store), 0
				for k, x := range st.store {
					t := time.Unix(0, x.(edge).Nano)
					if !t.Before(minTime) && !t.After(maxTime) {
						if k < lo {
							lo = k
						}
						hi = k + 1
					}
				}
				if lo > hi {
					lo, hi = 0, 0
				}
				if limit > 0 && hi-lo > limit {
					hi = lo + limit
				} else if limit < 0 && hi-lo > -limit {
					lo = hi + limit
				}
				window = st.store[lo:hi]
				for _, x := range window {
					ret = append(ret, x.(edge))
				}
			} else {
				for _, e := range st.req.Edges {
					t := time.Unix(0, e.Nano)
					if !t.Before(minTime) && !t.After(maxTime) {
						ret = append(ret, e)
					}
				}
				sort.Slice(ret, func(a, b int) bool { return edgeLess(ret[a], ret[b]) })
			}
			if st.req.Getter != getterGenerous {
				if limit > 0 && len(ret) > limit {
					ret = ret[:limit]
				} else if limit < 0 && len(ret) > -limit {
					ret = ret[len(ret)+limit:]
				}
			}
			if st.req.Getter != getterExact {
				for a, b := 0, len(ret)-1; a < b; a, b = a+1, b-1 {
					ret[a], ret[b] = ret[b], ret[a]
				}
			}
			p := presT{}
			if i < len(st.req.Pres) {
				p = st.req.Pres[i]
			}
			var gerr error
			switch p.Err {
			case errReal:
				gerr = fmt.Errorf("getter-error-%d", i)
				if p.Partial {
					ret = ret[:len(ret)/2]
				} else {
					ret = nil
				}
			case errTypedNil:
				gerr = (*typedErr)(nil)
			case errBadValue:
				ret = nil
			}
			st.returns = append(st.returns, append([]edge{}, ret...))
			st.raised = append(st.raised, p.Err)
			var res interface{} = ret
			if window != nil && len(ret) > 0 && len(ret) == len(window) {
				res = window
			}
			if len(ret) == 0 {
				switch {
				case p.Nil:
					res = nil
				case st.req.TypedNil:
					res = []edge(nil)
				default:
					res = []edge{}
				}
			}
			if p.Err == errReal && !p.Partial {
				res = nil
			}
			if p.Err == errBadValue {
				// a string, a map, or (Partial) a promise - synchronously that is a promise
				// resolving to a promise, through a promise one more level
				switch {
				case p.Partial && p.Promise:
					res = apifu.Go(ctx.Context, func() (interface{}, error) { return []edge{}, nil })
				case p.Nil:
					res = map[string]int{"a": 1}
				default:
					res = "xy"
				}
			}
			if p.Promise {
				delay := time.Duration(p.Delay) * 300 * time.Microsecond
				return apifu.Go(ctx.Context, func() (interface{}, error) {
					if delay > 0 {
						time.Sleep(delay)
					}
					return res, gerr
				}), nil
			}
			return res, gerr
		},
		ResolveTotalCount: func(ctx graphql.FieldContext) (interface{}, error) {
			st.tcCalls++
			n := len(st.req.Edges)
			var err error
			if st.req.TCErr {
				err = fmt.Errorf(totalCountErrorMessage)
			}
			if st.req.TCAsync {
				return apifu.Go(ctx.Context, func() (interface{}, error) { return n, err }), nil
			}
			return n, err
		},
		EdgeCursor: func(e interface{}) apifu.TimeBasedCursor {
			// the library's constructor, from a time.Time carrying a location: the cursor must not depend on it
			t := time.Unix(0, e.(edge).Nano).In(time.FixedZone("", st.req.Zone))
			return apifu.NewTimeBasedCursor(t, e.(edge).Id)
		},
		EdgeFields: map[string]*graphql.FieldDefinition{
			"node": {
				Type: graphql.StringType,
				Resolve: func(ctx graphql.FieldContext) (interface{}, error) {
					e := ctx.Object.(edge)
					return fmt.Sprintf("%d:%x", e.Nano, e.Id), nil
				},
			},
		},
	})
	cfg.AddQueryField("connection", st.def)
	api, err := apifu.NewAPI(cfg)
	if err != nil {
		panic(err)
	}
	return api
}

// fieldCost asks the connection field's own cost functions: the field's (Resolver, Multiplier) for
// the given first / last arguments, and the Multiplier of its edges field under the context the
// field's cost function hands down (-1: none handed down)
func fieldCost(def *graphql.FieldDefinition, first, last *int) [3]int {
	args := map[string]interface{}{}
	if first != nil {
		args["first"] = *first
	}
	if last != nil {
		args["last"] = *last
	}
	fc := def.Cost(graphql.FieldCostContext{Context: context.Background(), Arguments: args})
	em := -1
	if fc.Context != nil {
		edges := def.Type.(*graphql.ObjectType).Fields["edges"]
		em = edges.Cost(graphql.FieldCostContext{Context: fc.Context, Arguments: map[string]interface{}{}}).Multiplier
	}
	return [3]int{fc.Resolver, fc.Multiplier, em}
}

func storeChanged(st *workerState) bool {
	if st.store == nil {
		return false
	}
	if len(st.store) != len(st.pristine) {
		return true
	}
	for k, x := range st.store {
		if e, ok := x.(edge); !ok || e != st.pristine[k] {
			return true
		}
	}
	return false
}

func workerMain() {
	st := &workerState{}
	api := newAPI(st)
	in := bufio.NewReaderSize(os.Stdin, 1<<20)
	out := bufio.NewWriter(os.Stdout)
	for {
		line, err := in.ReadBytes('\n')
		if len(line) > 0 {
			var req workReq
			if e := json.Unmarshal(line, &req); e != nil {
				fmt.Fprintln(os.Stderr, "worker: bad request:", e)
				os.Exit(3)
			}
			st.req, st.calls, st.triples, st.returns, st.raised, st.tcCalls = &req, 0, nil, nil, nil, 0
			if req.Store == 1 || (req.Store == 2 && st.store == nil) {
				st.pristine = append([]edge{}, req.Edges...)
				sort.Slice(st.pristine, func(a, b int) bool { return edgeLess(st.pristine[a], st.pristine[b]) })
				st.store = make([]any, len(st.pristine))
				for k, e := range st.pristine {
					st.store[k] = e
				}
			} else if req.Store == 0 {
				st.store, st.pristine = nil, nil
			}
			body, _ := json.Marshal(map[string]interface{}{"query": req.Query})
			hr := httptest.NewRequest("POST", "/graphql", bytes.NewReader(body))
			hr.Header.Set("Content-Type", "application/json")
			w := httptest.NewRecorder()
			api.ServeGraphQL(w, hr)
			resp, _ := json.Marshal(workResp{Status: w.Code, Body: w.Body.String(), Triples: st.triples, Returns: st.returns, Raised: st.raised, TCCalls: st.tcCalls,
				Cost: fieldCost(st.def, req.First, req.Last), StoreChanged: storeChanged(st)})
			out.Write(resp)
			out.WriteByte('\n')
			out.Flush()
		}
		if err != nil {
			return
		}
	}
}

// ---------------------------------------------------------------------------------------------
// parent: the worker handle
// ---------------------------------------------------------------------------------------------

type runner struct {
	cmd     *exec.Cmd
	in      io.WriteCloser
	out     *bufio.Reader
	crashes int
	hangs   int
}

// after this many hung requests the run is hopeless (each costs a watchdog period): the remaining
// cases are not executed and are reported as undecodable (skipped) observations
const maxHangs = 8

func (r *runner) start() {
	exe, err := os.Executable()
	if err != nil {
		panic(err)
	}
	r.cmd = exec.Command(exe)
	r.cmd.Env = append(os.Environ(), "C16_WORKER=1")
	r.cmd.Stderr = nil // the goroutine trace of a crashing worker is not needed: the case replays it
	r.in, _ = r.cmd.StdinPipe()
	op, _ := r.cmd.StdoutPipe()
	r.out = bufio.NewReaderSize(op, 1<<20)
	if err := r.cmd.Start(); err != nil {
		panic(err)
	}
}

func (r *runner) stop() {
	if r.cmd != nil {
		r.in.Close()
		r.cmd.Wait()
		r.cmd = nil
	}
}

// how long one request may take before the worker is declared hung and killed
const watchdog = 20 * time.Second

// do runs one request in the worker; crashed = the worker process died while serving it, hung =
// it did not answer within the watchdog period (and was killed).
func (r *runner) do(req *workReq) (resp workResp, crashed, hung bool) {
	if r.hangs >= maxHangs {
		return workResp{}, false, true
	}
	if r.cmd == nil {
		r.start()
	}
	b, _ := json.Marshal(req)
	b = append(b, '\n')
	type answer struct {
		line []byte
		err  error
	}
	ch := make(chan answer, 1)
	out := r.out
	in := r.in
	go func() {
		if _, err := in.Write(b); err != nil {
			ch <- answer{nil, err}
			return
		}
		line, err := out.ReadBytes('\n')
		ch <- answer{line, err}
	}()
	var a answer
	timer := time.NewTimer(watchdog)
	select {
	case a = <-ch:
		timer.Stop()
	case <-timer.C:
		r.cmd.Process.Kill()
		a = <-ch
		hung = true
		r.hangs++
	}
	if hung || a.err != nil || json.Unmarshal(a.line, &resp) != nil {
		r.in.Close()
		r.cmd.Wait()
		r.cmd = nil
		r.crashes++
		return workResp{}, !hung, hung
	}
	return resp, false, false
}

// ---------------------------------------------------------------------------------------------
// requests as the generator sees them, and their abstraction for the model
// ---------------------------------------------------------------------------------------------

var cursorType = reflect.TypeOf(apifu.TimeBasedCursor{})

func ser(nano int64, id string) string {
	s, err := apifu.SerializeCursor(apifu.TimeBasedCursor{Nano: nano, Id: id})
	if err != nil {
		panic(err)
	}
	return s
}

// a cursor argument: nil = argument omitted, otherwise the string sent
type curArg *string

func curOf(nano int64, id string) curArg { s := ser(nano, id); return &s }
func curRaw(s string) curArg             { return &s }

func edgeNode(nano int64, id string) sexp.Node { return sexp.L(z64(nano), sexp.Str(id)) }

// what the resolver sees after DeserializeCursor: absent ("" or omitted), invalid, or a value
func curSexp(c curArg) sexp.Node {
	if c == nil || *c == "" {
		return sexp.Sym("absent")
	}
	v := apifu.DeserializeCursor(cursorType, *c)
	if v == nil {
		return sexp.Sym("invalid")
	}
	tc := v.(apifu.TimeBasedCursor)
	return sexp.T("cursor", z64(tc.Nano), sexp.Str(tc.Id))
}

type argSpec struct {
	First, Last   *int
	After, Before curArg
	From, To      *time.Time
	Info          bool
	Total         bool // totalCount is selected
	TotalFirst    bool // ... before edges and pageInfo
}

func intp(i int) *int { return &i }

func ns(n int64) *time.Time { t := time.Unix(0, n).UTC(); return &t }

func (a argSpec) query() string {
	var parts []string
	if a.First != nil {
		parts = append(parts, fmt.Sprintf("first:%d", *a.First))
	}
	if a.Last != nil {
		parts = append(parts, fmt.Sprintf("last:%d", *a.Last))
	}
	if a.After != nil {
		parts = append(parts, fmt.Sprintf("after:%q", *a.After))
	}
	if a.Before != nil {
		parts = append(parts, fmt.Sprintf("before:%q", *a.Before))
	}
	if a.From != nil {
		parts = append(parts, fmt.Sprintf("atOrAfterTime:%q", a.From.Format(time.RFC3339Nano)))
	}
	if a.To != nil {
		parts = append(parts, fmt.Sprintf("beforeTime:%q", a.To.Format(time.RFC3339Nano)))
	}
	args := ""
	if len(parts) > 0 {
		args = "(" + strings.Join(parts, ", ") + ")"
	}
	sel := "edges{cursor node}"
	if a.Info {
		sel += " pageInfo{hasPreviousPage hasNextPage startCursor endCursor}"
	}
	if a.Total && a.TotalFirst {
		sel = "totalCount " + sel
	} else if a.Total {
		sel += " totalCount"
	}
	return "{connection" + args + "{" + sel + "}}"
}

func optInt(p *int) sexp.Node {
	if p == nil {
		return sexp.None()
	}
	return sexp.Some(sexp.Int(*p))
}

func optTime(p *time.Time) sexp.Node {
	if p == nil {
		return sexp.None()
	}
	return sexp.Some(zbig(nanosOf(*p)))
}

// the DateTime argument text exactly as query() sends it
func optTimeStr(t *time.Time) sexp.Node {
	if t == nil {
		return sexp.None()
	}
	return sexp.Some(sexp.Str(t.Format(time.RFC3339Nano)))
}

func optStr(c curArg) sexp.Node {
	if c == nil {
		return sexp.None()
	}
	return sexp.Some(sexp.Str(*c))
}

func (a argSpec) sexp() sexp.Node {
	return sexp.T("args", sexp.T("first", optInt(a.First)), sexp.T("last", optInt(a.Last)),
		sexp.T("after", curSexp(a.After)), sexp.T("before", curSexp(a.Before)),
		sexp.T("from", optTime(a.From)), sexp.T("to", optTime(a.To)),
		sexp.T("afterraw", optStr(a.After)), sexp.T("beforeraw", optStr(a.Before)),
		sexp.T("fromraw", optTimeStr(a.From)), sexp.T("toraw", optTimeStr(a.To)))
}

// ---------------------------------------------------------------------------------------------
// observation
// ---------------------------------------------------------------------------------------------

type obsT struct {
	total                       *int
	crashed, isError, malformed bool
	edges                       []edge
	hasInfo                     bool
	hasPrev, hasNext            bool
	start, end                  string
}

func parseNode(s string) (edge, bool) {
	i := strings.IndexByte(s, ':')
	if i < 0 {
		return edge{}, false
	}
	n, err := strconv.ParseInt(s[:i], 10, 64)
	if err != nil {
		return edge{}, false
	}
	id, err := hex.DecodeString(s[i+1:])
	if err != nil {
		return edge{}, false
	}
	return edge{n, string(id)}, true
}

func optCursorString(s string) sexp.Node {
	if s == "" {
		return sexp.None()
	}
	v := apifu.DeserializeCursor(cursorType, s)
	if v == nil {
		return sexp.Sym("undecodable")
	}
	tc := v.(apifu.TimeBasedCursor)
	return sexp.Some(edgeNode(tc.Nano, tc.Id))
}

func observe(resp workResp, crashed, hung bool) (obsT, sexp.Node) {
	if hung {
		return obsT{crashed: true}, sexp.T("hang")
	}
	if crashed {
		return obsT{crashed: true}, sexp.T("crash")
	}
	var body struct {
		Data *struct {
			Connection *struct {
				Edges []struct {
					Cursor string
					Node   string
				}
				PageInfo *struct {
					HasPreviousPage, HasNextPage bool
					StartCursor, EndCursor       string
				}
				TotalCount *int
			}
		}
		Errors []struct{ Message string }
	}
	if resp.Status != 200 || json.Unmarshal([]byte(resp.Body), &body) != nil {
		return obsT{malformed: true}, sexp.T("malformed", sexp.Int(resp.Status))
	}
	if len(body.Errors) > 0 || body.Data == nil || body.Data.Connection == nil {
		// which error: one the harness getter raised (by call index), the harness's total count
		// error, or anything else (the library's own messages are not compared)
		var ms []sexp.Node
		for _, e := range body.Errors {
			var k int
			if n, err := fmt.Sscanf(e.Message, "getter-error-%d", &k); err == nil && n == 1 && e.Message == fmt.Sprintf("getter-error-%d", k) {
				ms = append(ms, sexp.T("g", sexp.Int(k)))
			} else if e.Message == totalCountErrorMessage {
				ms = append(ms, sexp.T("tc"))
			} else {
				ms = append(ms, sexp.T("other"))
			}
		}
		return obsT{isError: true}, sexp.T("error", ms...)
	}
	c := body.Data.Connection
	o := obsT{}
	var es, cs, raws []sexp.Node
	for _, e := range c.Edges {
		raws = append(raws, sexp.Str(e.Cursor))
		ed, ok := parseNode(e.Node)
		if !ok {
			return obsT{malformed: true}, sexp.T("malformed", sexp.Str(e.Node))
		}
		o.edges = append(o.edges, ed)
		es = append(es, edgeNode(ed.Nano, ed.Id))
		if v := apifu.DeserializeCursor(cursorType, e.Cursor); v != nil {
			tc := v.(apifu.TimeBasedCursor)
			cs = append(cs, edgeNode(tc.Nano, tc.Id))
		} else {
			cs = append(cs, sexp.Sym("undecodable"))
		}
	}
	info := sexp.T("noinfo")
	if c.PageInfo != nil {
		o.hasInfo, o.hasPrev, o.hasNext = true, c.PageInfo.HasPreviousPage, c.PageInfo.HasNextPage
		o.start, o.end = c.PageInfo.StartCursor, c.PageInfo.EndCursor
		info = sexp.T("info", sexp.Bool(o.hasPrev), sexp.Bool(o.hasNext), optCursorString(o.start), optCursorString(o.end))
	}
	o.total = c.TotalCount
	return o, sexp.T("page", sexp.L(es...), sexp.L(cs...), info, optInt(c.TotalCount),
		sexp.T("raw", sexp.L(raws...), sexp.Str(o.start), sexp.Str(o.end)))
}

// ---------------------------------------------------------------------------------------------
// one request = one step of a case
// ---------------------------------------------------------------------------------------------

type env struct {
	run      *runner
	edges    []edge
	getter   int
	typedNil bool
	tcErr    bool
	tcAsync  bool
	zone     int
	store    int // 0 / 1 (fresh shared storage) / 2 (the storage the previous step left behind)
}

func presSexp(ps []presT) sexp.Node {
	var l []sexp.Node
	for _, p := range ps {
		l = append(l, sexp.L(sexp.Bool(p.Promise), sexp.Bool(p.Nil), sexp.Int(p.Err), sexp.Bool(p.Partial), sexp.Int(p.Delay)))
	}
	return sexp.L(l...)
}

func (e *env) step(a argSpec, ps []presT) (obsT, sexp.Node) {
	skipped := e.run.hangs >= maxHangs
	resp, crashed, hung := e.run.do(&workReq{Edges: e.edges, Getter: e.getter, Pres: ps, TypedNil: e.typedNil, Query: a.query(),
		TCErr: e.tcErr, TCAsync: e.tcAsync, Zone: e.zone, First: a.First, Last: a.Last, Store: e.store})
	storeObs := 0
	if e.store != 0 {
		storeObs = 1
		if resp.StoreChanged {
			storeObs = 2
		}
	}
	o, on := observe(resp, crashed, hung)
	if skipped {
		on = sexp.T("skipped-after-hangs")
	}
	var ts []sexp.Node
	for i, t := range resp.Triples {
		mn, _ := new(big.Int).SetString(t[0], 10)
		mx, _ := new(big.Int).SetString(t[1], 10)
		lim, _ := new(big.Int).SetString(t[2], 10)
		var ret []sexp.Node
		for _, x := range resp.Returns[i] {
			ret = append(ret, edgeNode(x.Nano, x.Id))
		}
		ts = append(ts, sexp.L(zbig(mn), zbig(mx), zbig(lim), sexp.L(ret...), sexp.Int(resp.Raised[i])))
	}
	tc := sexp.T("val", sexp.Int(len(e.edges)))
	if e.tcErr {
		tc = sexp.T("err")
	}
	return o, sexp.T("step", a.sexp(), sexp.T("info", sexp.Bool(a.Info)), sexp.T("total", sexp.Bool(a.Total)), sexp.T("tc", tc),
		sexp.T("tccalls", sexp.Int(resp.TCCalls)), sexp.T("store", sexp.Int(storeObs)), sexp.T("cost", sexp.Int(resp.Cost[0]), sexp.Int(resp.Cost[1]), sexp.Int(resp.Cost[2])),
		sexp.T("pres", presSexp(ps)),
		sexp.T("obs", on), sexp.T("triples", sexp.L(ts...)))
}

var getterNames = []string{"exact", "reversed", "generous"}

func (e *env) caseNode(kind sexp.Node, steps []sexp.Node) sexp.Node {
	var es []sexp.Node
	for _, x := range e.edges {
		es = append(es, edgeNode(x.Nano, x.Id))
	}
	return sexp.T("case", sexp.T("edges", sexp.L(es...)), sexp.T("getter", sexp.Sym(getterNames[e.getter])),
		sexp.T("kind", kind), sexp.T("steps", sexp.L(steps...)))
}

func (e *env) single(a argSpec, ps []presT) sexp.Node {
	_, s := e.step(a, ps)
	return e.caseNode(sexp.T("single"), []sexp.Node{s})
}

// walk follows endCursor (forward) / startCursor (backward) with the strings the server emitted,
// while hasNextPage / hasPreviousPage is true.
func (e *env) walk(forward bool, n int, from, to *time.Time, psFor func(step int) []presT) sexp.Node {
	var steps []sexp.Node
	var cur curArg
	for i := 0; i < len(e.edges)+3; i++ {
		a := argSpec{From: from, To: to, Info: true}
		if forward {
			a.First, a.After = intp(n), cur
		} else {
			a.Last, a.Before = intp(n), cur
		}
		o, s := e.step(a, psFor(i))
		steps = append(steps, s)
		if o.crashed || o.isError || o.malformed || !o.hasInfo {
			break
		}
		if forward {
			if !o.hasNext {
				break
			}
			cur = curRaw(o.end)
		} else {
			if !o.hasPrev {
				break
			}
			cur = curRaw(o.start)
		}
	}
	dir := "bwd"
	if forward {
		dir = "fwd"
	}
	return e.caseNode(sexp.T("walk", sexp.Sym(dir), sexp.Int(n)), steps)
}

// ---------------------------------------------------------------------------------------------
// generators
// ---------------------------------------------------------------------------------------------

// the data set of DESIGN §6 row 20
var d0 = []edge{{100, "a"}, {100, "b"}, {100, "c"}, {200, "a"}, {200, "b"}, {300, "a"}}

// the 9 candidate edges of the bounded-exhaustive data sets: 3 timestamps x 3 ids
var universe9 = func() []edge {
	var u []edge
	for _, t := range []int64{100, 200, 300} {
		for _, id := range []string{"a", "b", "c"} {
			u = append(u, edge{t, id})
		}
	}
	return u
}()

// all subsets of universe9 with at most 6 elements, in order of size
func smallDatasets() [][]edge {
	var out [][]edge
	for size := 0; size <= 6; size++ {
		for m := 0; m < 1<<9; m++ {
			var d []edge
			for i := 0; i < 9; i++ {
				if m>>i&1 == 1 {
					d = append(d, universe9[i])
				}
			}
			if len(d) == size {
				out = append(out, d)
			}
		}
	}
	return out
}

func shuffled(r *rng.R, d []edge) []edge {
	d = append([]edge(nil), d...)
	for i := len(d) - 1; i > 0; i-- {
		j := r.Intn(i + 1)
		d[i], d[j] = d[j], d[i]
	}
	return d
}

// grid of DateTime bounds around the timestamps 100/200/300 (nil = absent)
var fromGrid = []*time.Time{nil, ns(100), ns(200), ns(250), ns(300)}
var toGrid = []*time.Time{nil, ns(150), ns(200), ns(300), ns(301)}

// cursors: of existing edges, of non-existent edges between / outside, sharing a timestamp or not
func cursorGrid() []curArg {
	return []curArg{nil, curOf(100, "a"), curOf(100, "c"), curOf(200, "a"), curOf(200, "ab"),
		curOf(300, "a"), curOf(50, "z"), curOf(350, "")}
}

type fl struct{ first, last *int }

var flGrid = []fl{{intp(0), nil}, {intp(1), nil}, {intp(2), nil}, {intp(4), nil}, {intp(10), nil},
	{nil, intp(0)}, {nil, intp(1)}, {nil, intp(2)}, {nil, intp(4)}, {nil, intp(10)}}

func randomPres(r *rng.R) []presT {
	switch r.Intn(6) {
	case 0:
		return nil // all synchronous slices
	case 1:
		return []presT{{Promise: true}, {Promise: true}, {Promise: true}}
	case 2:
		return []presT{{Promise: true, Nil: true}, {Promise: true, Nil: true}, {Promise: true, Nil: true}}
	case 3:
		return []presT{{Nil: true}, {Nil: true}, {Nil: true}}
	}
	ps := make([]presT, 3)
	for i := range ps {
		ps[i] = presT{Promise: r.Bool(), Nil: r.Bool()}
	}
	return ps
}

// withErrors makes some of the calls fail: synchronously, through the promise, several at once,
// with or without a partial result beside the error, as a typed nil error value; promises
// resolve in a random order (Delay)
func withErrors(r *rng.R, ps []presT) []presT {
	out := make([]presT, 3)
	copy(out, ps)
	mode := r.Intn(8)
	for i := range out {
		out[i].Delay = r.Intn(4)
		out[i].Partial = r.Bool()
		switch mode {
		case 0: // exactly one call fails
		case 1, 2, 3: // each call fails with probability 1/2
			if r.Bool() {
				out[i].Err = errReal
			}
		case 4: // typed nil error values only
			if r.Bool() {
				out[i].Err = errTypedNil
			}
		case 5: // values that are neither nil nor a slice (a string, a map, a promise resolving to a promise)
			if r.Bool() {
				out[i].Err = errBadValue
			}
		default: // anything
			out[i].Err = rng.Pick(r, []int{errNone, errNone, errReal, errReal, errTypedNil, errBadValue})
		}
	}
	if mode == 0 {
		out[r.Intn(3)].Err = errReal
	}
	return out
}

// zones for the time.Time values the harness's EdgeCursor hands to NewTimeBasedCursor
var zones = []int{0, 5 * 3600, -(11*3600 + 1800), 14 * 3600}

func randomEnv(r *rng.R, run *runner, d []edge) *env {
	return &env{run: run, edges: d, getter: r.Intn(3), typedNil: r.Bool(),
		tcErr: r.Chance(1, 6), tcAsync: r.Bool(), zone: rng.Pick(r, zones)}
}

var extremeTimes = []int64{math.MinInt64, math.MinInt64 + 1, -5, 0, 7, math.MaxInt64 - 1, math.MaxInt64}
var idPool = []string{"", "a", "ab", "b", "B", "c", "é", "a\x00"}

func randomDataset(r *rng.R) []edge {
	var times []int64
	switch r.Intn(4) {
	case 0: // extremes of the int64 range
		for i := 0; i < 3; i++ {
			times = append(times, rng.Pick(r, extremeTimes))
		}
	case 1: // adjacent nanoseconds
		base := int64(r.Range(-3, 1000))
		times = []int64{base, base + 1, base + 2}
	default:
		times = []int64{100, 200, 300}
	}
	n := r.Range(0, 6)
	seen := map[edge]bool{}
	var d []edge
	for len(d) < n {
		e := edge{rng.Pick(r, times), rng.Pick(r, idPool)}
		if !seen[e] {
			seen[e] = true
			d = append(d, e)
		}
	}
	return d
}

func datasetTimes(d []edge) []int64 {
	if len(d) == 0 {
		return []int64{100, 200, 300}
	}
	var ts []int64
	for _, e := range d {
		ts = append(ts, e.Nano)
	}
	return ts
}

func addSat(t int64, d int64) int64 {
	if d > 0 && t > math.MaxInt64-d {
		return math.MaxInt64
	}
	if d < 0 && t < math.MinInt64-d {
		return math.MinInt64
	}
	return t + d
}

func randomCursor(r *rng.R, d []edge) curArg {
	switch r.Intn(10) {
	case 0, 1:
		return nil
	case 2:
		if r.Chance(1, 4) {
			return curRaw("") // the empty string counts as absent
		}
		return nil
	case 3, 4, 5: // an existing edge
		if len(d) > 0 {
			e := rng.Pick(r, d)
			return curOf(e.Nano, e.Id)
		}
		return nil
	case 6, 7: // a foreign cursor at an existing timestamp
		return curOf(rng.Pick(r, datasetTimes(d)), rng.Pick(r, idPool))
	case 8: // a foreign cursor at a near-by timestamp
		return curOf(addSat(rng.Pick(r, datasetTimes(d)), int64(r.Range(-2, 2))*int64(rng.Pick(r, []int{1, 50}))), rng.Pick(r, idPool))
	}
	return curOf(rng.Pick(r, extremeTimes), rng.Pick(r, idPool))
}

// DateTime arguments outside the int64-nanosecond range (1677-09-21 .. 2262-04-11): the scalar
// accepts years 0000-9999 and zone offsets up to +-23:59, so instants from 31 December of the year
// -1 to 1 January 10000; Go's zero time; the ends of the int64 range to the nanosecond
var farTimes = []time.Time{
	time.Date(1, 1, 1, 0, 0, 0, 0, time.UTC), time.Date(1, 1, 1, 0, 0, 0, 1, time.UTC),
	time.Date(1600, 2, 3, 4, 5, 6, 7, time.UTC), time.Date(2999, 12, 31, 23, 59, 59, 999999999, time.UTC),
	time.Date(3000, 1, 1, 0, 0, 0, 0, time.UTC), time.Date(9999, 12, 31, 23, 59, 59, 0, time.UTC),
	time.Date(0, 1, 1, 0, 0, 0, 0, time.UTC), time.Date(0, 12, 31, 23, 59, 59, 999999999, time.UTC),
	time.Date(0, 1, 1, 0, 0, 0, 0, time.FixedZone("", 23*3600+59*60)),                  // the year -1
	time.Date(9999, 12, 31, 23, 59, 59, 999999999, time.FixedZone("", -23*3600-59*60)), // the year 10000
	time.Date(1, 1, 1, 0, 0, 0, 0, time.FixedZone("", 5*3600)),                         // before the zero time
	time.Unix(0, math.MinInt64).UTC(), time.Unix(0, math.MinInt64).UTC().Add(-time.Nanosecond),
	time.Unix(0, math.MaxInt64).UTC(), time.Unix(0, math.MaxInt64).UTC().Add(time.Nanosecond),
	time.Unix(0, math.MaxInt64).In(time.FixedZone("", -7*3600)).Add(2 * time.Nanosecond),
	time.Date(1677, 9, 21, 0, 12, 43, 145224191, time.UTC), time.Date(2262, 4, 11, 23, 47, 16, 854775808, time.UTC),
	time.Date(2263, 1, 1, 0, 0, 0, 0, time.UTC), time.Date(1677, 1, 1, 0, 0, 0, 0, time.UTC),
}

func randomBound(r *rng.R, d []edge) *time.Time {
	switch r.Intn(8) {
	case 0, 1, 2:
		return nil
	case 3, 4, 5:
		t := time.Unix(0, rng.Pick(r, datasetTimes(d))).UTC()
		t = t.Add(time.Duration(r.Range(-1, 1)))
		if r.Chance(1, 4) { // the same instant written with a zone offset
			t = t.In(time.FixedZone("", r.Range(-12, 14)*3600))
		}
		return &t
	case 6:
		t := time.Unix(0, rng.Pick(r, datasetTimes(d))).UTC()
		t = t.Add(time.Duration(r.Range(-2, 2) * 50))
		return &t
	}
	t := rng.Pick(r, farTimes)
	return &t
}

func randomArgs(r *rng.R, d []edge) argSpec {
	a := argSpec{After: randomCursor(r, d), Before: randomCursor(r, d), From: randomBound(r, d), To: randomBound(r, d), Info: !r.Chance(1, 8)}
	n := rng.Pick(r, []int{0, 1, 1, 2, 2, 3, 5, 10, 1000})
	if r.Bool() {
		a.First = intp(n)
	} else {
		a.Last = intp(n)
	}
	return a
}

var hostileCursors = []string{"", "!!!", "AAAA", "gA", "kQ", "gqROYW5vAQ", "gqROYW5v0xXlmjan9SgAoklkoA", "gqJJZKFh", "gqROYW5voWGiSWSgYQ", "wA", "zP8"}

// crafted msgpack documents for DeserializeCursor's struct decoder: nil, arrays, map16 / map32,
// keys as bin, every integer code, duplicate and unknown keys, missing fields, trailing bytes,
// truncation, a line break inside the base64 text
// dirtyTail sets the unused low bits of the last base64 character of a final partial quantum
func dirtyTail(s string) string {
	const alphabet = "ABCDEFGHIJKLMNOPQRSTUVWXYZabcdefghijklmnopqrstuvwxyz0123456789-_"
	if len(s)%4 < 2 {
		return s
	}
	v := strings.IndexByte(alphabet, s[len(s)-1])
	return s[:len(s)-1] + string(alphabet[v|1])
}

var craftedCursors = func() []string {
	enc := func(b ...byte) string { return base64.RawURLEncoding.EncodeToString(b) }
	nano := []byte{0xa4, 'N', 'a', 'n', 'o'}
	id := []byte{0xa2, 'I', 'd'}
	cat := func(parts ...[]byte) []byte {
		var out []byte
		for _, p := range parts {
			out = append(out, p...)
		}
		return out
	}
	valid := cat([]byte{0x82}, nano, []byte{0xd3, 0, 0, 0, 0, 0, 0, 0, 200}, id, []byte{0xa1, 'a'})
	vs := enc(valid...)
	return []string{
		enc(0xc0),                                // nil: the zero cursor
		enc(0x80),                                // empty map
		enc(0x90),                                // empty array
		enc(0x91, 0xd0, 0xff),                    // [int8 -1]
		enc(0x92, 0x64, 0xa1, 'b'),               // [100, "b"]
		enc(0x93, 0x64, 0xa1, 'b', 0xc0),         // three elements: the third is skipped
		enc(0xdc, 0, 2, 0xcc, 200, 0xd9, 1, 'a'), // array16, uint8, str8
		enc(cat([]byte{0xde, 0, 2}, nano, []byte{0xcd, 1, 0x2c}, id, []byte{0xda, 0, 1, 'a'})...), // map16, uint16 300, str16
		enc(cat([]byte{0xdf, 0, 0, 0, 2}, nano, []byte{0xce, 0, 0, 0, 100}, id, []byte{0xdb, 0, 0, 0, 1, 'c'})...),
		enc(cat([]byte{0x83}, nano, []byte{1}, nano, []byte{0x64}, id, []byte{0xa1, 'b'})...), // duplicate key: the later one counts
		enc(cat([]byte{0x81, 0xc4, 4, 'N', 'a', 'n', 'o', 0x64})...),                          // key as bin8, Id missing
		enc(cat([]byte{0x81}, id, []byte{0xa1, 'z'})...),                                      // Nano missing
		enc(cat([]byte{0x82}, id, []byte{0xc0}, nano, []byte{0xc0})...),                       // both nil
		enc(cat([]byte{0x81}, nano, []byte{0xcf, 255, 255, 255, 255, 255, 255, 255, 255})...), // uint64 max = int64 -1
		enc(cat([]byte{0x81}, nano, []byte{0xd1, 0xff, 0x9c})...),                             // int16 -100
		enc(cat([]byte{0x81}, nano, []byte{0xd2, 0x80, 0, 0, 0})...),                          // int32 min
		enc(cat([]byte{0x81}, nano, []byte{0xe0})...),                                         // negative fixnum -32
		enc(cat([]byte{0x82, 0xa1, 'x', 1}, nano, []byte{0x64})...),                           // unknown key (skipped)
		enc(cat(valid, []byte{0xff, 0xff})...),                                                // trailing bytes
		enc(valid[:9]...),                                                                     // truncated integer
		enc(cat([]byte{0x82}, nano, []byte{0xa1, 'x'})...),                                    // a string where the integer belongs
		enc(cat([]byte{0x81}, id, []byte{0x05})...),                                           // an integer where the string belongs
		enc(0xdf, 255, 255, 255, 255),                                                         // map32 of 4 billion entries, no bytes
		enc(0xde, 0),                                                                          // truncated map16 length
		vs[:10] + "\n" + vs[10:],                                                              // a line break inside the base64 text
		vs + "=",                                                                              // padding is not accepted
		// values of unknown keys and surplus array elements are skipped (d.Skip): nested containers, bin, ext, floats
		enc(cat([]byte{0x82, 0xa1, 'x', 0x81, 0xa1, 'y', 0x92, 1, 0x90}, nano, []byte{0x64})...),
		enc(cat([]byte{0x82, 0xa1, 'x', 0xc7, 2, 5, 0xaa, 0xbb}, nano, []byte{0x64})...),
		enc(cat([]byte{0x82, 0xa1, 'x', 0xcb, 1, 2, 3, 4, 5, 6, 7, 8}, nano, []byte{0x64})...),
		enc(cat([]byte{0x83, 0xa1, 'x', 0xc5, 0, 2, 0xaa, 0xbb, 0xa1, 'y', 0xd6, 1, 0xaa, 0xbb, 0xcc, 0xdd}, nano, []byte{0x64})...),
		enc(cat([]byte{0x82, 0xa1, 'x', 0xde, 0, 1, 0xa1, 'k', 0xca, 0, 0, 0, 0}, id, []byte{0xa1, 'q'})...),
		enc(cat([]byte{0x82, 0xa1, 'x', 0xc1}, nano, []byte{0x64})...),             // 0xc1 is no msgpack code
		enc(cat([]byte{0x82, 0xa1, 'x', 0x92, 1})...),                              // the skipped value is truncated
		enc(cat([]byte{0x82, 0xa1, 'x', 0xc7, 9, 5, 0xaa}, nano, []byte{0x64})...), // ext8 longer than the document
		enc(0x94, 0x64, 0xa1, 'b', 0x81, 0xa1, 'k', 0xc0, 0x90),                    // four elements, two skipped
		enc(0x93, 0x64, 0xa1, 'b'),                   // the third element is missing
		enc(0xdd, 0, 0, 0, 3, 0x64, 0xa1, 'b', 0xc3), // array32
		"wB", "gP", dirtyTail(vs), dirtyTail(enc(cat([]byte{0x81}, nano, []byte{0x64})...)), dirtyTail(enc(0x92, 0x64, 0xa1, 'b')), // unused trailing bits set (accepted: the decoder is not strict)
		vs[:len(vs)-1], // last character missing
	}
}()

func hostileArgs(r *rng.R, d []edge) argSpec {
	a := randomArgs(r, d)
	switch r.Intn(6) {
	case 0:
		a.First, a.Last = intp(r.Range(0, 3)), intp(r.Range(0, 3))
	case 1:
		a.First, a.Last = nil, nil
	case 2:
		a.First, a.Last = intp(-r.Range(1, 3)), nil
	case 3:
		a.First, a.Last = nil, intp(-r.Range(1, 3))
	case 4:
		a.After = curRaw(rng.Pick(r, hostileCursors))
	case 5:
		a.Before = curRaw(rng.Pick(r, hostileCursors))
	}
	if r.Chance(1, 3) {
		a.After = curRaw(rng.Pick(r, hostileCursors))
	}
	if r.Chance(1, 3) {
		a.Before = curRaw(rng.Pick(r, craftedCursors))
	}
	return a
}

func main() {
	if os.Getenv("C16_WORKER") == "1" {
		workerMain()
		return
	}
	run := &runner{}
	defer run.stop()
	hx.Main(func(h *hx.H) {
		thorough := h.Thorough()

		// A. exhaustive argument grid on fixed data sets, synchronous exact getter
		gridSets := [][]edge{d0, {{100, "b"}, {200, "a"}, {200, "b"}, {200, "c"}, {300, "a"}, {300, "c"}}}
		if thorough {
			gridSets = append(gridSets,
				[]edge{{100, "a"}, {200, "ab"}, {300, "a"}, {300, "b"}},
				[]edge{{200, "a"}, {200, "b"}, {200, "c"}},
				[]edge{{100, "c"}},
				[]edge{})
		}
		cg := cursorGrid()
		k := 0
		for _, d := range gridSets {
			for _, from := range fromGrid {
				for _, to := range toGrid {
					for _, after := range cg {
						for _, before := range cg {
							for _, x := range flGrid {
								a := argSpec{First: x.first, Last: x.last, After: after, Before: before, From: from, To: to, Info: true}
								d := d
								h.Case(func(r *rng.R) sexp.Node {
									e := &env{run: run, edges: d}
									return e.single(a, nil)
								})
								// B. every 5th grid point (all in the thorough tier) again with promises /
								// nil results / other honouring getters
								k++
								if thorough || k%5 == 0 {
									h.Case(func(r *rng.R) sexp.Node {
										e := &env{run: run, edges: shuffled(r, d), getter: r.Intn(3), typedNil: r.Bool()}
										return e.single(a, randomPres(r))
									})
								}
							}
						}
					}
				}
			}
		}

		// A'. the int64 boundaries: cursors and edges at the smallest / largest nanosecond
		{
			mx, mn := int64(math.MaxInt64), int64(math.MinInt64)
			sets := [][]edge{{{mx, "a"}, {mx, "b"}, {mx, "c"}, {mx - 1, "a"}}, {{mn, "a"}, {mn, "b"}, {mn, "c"}, {mn + 1, "a"}}}
			curs := []curArg{nil, curOf(mx, "a"), curOf(mx, "b"), curOf(mx-1, "a"), curOf(mn, "b"), curOf(mn, "c"), curOf(mn+1, "a")}
			for _, d := range sets {
				for _, after := range curs {
					for _, before := range curs {
						for _, x := range []fl{{intp(1), nil}, {intp(10), nil}, {nil, intp(1)}, {nil, intp(10)}} {
							a := argSpec{First: x.first, Last: x.last, After: after, Before: before, Info: true}
							d := d
							h.Case(func(r *rng.R) sexp.Node {
								e := &env{run: run, edges: shuffled(r, d), getter: r.Intn(3), typedNil: r.Bool()}
								return e.single(a, randomPres(r))
							})
						}
					}
				}
			}
		}

		// C. every data set of at most 6 edges over 3 timestamps x 3 ids, random arguments on the grid values
		perSet := 10
		if thorough {
			perSet = 150
		}
		for _, d := range smallDatasets() {
			d := d
			for i := 0; i < perSet; i++ {
				h.Case(func(r *rng.R) sexp.Node {
					e := &env{run: run, edges: shuffled(r, d), getter: r.Intn(3), typedNil: r.Bool()}
					x := rng.Pick(r, flGrid)
					a := argSpec{First: x.first, Last: x.last, After: rng.Pick(r, cg), Before: rng.Pick(r, cg),
						From: rng.Pick(r, fromGrid), To: rng.Pick(r, toGrid), Info: true}
					return e.single(a, randomPres(r))
				})
			}
		}

		// D. random data sets (adjacent nanoseconds, extremes of int64, ids with prefixes / upper
		// case / non-ASCII / empty) and random arguments (far DateTimes, foreign cursors); one in
		// five with failing getter calls, one in three selecting totalCount
		nRandom := 6000
		if thorough {
			nRandom = 600000
		}
		for i := 0; i < nRandom; i++ {
			h.Case(func(r *rng.R) sexp.Node {
				d := randomDataset(r)
				e := randomEnv(r, run, d)
				if r.Chance(1, 6) {
					e.getter, e.store = getterExact, 1
				}
				a := randomArgs(r, d)
				a.Total, a.TotalFirst = r.Chance(1, 3), r.Bool()
				ps := randomPres(r)
				if r.Chance(1, 5) {
					ps = withErrors(r, ps)
				}
				return e.single(a, ps)
			})
		}

		// G. failing getter calls and totalCount.  G1: a request with three range queries (after and
		// before cursors on different timestamps), every combination of {sync, promise} x {no error,
		// error, typed nil error} per call x pageInfo / totalCount selected or not
		{
			base := argSpec{After: curOf(100, "a"), Before: curOf(300, "a")}
			for code := 0; code < 6*6*6; code++ {
				for selc := 0; selc < 4; selc++ {
					code, selc := code, selc
					h.Case(func(r *rng.R) sexp.Node {
						ps := make([]presT, 3)
						c := code
						for i := range ps {
							ps[i] = presT{Promise: c%2 == 1, Err: c / 2 % 3, Nil: r.Bool(), Partial: r.Bool(), Delay: r.Intn(4)}
							c /= 6
						}
						a := base
						a.Info, a.Total, a.TotalFirst = selc&1 == 1, selc&2 == 2, r.Bool()
						if r.Bool() {
							a.First = intp(rng.Pick(r, []int{0, 1, 10}))
						} else {
							a.Last = intp(rng.Pick(r, []int{0, 1, 10}))
						}
						e := &env{run: run, edges: shuffled(r, d0), getter: r.Intn(3), typedNil: r.Bool(),
							tcErr: r.Chance(1, 4), tcAsync: r.Bool(), zone: rng.Pick(r, zones)}
						return e.single(a, ps)
					})
				}
			}
		}
		// G1b: the same request, every combination of {sync, promise} x {fine, error, non-slice value}
		// per call (the combinations without a non-slice value are in G1)
		{
			base := argSpec{After: curOf(100, "a"), Before: curOf(300, "a"), Info: true}
			kinds := []int{errNone, errReal, errBadValue}
			for code := 0; code < 6*6*6; code++ {
				c := code
				hasBad := false
				for i := 0; i < 3; i++ {
					if kinds[c/2%3] == errBadValue {
						hasBad = true
					}
					c /= 6
				}
				if !hasBad {
					continue
				}
				code := code
				h.Case(func(r *rng.R) sexp.Node {
					ps := make([]presT, 3)
					c := code
					for i := range ps {
						ps[i] = presT{Promise: c%2 == 1, Err: kinds[c/2%3], Nil: r.Bool(), Partial: r.Bool(), Delay: r.Intn(4)}
						c /= 6
					}
					a := base
					a.Total, a.TotalFirst = r.Bool(), r.Bool()
					if r.Bool() {
						a.First = intp(rng.Pick(r, []int{0, 1, 10}))
					} else {
						a.Last = intp(rng.Pick(r, []int{0, 1, 10}))
					}
					e := &env{run: run, edges: shuffled(r, d0), getter: r.Intn(3), typedNil: r.Bool(),
						tcErr: r.Chance(1, 4), tcAsync: r.Bool(), zone: rng.Pick(r, zones)}
					return e.single(a, ps)
				})
			}
		}
		// G2: the argument grid (fewer values) with random failures, hand-overs and resolution orders
		nG2 := 8
		if thorough {
			nG2 = 200
		}
		for _, d := range gridSets[:2] {
			for _, after := range []curArg{nil, curOf(100, "a"), curOf(200, "a")} {
				for _, before := range []curArg{nil, curOf(200, "b"), curOf(300, "a")} {
					for _, x := range []fl{{intp(0), nil}, {intp(2), nil}, {nil, intp(0)}, {nil, intp(10)}} {
						for rep := 0; rep < nG2; rep++ {
							d, after, before, x := d, after, before, x
							h.Case(func(r *rng.R) sexp.Node {
								e := randomEnv(r, run, shuffled(r, d))
								a := argSpec{First: x.first, Last: x.last, After: after, Before: before,
									From: rng.Pick(r, fromGrid), To: rng.Pick(r, toGrid), Info: r.Bool(), Total: r.Bool(), TotalFirst: r.Bool()}
								return e.single(a, withErrors(r, randomPres(r)))
							})
						}
					}
				}
			}
		}

		// E. walks over the pages: every page size, both directions
		nWalkSets := 40
		if thorough {
			nWalkSets = 466
		}
		sets := smallDatasets()
		for i := 0; i < nWalkSets; i++ {
			i := i
			for _, n := range []int{1, 2, 3, 7} {
				for _, fwd := range []bool{true, false} {
					n, fwd := n, fwd
					h.Case(func(r *rng.R) sexp.Node {
						var d []edge
						if i == 0 {
							d = d0
						} else if thorough {
							d = sets[i]
						} else if r.Bool() {
							d = rng.Pick(r, sets[256:])
						} else {
							d = randomDataset(r)
						}
						e := &env{run: run, edges: shuffled(r, d), getter: r.Intn(3), typedNil: r.Bool()}
						var from, to *time.Time
						if r.Chance(1, 2) {
							from = randomBound(r, d)
						}
						if r.Chance(1, 2) {
							to = randomBound(r, d)
						}
						mode := r.Intn(3)
						sub := r.Fork(99)
						return e.walk(fwd, n, from, to, func(int) []presT {
							switch mode {
							case 0:
								return nil
							case 1:
								return []presT{{Promise: true}, {Promise: true}, {Promise: true}}
							}
							return randomPres(sub)
						})
					})
				}
			}
		}

		// H. every crafted cursor document as after and as before cursor
		for _, c := range craftedCursors {
			for _, asAfter := range []bool{true, false} {
				c, asAfter := c, asAfter
				h.Case(func(r *rng.R) sexp.Node {
					e := randomEnv(r, run, shuffled(r, d0))
					a := argSpec{First: intp(10), Info: true}
					if asAfter {
						a.After = curRaw(c)
					} else {
						a.Last, a.First, a.Before = intp(10), nil, curRaw(c)
					}
					return e.single(a, randomPres(r))
				})
			}
		}

		// I. DateTime arguments outside the int64-nanosecond range against edges and cursors at the
		// ends of that range: every pair of far bounds, with and without cursors
		{
			mx, mn := int64(math.MaxInt64), int64(math.MinInt64)
			d := []edge{{mn, "a"}, {mn, "b"}, {mn + 1, "a"}, {0, "a"}, {mx - 1, "a"}, {mx, "a"}, {mx, "b"}}
			curs := []curArg{nil, curOf(mn, "a"), curOf(mx, "a"), curOf(0, "")}
			for i := range farTimes {
				for j := range farTimes {
					i, j := i, j
					h.Case(func(r *rng.R) sexp.Node {
						e := randomEnv(r, run, shuffled(r, d))
						a := argSpec{From: &farTimes[i], To: &farTimes[j], After: rng.Pick(r, curs), Before: rng.Pick(r, curs), Info: true}
						if r.Bool() {
							a.First = intp(rng.Pick(r, []int{0, 1, 10}))
						} else {
							a.Last = intp(rng.Pick(r, []int{0, 1, 10}))
						}
						if r.Chance(1, 3) {
							a.From = nil
						} else if r.Chance(1, 3) {
							a.To = nil
						}
						return e.single(a, randomPres(r))
					})
				}
			}
		}

		// J. NewTimeBasedCursor / TimeBasedCursor.Time on time.Time values of the years 0-9999, in
		// any location: the model's int64 wrap-around against the library's constructor
		nFar := 400
		if thorough {
			nFar = 20000
		}
		for i := 0; i < nFar; i++ {
			i := i
			h.Case(func(r *rng.R) sexp.Node {
				var t time.Time
				switch {
				case i < len(farTimes):
					t = farTimes[i]
				case r.Chance(1, 3): // around the ends of the int64 range
					t = time.Unix(0, rng.Pick(r, []int64{math.MinInt64, math.MaxInt64})).Add(time.Duration(r.Range(-3, 3)))
				case r.Chance(1, 2): // any second of the years 0-9999
					t = time.Unix(int64(r.Range(-62167219200, 253402300799)), int64(r.Range(0, 999999999)))
				default: // inside the range
					t = time.Unix(int64(r.Range(-9223372036, 9223372036)), int64(r.Range(0, 999999999)))
				}
				t = t.In(time.FixedZone("", rng.Pick(r, zones)))
				c := apifu.NewTimeBasedCursor(t, "x")
				back := c.Time()
				return sexp.T("far", zbig(big.NewInt(t.Unix())), sexp.Int(t.Nanosecond()), z64(c.Nano),
					zbig(big.NewInt(back.Unix())), sexp.Int(back.Nanosecond()))
			})
		}

		// K. a getter that answers with windows store[lo:hi] of its own sorted []any storage (spare
		// capacity into live data): requests with two or three non-empty range queries, then a
		// follow-up request on the same storage; the storage must be unchanged after every request
		for _, d := range gridSets[:2] {
			for _, after := range []curArg{nil, curOf(100, "a"), curOf(100, "b"), curOf(200, "a")} {
				for _, before := range []curArg{nil, curOf(200, "b"), curOf(300, "a"), curOf(200, "a")} {
					for _, x := range []fl{{intp(10), nil}, {nil, intp(10)}, {intp(1), nil}, {nil, intp(2)}} {
						d, after, before, x := d, after, before, x
						h.Case(func(r *rng.R) sexp.Node {
							e := &env{run: run, edges: shuffled(r, d), getter: getterExact, typedNil: r.Bool(), zone: rng.Pick(r, zones), store: 1}
							a := argSpec{First: x.first, Last: x.last, After: after, Before: before, Info: true}
							_, s1 := e.step(a, randomPres(r))
							e.store = 2
							b := argSpec{Info: true}
							if r.Bool() {
								b.First = intp(10)
							} else {
								b.Last = intp(10)
							}
							_, s2 := e.step(b, randomPres(r))
							return e.caseNode(sexp.T("single"), []sexp.Node{s1, s2})
						})
					}
				}
			}
		}

		// F. hostile stream: both / neither / negative counts, undecodable cursor strings
		nHostile := 600
		if thorough {
			nHostile = 20000
		}
		for i := 0; i < nHostile; i++ {
			h.Case(func(r *rng.R) sexp.Node {
				d := randomDataset(r)
				e := &env{run: run, edges: d, getter: r.Intn(3), typedNil: r.Bool()}
				return e.single(hostileArgs(r, d), randomPres(r))
			})
		}
	})
	if run.crashes > 0 {
		fmt.Fprintf(os.Stderr, "harness: the worker process died or hung %d times (recorded as (crash) / (hang) observations)\n", run.crashes)
	}
}
