package main

// dumpSource is the helper package of the decode program: it reads "<pkg> <run> <response json>"
// lines, json.Unmarshals each response into the generated type of that case and prints the decoded
// leaves found by reflection as "<pkg> <run> <status> <s-expression>".
//
// Path steps: "key" for a struct field that takes part in JSON decoding (its json tag name, or its
// Go name when untagged, lower-cased because encoding/json matches names case-insensitively),
// (g "name") for a field tagged json:"-" (the per-type fragment structs; skipped when nil), and
// an integer for a slice index.  Leaves: null (nil pointer / nil slice), empty (empty non-nil
// slice), true/false, (s "bytes"), (i n), (f ieee-bits) -- numbers canonicalised exactly as the
// harness canonicalises the numbers of the response it sent.
const dumpSource = `package dump

import (
	"bufio"
	"fmt"
	"math"
	"os"
	"reflect"
	"strings"
)

func Main(decoders map[string]func([]byte) (interface{}, error)) {
	sc := bufio.NewScanner(os.Stdin)
	sc.Buffer(make([]byte, 1<<20), 1<<28)
	w := bufio.NewWriter(os.Stdout)
	defer w.Flush()
	for sc.Scan() {
		parts := strings.SplitN(sc.Text(), " ", 3)
		if len(parts) != 3 {
			continue
		}
		status, leaves := run(decoders[parts[0]], []byte(parts[2]))
		fmt.Fprintf(w, "%s %s %s %s\n", parts[0], parts[1], status, leaves)
	}
}

func run(f func([]byte) (interface{}, error), b []byte) (status, leaves string) {
	defer func() {
		if e := recover(); e != nil {
			status, leaves = "panic", "()"
		}
	}()
	v, err := f(b)
	if err != nil {
		return "error", "()"
	}
	var out []string
	walk(reflect.ValueOf(v).Elem(), nil, &out)
	return "ok", "(" + strings.Join(out, " ") + ")"
}

func quote(s string) string {
	var b strings.Builder
	b.WriteByte('"')
	for i := 0; i < len(s); i++ {
		c := s[i]
		switch {
		case c == '\\':
			b.WriteString("\\\\")
		case c == '"':
			b.WriteString("\\\"")
		case c >= 0x20 && c <= 0x7e:
			b.WriteByte(c)
		default:
			fmt.Fprintf(&b, "\\x%02x", c)
		}
	}
	b.WriteByte('"')
	return b.String()
}

func emit(path []string, leaf string, out *[]string) {
	*out = append(*out, "(("+strings.Join(path, " ")+") "+leaf+")")
}

func number(v float64) string {
	if v == math.Trunc(v) && math.Abs(v) <= 1<<53 {
		return fmt.Sprintf("(i %d)", int64(v))
	}
	return fmt.Sprintf("(f %d)", math.Float64bits(v))
}

func walk(v reflect.Value, path []string, out *[]string) {
	switch v.Kind() {
	case reflect.Ptr:
		if v.IsNil() {
			emit(path, "null", out)
			return
		}
		walk(v.Elem(), path, out)
	case reflect.Slice:
		if v.IsNil() {
			emit(path, "null", out)
			return
		}
		if v.Len() == 0 {
			emit(path, "empty", out)
			return
		}
		for i := 0; i < v.Len(); i++ {
			walk(v.Index(i), append(path[:len(path):len(path)], fmt.Sprint(i)), out)
		}
	case reflect.Struct:
		t := v.Type()
		for i := 0; i < t.NumField(); i++ {
			f := t.Field(i)
			tag := f.Tag.Get("json")
			if tag == "-" {
				fv := v.Field(i)
				if fv.Kind() == reflect.Ptr && fv.IsNil() {
					continue
				}
				walk(fv, append(path[:len(path):len(path)], "(g "+quote(strings.Trim(strings.ToLower(f.Name), "_"))+")"), out)
				continue
			}
			name := f.Name
			if tag != "" {
				if j := strings.IndexByte(tag, ','); j >= 0 {
					tag = tag[:j]
				}
				if tag != "" {
					name = tag
				}
			}
			walk(v.Field(i), append(path[:len(path):len(path)], quote(strings.ToLower(name))), out)
		}
	case reflect.String:
		emit(path, "(s "+quote(v.String())+")", out)
	case reflect.Int, reflect.Int8, reflect.Int16, reflect.Int32, reflect.Int64:
		emit(path, fmt.Sprintf("(i %d)", v.Int()), out)
	case reflect.Float32, reflect.Float64:
		emit(path, number(v.Float()), out)
	case reflect.Bool:
		emit(path, fmt.Sprint(v.Bool()), out)
	default:
		emit(path, "(unknown)", out)
	}
}
` + ""
