package main

// Schema generation for C20: schemas inside the property's envelope (built-in scalars, enums,
// objects, interfaces, unions), as an abstract description (sent to the model) and as a real
// api-fu schema with resolvers over a pseudo-random world (used for introspection and Execute).

import (
	"fmt"
	"math"
	"sort"
	"strings"

	"github.com/ccbrown/api-fu/graphql"
	gschema "github.com/ccbrown/api-fu/graphql/schema"

	"verifharness/internal/rng"
	"verifharness/internal/sexp"
)

// ---- abstract types ----

type gtype struct {
	kind byte // 'n' named, 'l' list, 'N' non-null
	name string
	of   *gtype
}

func named(n string) *gtype     { return &gtype{kind: 'n', name: n} }
func listOf(t *gtype) *gtype    { return &gtype{kind: 'l', of: t} }
func nonNull(t *gtype) *gtype   { return &gtype{kind: 'N', of: t} }
func (t *gtype) wrappers() int {
	n := 0
	for t.kind != 'n' {
		n++
		t = t.of
	}
	return n
}

func (t *gtype) unwrap() string {
	for t.kind != 'n' {
		t = t.of
	}
	return t.name
}
func (t *gtype) String() string {
	switch t.kind {
	case 'l':
		return "[" + t.of.String() + "]"
	case 'N':
		return t.of.String() + "!"
	}
	return t.name
}
func (t *gtype) sexp() sexp.Node {
	switch t.kind {
	case 'l':
		return sexp.T("l", t.of.sexp())
	case 'N':
		return sexp.T("nn", t.of.sexp())
	}
	return sexp.T("n", sexp.Str(t.name))
}

type fieldDef struct {
	name string
	typ  *gtype
}

type typeDef struct {
	kind    string // obj iface union enum
	name    string
	fields  []fieldDef
	ifaces  []string
	members []string
	values  []string
	// deprecated members (DeprecationReason set): introspection lists them only when asked with
	// includeDeprecated: true; operations select them like any other field
	depFields map[string]bool
	depValues map[string]bool
}

func (d *typeDef) deprecateField(f string) {
	if d.depFields == nil {
		d.depFields = map[string]bool{}
	}
	d.depFields[f] = true
}

func (d *typeDef) deprecateValue(v string) {
	if d.depValues == nil {
		d.depValues = map[string]bool{}
	}
	d.depValues[v] = true
}

// deprecations as sent to the model: ((fields (Type field) ...) (values (Enum value) ...))
func (s *schemaDef) deprecationsSexp() sexp.Node {
	var fs, vs []sexp.Node
	for _, d := range s.types {
		for _, f := range d.fields {
			if d.depFields[f.name] {
				fs = append(fs, sexp.L(sexp.Str(d.name), sexp.Str(f.name)))
			}
		}
		for _, v := range d.values {
			if d.depValues[v] {
				vs = append(vs, sexp.L(sexp.Str(d.name), sexp.Str(v)))
			}
		}
	}
	return sexp.L(sexp.T("fields", fs...), sexp.T("values", vs...))
}

func (d *typeDef) field(name string) *fieldDef {
	for i := range d.fields {
		if d.fields[i].name == name {
			return &d.fields[i]
		}
	}
	return nil
}

type schemaDef struct {
	query    string
	mutation string // "" = none
	types    []*typeDef
	byName   map[string]*typeDef
}

var builtinScalars = []string{"Int", "Float", "String", "Boolean", "ID"}

func isBuiltinScalar(n string) bool {
	for _, s := range builtinScalars {
		if s == n {
			return true
		}
	}
	return false
}

func (s *schemaDef) isLeaf(n string) bool {
	if isBuiltinScalar(n) {
		return true
	}
	d := s.byName[n]
	return d != nil && d.kind == "enum"
}

func (s *schemaDef) isComposite(n string) bool {
	d := s.byName[n]
	return d != nil && (d.kind == "obj" || d.kind == "iface" || d.kind == "union")
}

// possible object types of a composite type, in schema order
func (s *schemaDef) possible(n string) []string {
	d := s.byName[n]
	if d == nil {
		return nil
	}
	switch d.kind {
	case "obj":
		return []string{n}
	case "union":
		return append([]string(nil), d.members...)
	case "iface":
		var out []string
		for _, o := range s.types {
			if o.kind == "obj" {
				for _, i := range o.ifaces {
					if i == n {
						out = append(out, o.name)
					}
				}
			}
		}
		return out
	}
	return nil
}

func (s *schemaDef) sexp() sexp.Node {
	var ts []sexp.Node
	for _, d := range s.types {
		strs := func(xs []string) sexp.Node {
			var l []sexp.Node
			for _, x := range xs {
				l = append(l, sexp.Str(x))
			}
			return sexp.L(l...)
		}
		var fs []sexp.Node
		for _, f := range d.fields {
			fs = append(fs, sexp.L(sexp.Str(f.name), f.typ.sexp()))
		}
		switch d.kind {
		case "obj":
			ts = append(ts, sexp.T("obj", sexp.Str(d.name), strs(d.ifaces), sexp.L(fs...)))
		case "iface":
			ts = append(ts, sexp.T("iface", sexp.Str(d.name), sexp.L(fs...)))
		case "union":
			ts = append(ts, sexp.T("union", sexp.Str(d.name), strs(d.members)))
		case "enum":
			ts = append(ts, sexp.T("enum", sexp.Str(d.name), strs(d.values)))
		}
	}
	mut := sexp.None()
	if s.mutation != "" {
		mut = sexp.Some(sexp.Str(s.mutation))
	}
	return sexp.T("schema", sexp.Str(s.query), mut, sexp.L(ts...))
}

// ---- name pools ----

var objNames = []string{"User", "Org", "Repo", "Issue", "Team", "thing", "Foo_bar", "A1", "A", "Page", "X9z", "item"}
var ifaceNames = []string{"Node", "Actor", "Named", "entity", "I_1"}
var unionNames = []string{"SearchResult", "Owner", "U", "any_of"}
var enumNames = []string{"Color", "State", "kind", "E_2"}
var enumValuePool = []string{"RED", "GREEN", "BLUE", "OPEN", "CLOSED", "in_progress", "A_B", "x", "Mixed_Case", "V1", "DONE"}
var fieldNamePool = []string{
	"id", "name", "login", "title", "body", "count", "score", "ok", "state", "color", "owner", "author",
	"items", "nodes", "parent", "children", "fooBar", "foo_bar", "URL", "x1", "a", "B", "snake_case_name",
	"camelCaseName", "Typename", "node", "user", "first", "tags", "matrix", "ratio", "flags", "search", "me",
}

func pickDistinct(r *rng.R, pool []string, n int) []string {
	idx := make([]int, len(pool))
	for i := range idx {
		idx[i] = i
	}
	for i := len(idx) - 1; i > 0; i-- {
		j := r.Intn(i + 1)
		idx[i], idx[j] = idx[j], idx[i]
	}
	if n > len(pool) {
		n = len(pool)
	}
	out := make([]string, n)
	for i := 0; i < n; i++ {
		out[i] = pool[idx[i]]
	}
	return out
}

// genSchema builds a random schema in the envelope.  Every field name has one type throughout the
// schema (so that unaliased selections of the same field in sibling fragments merge), except
// that with small probability an implementing object narrows an interface field to non-null.
func genSchema(r *rng.R) *schemaDef {
	s := &schemaDef{query: "Query", byName: map[string]*typeDef{}}
	if r.Chance(1, 8) {
		s.query = "RootQuery"
	}
	nObj := r.Range(2, 4)
	nIface := r.Range(0, 2)
	nUnion := r.Range(0, 2)
	nEnum := r.Range(0, 2)
	objs := pickDistinct(r, objNames, nObj)
	ifaces := pickDistinct(r, ifaceNames, nIface)
	unions := pickDistinct(r, unionNames, nUnion)
	enums := pickDistinct(r, enumNames, nEnum)

	for _, e := range enums {
		s.types = append(s.types, &typeDef{kind: "enum", name: e, values: pickDistinct(r, enumValuePool, r.Range(1, 4))})
	}
	var composites []string
	composites = append(composites, objs...)
	composites = append(composites, ifaces...)
	composites = append(composites, unions...)

	// one global type per field name
	fieldType := map[string]*gtype{}
	leafNames := append(append([]string{}, builtinScalars...), enums...)
	randType := func(allowComposite bool) *gtype {
		var base string
		if allowComposite && r.Chance(2, 5) {
			base = rng.Pick(r, composites)
		} else {
			base = rng.Pick(r, leafNames)
		}
		t := named(base)
		if r.Chance(1, 2) {
			t = nonNull(t)
		}
		depth := 0
		for r.Chance(1, 3) && depth < 2 {
			t = listOf(t)
			if r.Chance(1, 2) {
				t = nonNull(t)
			}
			depth++
		}
		// rarely: a wrapper chain as deep as the introspection query's TypeRef fragment reaches
		// (7 wrappers: must still load) or deeper (8, 9: LoadSchema sees a wrapper without ofType)
		if r.Chance(1, 100) {
			target := []int{7, 7, 8, 9}[r.Intn(4)]
			for t.wrappers() < target {
				if t.kind != 'N' && r.Bool() {
					t = nonNull(t)
				} else {
					t = listOf(t)
				}
			}
		}
		return t
	}
	typeOf := func(f string) *gtype {
		if t, ok := fieldType[f]; ok {
			return t
		}
		t := randType(true)
		fieldType[f] = t
		return t
	}

	ifaceDefs := map[string]*typeDef{}
	for _, in := range ifaces {
		d := &typeDef{kind: "iface", name: in}
		for _, f := range pickDistinct(r, fieldNamePool, r.Range(1, 3)) {
			d.fields = append(d.fields, fieldDef{f, typeOf(f)})
		}
		ifaceDefs[in] = d
	}
	objDefs := map[string]*typeDef{}
	for _, on := range objs {
		d := &typeDef{kind: "obj", name: on}
		seen := map[string]bool{}
		for _, in := range ifaces {
			if r.Chance(1, 2) {
				d.ifaces = append(d.ifaces, in)
				for _, f := range ifaceDefs[in].fields {
					if !seen[f.name] {
						seen[f.name] = true
						t := f.typ
						if t.kind != 'N' && r.Chance(1, 12) {
							t = nonNull(t) // covariant narrowing
						}
						d.fields = append(d.fields, fieldDef{f.name, t})
					}
				}
			}
		}
		for _, f := range pickDistinct(r, fieldNamePool, r.Range(1, 4)) {
			if !seen[f] {
				seen[f] = true
				d.fields = append(d.fields, fieldDef{f, typeOf(f)})
			}
		}
		objDefs[on] = d
	}
	// every interface needs an implementation, otherwise drop it from use (keep it valid: give it one)
	for _, in := range ifaces {
		has := false
		for _, on := range objs {
			for _, i := range objDefs[on].ifaces {
				if i == in {
					has = true
				}
			}
		}
		if !has {
			d := objDefs[objs[r.Intn(len(objs))]]
			d.ifaces = append(d.ifaces, in)
			for _, f := range ifaceDefs[in].fields {
				if d.field(f.name) == nil {
					d.fields = append(d.fields, fieldDef{f.name, f.typ})
				}
			}
		}
	}
	for _, un := range unions {
		d := &typeDef{kind: "union", name: un, members: pickDistinct(r, objs, r.Range(1, len(objs)))}
		s.types = append(s.types, d)
	}
	for _, in := range ifaces {
		s.types = append(s.types, ifaceDefs[in])
	}
	for _, on := range objs {
		s.types = append(s.types, objDefs[on])
	}
	// root types: reference every composite so that everything is reachable
	mkRoot := func(name string) *typeDef {
		d := &typeDef{kind: "obj", name: name}
		used := map[string]bool{}
		for _, c := range composites {
			fn := ""
			for _, cand := range pickDistinct(r, fieldNamePool, len(fieldNamePool)) {
				if used[cand] {
					continue
				}
				if t, ok := fieldType[cand]; !ok || t.unwrap() == c {
					fn = cand
					break
				}
			}
			if fn == "" {
				continue
			}
			used[fn] = true
			if _, ok := fieldType[fn]; !ok {
				t := named(c)
				if r.Chance(1, 3) {
					t = nonNull(t)
				}
				if r.Chance(1, 3) {
					t = listOf(t)
					if r.Chance(1, 2) {
						t = nonNull(t)
					}
				}
				fieldType[fn] = t
			}
			d.fields = append(d.fields, fieldDef{fn, fieldType[fn]})
		}
		for _, f := range pickDistinct(r, fieldNamePool, r.Range(0, 2)) {
			if !used[f] {
				used[f] = true
				d.fields = append(d.fields, fieldDef{f, typeOf(f)})
			}
		}
		return d
	}
	s.types = append(s.types, mkRoot(s.query))
	if r.Chance(1, 4) {
		s.mutation = "Mutation"
		s.types = append(s.types, mkRoot(s.mutation))
	}
	for _, d := range s.types {
		s.byName[d.name] = d
	}
	// deprecated fields and enum values (about 1 in 5)
	for _, d := range s.types {
		for _, f := range d.fields {
			if r.Chance(1, 5) {
				d.deprecateField(f.name)
			}
		}
		for _, v := range d.values {
			if r.Chance(1, 4) {
				d.deprecateValue(v)
			}
		}
	}
	return s
}

// ---- the real schema, with resolvers over a pseudo-random world ----

type wobj struct {
	typ  string
	seed uint64
}

func mix(a uint64, s string) uint64 {
	h := a ^ 0x9e3779b97f4a7c15
	for i := 0; i < len(s); i++ {
		h = (h ^ uint64(s[i])) * 0x100000001b3
	}
	h ^= h >> 29
	h *= 0xbf58476d1ce4e5b9
	h ^= h >> 32
	return h
}

var stringPool = []string{"", "a", "hello world", "null", "0", "café ☃", "quo\"te\\back", "line\nbreak\ttab", "<&>", "ÿ\U0001F600", "true", "  ", "x{y}[z]"}
var floatPool = []float64{0, 1, -1, 0.5, -2.25, 1e21, 1e-7, 123456789.125, 3, math.MaxFloat64, math.SmallestNonzeroFloat64, -1e300, 4294967296, 0.1, 1e15 + 0.5}
var intPool = []int{0, 1, -1, 42, math.MaxInt32, math.MinInt32, 1000000, -77}

func (s *schemaDef) value(t *gtype, h uint64, nonnull bool) interface{} {
	r := rng.New(h)
	switch t.kind {
	case 'N':
		return s.value(t.of, h, true)
	case 'l':
		if !nonnull && r.Chance(1, 5) {
			return nil
		}
		n := []int{0, 1, 1, 2, 2, 3}[r.Intn(6)]
		out := make([]interface{}, n)
		for i := range out {
			out[i] = s.value(t.of, mix(h, fmt.Sprint("#", i)), false)
		}
		return out
	}
	if !nonnull && r.Chance(1, 5) {
		return nil
	}
	switch t.name {
	case "Int":
		if r.Chance(1, 2) {
			return rng.Pick(r, intPool)
		}
		return r.Range(-100000, 100000)
	case "Float":
		if r.Chance(2, 3) {
			return rng.Pick(r, floatPool)
		}
		return float64(r.Range(-1000000, 1000000)) / float64(r.Range(1, 64))
	case "String":
		return rng.Pick(r, stringPool)
	case "Boolean":
		return r.Bool()
	case "ID":
		if r.Chance(1, 3) {
			return r.Range(0, 100000)
		}
		return fmt.Sprintf("id-%d", r.Intn(1000))
	}
	d := s.byName[t.name]
	switch d.kind {
	case "enum":
		return rng.Pick(r, d.values)
	default:
		p := s.possible(t.name)
		return &wobj{typ: p[r.Intn(len(p))], seed: r.Uint64()}
	}
}

func (s *schemaDef) build() (*graphql.Schema, error) {
	types := map[string]graphql.NamedType{
		"Int": graphql.IntType, "Float": graphql.FloatType, "String": graphql.StringType,
		"Boolean": graphql.BooleanType, "ID": graphql.IDType,
	}
	for _, d := range s.types {
		switch d.kind {
		case "obj":
			name := d.name
			types[d.name] = &graphql.ObjectType{Name: d.name, IsTypeOf: func(v interface{}) bool {
				o, ok := v.(*wobj)
				return ok && o.typ == name
			}}
		case "iface":
			types[d.name] = &graphql.InterfaceType{Name: d.name}
		case "union":
			types[d.name] = &graphql.UnionType{Name: d.name}
		case "enum":
			e := &graphql.EnumType{Name: d.name, Values: map[string]*graphql.EnumValueDefinition{}}
			for _, v := range d.values {
				e.Values[v] = &graphql.EnumValueDefinition{Value: v}
				if d.depValues[v] {
					e.Values[v].DeprecationReason = "use something else"
				}
			}
			types[d.name] = e
		}
	}
	var conv func(t *gtype) graphql.Type
	conv = func(t *gtype) graphql.Type {
		switch t.kind {
		case 'l':
			return graphql.NewListType(conv(t.of))
		case 'N':
			return graphql.NewNonNullType(conv(t.of))
		}
		return types[t.name]
	}
	mkFields := func(d *typeDef, resolve bool) map[string]*graphql.FieldDefinition {
		out := map[string]*graphql.FieldDefinition{}
		for _, f := range d.fields {
			f := f
			fd := &graphql.FieldDefinition{Type: conv(f.typ)}
			if d.depFields[f.name] {
				fd.DeprecationReason = "no longer supported"
			}
			if resolve {
				fd.Resolve = func(ctx graphql.FieldContext) (interface{}, error) {
					o := ctx.Object.(*wobj)
					return s.value(f.typ, mix(o.seed, f.name), false), nil
				}
			}
			out[f.name] = fd
		}
		return out
	}
	var additional []graphql.NamedType
	for _, d := range s.types {
		switch d.kind {
		case "obj":
			o := types[d.name].(*graphql.ObjectType)
			o.Fields = mkFields(d, true)
			for _, i := range d.ifaces {
				o.ImplementedInterfaces = append(o.ImplementedInterfaces, types[i].(*graphql.InterfaceType))
			}
			additional = append(additional, o)
		case "iface":
			types[d.name].(*graphql.InterfaceType).Fields = mkFields(d, false)
			additional = append(additional, types[d.name])
		case "union":
			u := types[d.name].(*graphql.UnionType)
			for _, m := range d.members {
				u.MemberTypes = append(u.MemberTypes, types[m].(*graphql.ObjectType))
			}
			additional = append(additional, u)
		case "enum":
			additional = append(additional, types[d.name])
		}
	}
	def := &graphql.SchemaDefinition{Query: types[s.query].(*graphql.ObjectType), AdditionalTypes: additional,
		// @include / @skip, and a directive without behaviour that is allowed at every location (so
		// that LoadSchema's mapping of every introspected location name is exercised)
		Directives: map[string]*graphql.DirectiveDefinition{
			"include": graphql.IncludeDirective,
			"skip":    graphql.SkipDirective,
			"tag": {Locations: []gschema.DirectiveLocation{
				gschema.DirectiveLocationQuery, gschema.DirectiveLocationMutation, gschema.DirectiveLocationSubscription,
				gschema.DirectiveLocationField, gschema.DirectiveLocationFragmentDefinition, gschema.DirectiveLocationFragmentSpread,
				gschema.DirectiveLocationInlineFragment, gschema.DirectiveLocationSchema, gschema.DirectiveLocationScalar,
				gschema.DirectiveLocationObject, gschema.DirectiveLocationFieldDefinition, gschema.DirectiveLocationArgumentDefinition,
				gschema.DirectiveLocationInterface, gschema.DirectiveLocationUnion, gschema.DirectiveLocationEnum,
				gschema.DirectiveLocationEnumValue, gschema.DirectiveLocationInputObject, gschema.DirectiveLocationInputFieldDefinition}},
		}}
	if s.mutation != "" {
		def.Mutation = types[s.mutation].(*graphql.ObjectType)
	}
	return graphql.NewSchema(def)
}

// sorted helper used by a few places that range over maps
func sortedKeys(m map[string]bool) []string {
	var out []string
	for k := range m {
		out = append(out, k)
	}
	sort.Strings(out)
	return out
}

var _ = strings.ToLower
