package main

// Operation generation for C20: executable documents over a generated schema, as an abstract
// syntax tree (sent to the model), rendered to GraphQL text (given to the real generator and the
// real executor).

import (
	"fmt"
	"strings"

	"verifharness/internal/rng"
	"verifharness/internal/sexp"
)

type sel struct {
	kind    byte   // 'f' field, 'i' inline fragment, 's' fragment spread
	alias   string // field alias, "" = none
	name    string // field name / fragment name
	hasCond bool   // inline fragment: has a type condition
	cond    string
	sels    []*sel
	noBrace bool // field rendered without a selection set even though sels may be expected
	braces  bool // field rendered with an (empty-looking) selection set although it is a leaf
	dir     *dirUse
	tag     bool // carries the behaviour-less directive @tag
}

// @include / @skip on a selection: the condition is a constant or a Boolean! variable of the operation
type dirUse struct {
	skip bool   // @skip (else @include)
	v    string // variable name, "" = constant
	c    bool   // the constant
}

func (u *dirUse) render() string {
	n := "include"
	if u.skip {
		n = "skip"
	}
	if u.v != "" {
		return " @" + n + "(if: $" + u.v + ")"
	}
	return fmt.Sprintf(" @%s(if: %v)", n, u.c)
}

// selected under the variable values vars?
func (s *sel) selected(vars map[string]interface{}) bool {
	if s.dir == nil {
		return true
	}
	c := s.dir.c
	if s.dir.v != "" {
		c = vars[s.dir.v].(bool)
	}
	return c != s.dir.skip
}

func (s *sel) dirText() string {
	t := ""
	if s.dir != nil {
		t += s.dir.render()
	}
	if s.tag {
		t += " @tag"
	}
	return t
}

// the selections that remain under the variable values (directives evaluated and dropped)
func pruneSels(sels []*sel, vars map[string]interface{}) []*sel {
	var out []*sel
	for _, s := range sels {
		if !s.selected(vars) {
			continue
		}
		c := *s
		c.dir, c.tag = nil, false
		c.sels = pruneSels(s.sels, vars)
		if s.kind != 's' && len(s.sels) > 0 && len(c.sels) == 0 {
			// everything below was skipped: the field / fragment stays with an empty selection, which
			// the text could not say; the generator of documents avoids this (see decorate)
			c.sels = nil
		}
		out = append(out, &c)
	}
	return out
}

func (d *doc) prune(vars map[string]interface{}) *doc {
	e := &doc{}
	for _, op := range d.ops {
		e.ops = append(e.ops, &opDef{typ: op.typ, name: op.name, sels: pruneSels(op.sels, vars)})
	}
	for _, f := range d.frags {
		e.frags = append(e.frags, &fragDef{name: f.name, cond: f.cond, sels: pruneSels(f.sels, vars)})
	}
	return e
}

func selsHaveDirs(sels []*sel) bool {
	for _, s := range sels {
		if s.dir != nil || s.tag || selsHaveDirs(s.sels) {
			return true
		}
	}
	return false
}

func (d *doc) hasDirs() bool {
	for _, op := range d.ops {
		if op.tag || selsHaveDirs(op.sels) {
			return true
		}
	}
	for _, f := range d.frags {
		if f.tag || selsHaveDirs(f.sels) {
			return true
		}
	}
	return false
}

type fragDef struct {
	name, cond string
	sels       []*sel
	tag        bool
}

type opDef struct {
	typ  string // query | mutation
	name string // "" = anonymous
	sels []*sel
	vars []string // Boolean! variables (conditions of @include / @skip)
	tag  bool
}

type doc struct {
	ops         []*opDef
	frags       []*fragDef
	syntaxError bool
}

func (s *sel) key() string {
	if s.alias != "" {
		return s.alias
	}
	return s.name
}

// ---- rendering ----

func renderSels(b *strings.Builder, sels []*sel, ind string) {
	b.WriteString("{\n")
	for _, s := range sels {
		b.WriteString(ind + "  ")
		switch s.kind {
		case 'f':
			if s.alias != "" {
				b.WriteString(s.alias + ": ")
			}
			b.WriteString(s.name)
			b.WriteString(s.dirText())
			if (len(s.sels) > 0 || s.braces) && !s.noBrace {
				b.WriteString(" ")
				renderSels(b, s.sels, ind+"  ")
			}
		case 'i':
			b.WriteString("...")
			if s.hasCond {
				b.WriteString(" on " + s.cond)
			}
			b.WriteString(s.dirText())
			b.WriteString(" ")
			renderSels(b, s.sels, ind+"  ")
		case 's':
			b.WriteString("..." + s.name + s.dirText())
		}
		b.WriteString("\n")
	}
	b.WriteString(ind + "}")
}

func (d *doc) render() string {
	var b strings.Builder
	for _, op := range d.ops {
		if op.name == "" && op.typ == "query" {
			// anonymous query shorthand
		} else {
			b.WriteString(op.typ)
			if op.name != "" {
				b.WriteString(" " + op.name)
			}
			if len(op.vars) > 0 {
				b.WriteString("(")
				for i, v := range op.vars {
					if i > 0 {
						b.WriteString(", ")
					}
					b.WriteString("$" + v + ": Boolean!")
				}
				b.WriteString(")")
			}
			if op.tag {
				b.WriteString(" @tag")
			}
			b.WriteString(" ")
		}
		renderSels(&b, op.sels, "")
		b.WriteString("\n")
	}
	for _, f := range d.frags {
		b.WriteString("fragment " + f.name + " on " + f.cond)
		if f.tag {
			b.WriteString(" @tag")
		}
		b.WriteString(" ")
		renderSels(&b, f.sels, "")
		b.WriteString("\n")
	}
	out := b.String()
	if d.syntaxError {
		// drop the last closing brace
		if i := strings.LastIndex(out, "}"); i >= 0 {
			out = out[:i] + out[i+1:]
		}
	}
	return out
}

// ---- s-expression ----

func optStr(s string, present bool) sexp.Node {
	if !present {
		return sexp.None()
	}
	return sexp.Some(sexp.Str(s))
}

func selsSexp(sels []*sel) sexp.Node {
	var l []sexp.Node
	for _, s := range sels {
		switch s.kind {
		case 'f':
			// has-set: whether a selection set was written at all
			hasSet := (len(s.sels) > 0 || s.braces) && !s.noBrace
			sub := s.sels
			if !hasSet {
				sub = nil
			}
			l = append(l, sexp.T("f", optStr(s.alias, s.alias != ""), sexp.Str(s.name), sexp.Bool(hasSet), selsSexp(sub)))
		case 'i':
			l = append(l, sexp.T("i", optStr(s.cond, s.hasCond), selsSexp(s.sels)))
		case 's':
			l = append(l, sexp.T("s", sexp.Str(s.name)))
		}
	}
	return sexp.L(l...)
}

func (d *doc) sexp() sexp.Node {
	if d.syntaxError {
		return sexp.T("doc-syntax-error")
	}
	var ops, frags []sexp.Node
	for _, op := range d.ops {
		ops = append(ops, sexp.T("op", sexp.Sym(op.typ), optStr(op.name, op.name != ""), selsSexp(op.sels)))
	}
	for _, f := range d.frags {
		frags = append(frags, sexp.T("frag", sexp.Str(f.name), sexp.Str(f.cond), selsSexp(f.sels)))
	}
	return sexp.T("doc", sexp.L(ops...), sexp.L(frags...))
}

// ---- generation ----

type keyInfo struct {
	key, field string
	leaf       bool
	paths      map[string]bool
}

// scope: everything that can end up in one response object (a selection set followed through
// inline fragments and fragment spreads)
type scope struct {
	keys    map[string]*keyInfo // by lower-cased key
	reached map[string]bool     // fragments reached (transitively)
}

func newScope() *scope { return &scope{keys: map[string]*keyInfo{}, reached: map[string]bool{}} }

type flatKey struct {
	key, field string
	leaf       bool
}

type fragInfo struct {
	def     *fragDef
	flat    []flatKey       // keys reachable from the body (through fragments)
	reaches map[string]bool // fragments spread transitively (including itself)
}

type docGen struct {
	r         *rng.R
	s         *schemaDef
	loose     bool // allow leaving the envelope (case-colliding keys, underscore keys, missing __typename)
	frags     []*fragInfo
	fragNames map[string]bool
	fresh     int
	maxDepth  int
	stats     map[string]bool
}

var aliasPool = []string{"x", "y", "alias", "Alias_1", "myField", "my_field", "K", "data", "value", "n2", "Zz", "aB", "the_id", "URL2", "t"}
var fragNamePool = []string{"F", "userFields", "Frag_1", "nodeInfo", "X", "details", "G2", "common"}
var opNamePool = []string{"Q", "GetThing", "op_1", "fetch", "A", "ListAll", "M1", "q"}

func (g *docGen) freshAlias() string {
	g.fresh++
	base := rng.Pick(g.r, aliasPool)
	return fmt.Sprintf("%s%d", base, g.fresh)
}

// tryKey registers a key in the scope; returns false when it would break the envelope.
func (g *docGen) tryKey(sc *scope, lp, key, field string, leaf bool) bool {
	lk := strings.ToLower(key)
	if info, ok := sc.keys[lk]; ok {
		if info.key != key || info.field != field || !leaf || !info.leaf || info.paths[lp] {
			return false
		}
		info.paths[lp] = true
		return true
	}
	sc.keys[lk] = &keyInfo{key: key, field: field, leaf: leaf, paths: map[string]bool{lp: true}}
	return true
}

func (g *docGen) overlaps(a, b string) bool {
	pa := g.s.possible(a)
	for _, x := range g.s.possible(b) {
		for _, y := range pa {
			if x == y {
				return true
			}
		}
	}
	return false
}

// candidate type conditions for fragments applied at type t
func (g *docGen) condCandidates(t string) []string {
	var out []string
	for _, d := range g.s.types {
		if g.s.isComposite(d.name) && g.overlaps(d.name, t) {
			out = append(out, d.name)
		}
	}
	return out
}

func (g *docGen) genSels(t string, sc *scope, lp string, depth int) []*sel {
	r := g.r
	d := g.s.byName[t]
	var out []*sel
	abstract := d.kind != "obj"
	subScopes := map[*sel]*scope{}
	// fields
	if d.kind != "union" {
		n := r.Range(1, 3)
		if depth == 0 {
			n = r.Range(1, 4)
		}
		for _, fname := range pickDistinct(r, fieldNames(d), n) {
			f := d.field(fname)
			base := f.typ.unwrap()
			leaf := g.s.isLeaf(base)
			if !leaf && depth >= g.maxDepth {
				continue
			}
			s := &sel{kind: 'f', name: fname}
			if r.Chance(1, 3) {
				s.alias = g.freshAlias()
				if g.loose && r.Chance(1, 6) {
					// case-colliding or underscore-leading alias: outside the envelope
					switch r.Intn(3) {
					case 0:
						s.alias = "_" + s.alias
					case 1:
						if len(out) > 0 && out[0].kind == 'f' {
							s.alias = strings.ToUpper(out[0].key())
							if s.alias == out[0].key() {
								s.alias = strings.ToLower(out[0].key())
							}
							if strings.HasPrefix(s.alias, "__") {
								s.alias = "tn" + s.alias
							}
						}
					case 2:
						s.alias = "typename__"
					}
				}
			}
			ok := g.tryKey(sc, lp, s.key(), fname, leaf)
			if !ok && s.alias == "" {
				s.alias = g.freshAlias()
				ok = g.tryKey(sc, lp, s.key(), fname, leaf)
			}
			if !ok && !g.loose {
				continue
			}
			if !leaf {
				subScopes[s] = newScope()
				s.sels = g.genSels(base, subScopes[s], "", depth+1)
				if len(s.sels) == 0 {
					continue
				}
			}
			out = append(out, s)
		}
		// a response key selected more than once (valid GraphQL: the selections are merged); the
		// sub-selections of a composite field share one scope, so they can be merged
		if len(out) > 0 && r.Chance(1, 6) {
			nd := r.Range(1, 2)
			for i := 0; i < nd; i++ {
				o := out[r.Intn(len(out))]
				if o.kind != 'f' {
					continue
				}
				dup := &sel{kind: 'f', alias: o.alias, name: o.name}
				if sc2 := subScopes[o]; sc2 != nil {
					g.fresh++
					dup.sels = g.genSels(d.field(o.name).typ.unwrap(), sc2, fmt.Sprintf("dup%d", g.fresh), depth+1)
					if len(dup.sels) == 0 {
						continue
					}
					g.stats["repeated-composite-key"] = true
				}
				g.stats["repeated-key"] = true
				pos := r.Intn(len(out) + 1)
				out = append(out, nil)
				copy(out[pos+1:], out[pos:])
				out[pos] = dup
			}
		}
	}
	// fragments
	hasFrag := false
	if depth < g.maxDepth && r.Chance(2, 5) || (d.kind == "union" && r.Chance(4, 5)) {
		nf := r.Range(1, 3)
		cands := g.condCandidates(t)
		for i := 0; i < nf; i++ {
			switch k := r.Intn(10); {
			case k < 6: // inline fragment
				s := &sel{kind: 'i'}
				c := t
				if r.Chance(1, 8) {
					// no type condition
					g.stats["inline-no-cond"] = true
				} else {
					s.hasCond = true
					c = rng.Pick(r, cands)
					// sometimes repeat a type condition already used here (merged by the generator)
					if r.Chance(1, 4) {
						for _, o := range out {
							if o.kind == 'i' && o.hasCond {
								c = o.cond
								g.stats["inline-repeated-type"] = true
							}
						}
					}
					s.cond = c
				}
				if g.s.byName[c].kind == "union" {
					g.stats["union-cond"] = true
				}
				s.sels = g.genSels(c, sc, lp+"/"+strings.ToLower(c), depth+1)
				if len(s.sels) == 0 {
					continue
				}
				out = append(out, s)
				hasFrag = true
			default: // fragment spread
				fi := g.pickFragment(t, sc, depth)
				if fi == nil {
					continue
				}
				out = append(out, &sel{kind: 's', name: fi.def.name})
				hasFrag = true
			}
		}
	}
	// __typename
	wantTypename := r.Chance(1, 4)
	if hasFrag && abstract {
		wantTypename = true
		if g.loose && r.Chance(1, 8) {
			wantTypename = false
		}
	}
	if hasFrag && !abstract && r.Chance(1, 2) {
		wantTypename = true
	}
	if wantTypename {
		s := &sel{kind: 'f', name: "__typename"}
		if r.Chance(1, 4) {
			s.alias = g.freshAlias()
			g.stats["aliased-typename"] = true
		}
		if g.tryKey(sc, lp, s.key(), "__typename", true) || g.loose {
			// random position
			pos := r.Intn(len(out) + 1)
			out = append(out, nil)
			copy(out[pos+1:], out[pos:])
			out[pos] = s
			if r.Chance(1, 10) {
				// a second selection of __typename under another key
				s2 := &sel{kind: 'f', name: "__typename", alias: g.freshAlias()}
				if g.tryKey(sc, lp, s2.key(), "__typename", true) {
					out = append(out, s2)
				}
			}
		} else if hasFrag && abstract {
			s.alias = g.freshAlias()
			g.tryKey(sc, lp, s.key(), "__typename", true)
			out = append([]*sel{s}, out...)
		}
	}
	return out
}

func fieldNames(d *typeDef) []string {
	var out []string
	for _, f := range d.fields {
		out = append(out, f.name)
	}
	return out
}

// pickFragment returns a fragment (existing or new) that can be spread at type t in scope sc.
func (g *docGen) pickFragment(t string, sc *scope, depth int) *fragInfo {
	r := g.r
	compatible := func(fi *fragInfo) bool {
		if !g.overlaps(fi.def.cond, t) {
			return false
		}
		for f := range fi.reaches {
			if sc.reached[f] {
				return false
			}
		}
		if g.loose {
			return true
		}
		for _, k := range fi.flat {
			if info, ok := sc.keys[strings.ToLower(k.key)]; ok {
				if info.key != k.key || info.field != k.field || !k.leaf || !info.leaf {
					return false
				}
			}
		}
		return true
	}
	admit := func(fi *fragInfo) {
		for f := range fi.reaches {
			sc.reached[f] = true
		}
		for _, k := range fi.flat {
			lk := strings.ToLower(k.key)
			if _, ok := sc.keys[lk]; !ok {
				sc.keys[lk] = &keyInfo{key: k.key, field: k.field, leaf: k.leaf, paths: map[string]bool{}}
			}
			sc.keys[lk].paths["~"+fi.def.name] = true
		}
	}
	if len(g.frags) > 0 && r.Chance(1, 2) {
		fi := g.frags[r.Intn(len(g.frags))]
		if compatible(fi) {
			admit(fi)
			g.stats["fragment-reused"] = true
			return fi
		}
	}
	if len(g.frags) >= 4 || depth >= g.maxDepth {
		return nil
	}
	cands := g.condCandidates(t)
	c := rng.Pick(r, cands)
	name := rng.Pick(r, fragNamePool)
	if g.fragNames == nil {
		g.fragNames = map[string]bool{}
	}
	for g.fragNames[name] {
		g.fresh++
		name = fmt.Sprintf("%s%d", name, g.fresh)
	}
	// reserved before the body is generated: the body may define further fragments
	g.fragNames[name] = true
	inner := newScope()
	body := g.genSels(c, inner, "", depth+1)
	if len(body) == 0 {
		return nil
	}
	fi := &fragInfo{def: &fragDef{name: name, cond: c, sels: body}, reaches: map[string]bool{name: true}}
	for f := range inner.reached {
		fi.reaches[f] = true
	}
	for _, info := range inner.keys {
		fi.flat = append(fi.flat, flatKey{info.key, info.field, info.leaf})
	}
	// the definition is kept even when it cannot be spread here; definitions that end up unused are
	// pruned when the document is finished
	g.frags = append(g.frags, fi)
	if !compatible(fi) {
		return nil
	}
	admit(fi)
	g.stats["fragment-spread"] = true
	return fi
}

func collectSpreads(sels []*sel, into map[string]bool) {
	for _, s := range sels {
		if s.kind == 's' {
			into[s.name] = true
		}
		collectSpreads(s.sels, into)
	}
}

// prune keeps only the fragment definitions reachable from the operations.
func (g *docGen) prune(ops []*opDef) []*fragDef {
	used := map[string]bool{}
	for _, op := range ops {
		collectSpreads(op.sels, used)
	}
	for changed := true; changed; {
		changed = false
		for _, f := range g.frags {
			if used[f.def.name] {
				before := len(used)
				collectSpreads(f.def.sels, used)
				if len(used) != before {
					changed = true
				}
			}
		}
	}
	var out []*fragDef
	for _, f := range g.frags {
		if used[f.def.name] {
			out = append(out, f.def)
		}
	}
	return out
}
