package main

// Hand-written regression cases, always run first (indices 0..len(corpus)-1): the documents of
// DESIGN.md section 6 rows 27-29, the union-condition defect found while building this check,
// the two known identifier-clash classes (member-name-clash K1-K3, decl-name-clash K4-K5), and a few plain shapes.

type corpusCase struct {
	note  string
	build func() (*schemaDef, *doc, string)
}

func fld(name string, sels ...*sel) *sel { return &sel{kind: 'f', name: name, sels: sels} }
func fa(alias, name string, sels ...*sel) *sel {
	return &sel{kind: 'f', alias: alias, name: name, sels: sels}
}
func on(cond string, sels ...*sel) *sel { return &sel{kind: 'i', hasCond: true, cond: cond, sels: sels} }
func inl(sels ...*sel) *sel             { return &sel{kind: 'i', sels: sels} }
func sp(name string) *sel               { return &sel{kind: 's', name: name} }

func fixedSchema() *schemaDef {
	s := &schemaDef{query: "Query", byName: map[string]*typeDef{}}
	s.types = []*typeDef{
		{kind: "enum", name: "Color", values: []string{"RED", "GREEN", "dark_blue"}},
		{kind: "iface", name: "Node", fields: []fieldDef{{"id", nonNull(named("ID"))}}},
		{kind: "union", name: "Actor", members: []string{"User", "Org"}},
		{kind: "obj", name: "User", ifaces: []string{"Node"}, fields: []fieldDef{
			{"id", nonNull(named("ID"))}, {"name", named("String")}, {"login", nonNull(named("String"))},
			{"age", named("Int")}, {"score", nonNull(named("Float"))}, {"color", named("Color")},
			{"friends", listOf(nonNull(named("User")))}, {"tags", nonNull(listOf(named("String")))},
			{"grid", listOf(listOf(nonNull(named("Int"))))}, {"best", named("Node")}, {"ok", nonNull(named("Boolean"))}}},
		{kind: "obj", name: "Org", ifaces: []string{"Node"}, fields: []fieldDef{
			{"id", nonNull(named("ID"))}, {"title", named("String")}, {"members", nonNull(listOf(nonNull(named("Actor"))))},
			{"color", named("Color")}}},
		{kind: "obj", name: "Query", fields: []fieldDef{
			{"node", named("Node")}, {"actor", named("Actor")}, {"user", named("User")},
			{"nodes", nonNull(listOf(named("Node")))}, {"me", nonNull(named("User"))}, {"actors", listOf(named("Actor"))}}},
	}
	for _, d := range s.types {
		s.byName[d.name] = d
	}
	s.byName["User"].deprecateField("login")
	s.byName["Node"].deprecateField("id")
	s.byName["Color"].deprecateValue("GREEN")
	return s
}

func q(name string, sels ...*sel) *opDef { return &opDef{typ: "query", name: name, sels: sels} }

func fixed(note string, d *doc) corpusCase {
	return corpusCase{note: note, build: func() (*schemaDef, *doc, string) { return fixedSchema(), d, note }}
}

var corpus = []corpusCase{
	fixed("plain fields", &doc{ops: []*opDef{q("FindUser", fld("user", fld("id"), fld("name"), fld("login"), fld("age"), fld("score"), fld("color"), fld("ok"), fld("tags"), fld("grid")))}}),
	fixed("lists of objects and aliases", &doc{ops: []*opDef{q("L", fld("me", fa("pals", "friends", fld("id"), fa("n", "name")), fld("best", fld("id"))), fa("all", "nodes", fld("id")))}}),
	fixed("README example", &doc{ops: []*opDef{q("User", fld("node", fld("__typename"), on("User", fld("name"), fld("login"))))}}),
	fixed("row 27: two inline fragments on one type", &doc{ops: []*opDef{q("A", fld("node", fld("__typename"), on("User", fld("name")), on("User", fld("login"))))}}),
	fixed("row 28: aliased __typename", &doc{ops: []*opDef{q("C", fld("node", fa("t", "__typename"), on("User", fld("name"))))}}),
	fixed("row 29: inline fragment without type condition", &doc{ops: []*opDef{q("D", fld("node", fld("__typename"), inl(fld("id"))))}}),
	fixed("union type condition under an interface", &doc{ops: []*opDef{q("E", fld("nodes", fld("__typename"), on("Actor", fld("__typename"), on("User", fld("name")), on("Org", fld("title")))))}}),
	fixed("union type condition under an object", &doc{ops: []*opDef{q("F", fld("me", on("Actor", fld("__typename"), on("User", fld("name")))))}}),
	fixed("named fragments, nested", &doc{
		ops: []*opDef{q("G", fld("actors", fld("__typename"), sp("userFields"), sp("O")), fld("me", sp("userFields")))},
		frags: []*fragDef{
			{name: "userFields", cond: "User", sels: []*sel{fld("id"), fld("name"), fld("best", fld("__typename"), sp("N"))}},
			{name: "N", cond: "Node", sels: []*sel{fld("id")}},
			{name: "O", cond: "Org", sels: []*sel{fld("title"), fld("members", fld("__typename"), on("Node", fld("id")))}},
		}}),
	fixed("fragment on the query root", &doc{
		ops:   []*opDef{q("H", sp("R"), fld("__typename"))},
		frags: []*fragDef{{name: "R", cond: "Query", sels: []*sel{fld("me", fld("login"))}}}}),
	fixed("repaired: field key equals fragment field name", &doc{ops: []*opDef{q("K1", fld("node", fld("__typename"), fa("User", "id"), on("User", fld("name"))))}}),
	fixed("repaired: field key differs from fragment field name in case only", &doc{ops: []*opDef{q("K2", fld("node", fld("__typename"), fa("user", "id"), on("User", fld("name"))))}}),
	fixed("repaired: typename__ next to __typename", &doc{ops: []*opDef{q("K3", fld("node", fld("__typename"), fa("typename__", "id")))}}),
	{note: "repaired: enum constants that differ only in letter case", build: func() (*schemaDef, *doc, string) {
		s := fixedSchema()
		s.byName["Color"].values = []string{"RED", "red", "GREEN"}
		return s, &doc{ops: []*opDef{q("K4", fld("me", fld("color")))}}, "repaired: enum constants that differ only in letter case"
	}},
	{note: "repaired: enum named like a generated <Op>Data type", build: func() (*schemaDef, *doc, string) {
		s := fixedSchema()
		s.byName["Color"].name = "K5Data"
		s.byName["K5Data"] = s.byName["Color"]
		delete(s.byName, "Color")
		for _, d := range s.types {
			for i := range d.fields {
				if d.fields[i].typ.unwrap() == "Color" {
					d.fields[i].typ = named("K5Data")
				}
			}
		}
		return s, &doc{ops: []*opDef{q("K5", fld("me", fld("color")))}}, "repaired: enum named like a generated <Op>Data type"
	}},
	fixed("repaired: a member that needs two underscores (keys User and User_, inline fragment on User)", &doc{
		ops: []*opDef{q("K6", fld("node", fld("__typename"), fa("User", "id"), fa("User_", "id"), on("User", fld("name"))))}}),
	fixed("repaired: inline fragment on User next to a spread of a fragment named User", &doc{
		ops:   []*opDef{q("K7", fld("node", fld("__typename"), on("User", fld("name")), sp("User")))},
		frags: []*fragDef{{name: "User", cond: "User", sels: []*sel{fld("login")}}}}),
	fixed("a fragment whose name begins with two underscores (field F__, type __FFragment), next to a fragment F", &doc{
		ops: []*opDef{q("K10", fld("node", fld("__typename"), sp("__F"), sp("F")))},
		frags: []*fragDef{{name: "__F", cond: "User", sels: []*sel{fld("login")}}, {name: "F", cond: "User", sels: []*sel{fld("name")}}}}),
	fixed("directives: @include on an inline fragment, variable-driven @skip on a spread and on a field, @tag on the operation and a fragment definition", func() *doc {
		inl := on("User", fld("login"))
		inl.dir = &dirUse{c: true}
		spr := sp("F")
		spr.dir = &dirUse{skip: true, v: "v0"}
		nm := fld("title")
		nm.dir = &dirUse{v: "v0"}
		op := q("K12", fld("node", fld("__typename"), fld("id"), inl, spr, on("Org", fld("id"), nm)))
		op.vars, op.tag = []string{"v0"}, true
		return &doc{ops: []*opDef{op}, frags: []*fragDef{{name: "F", cond: "User", sels: []*sel{fld("name")}, tag: true}}}
	}()),
	fixed("a fragment named _ (field _)", &doc{
		ops:   []*opDef{q("K11", fld("node", fld("__typename"), sp("_")))},
		frags: []*fragDef{{name: "_", cond: "User", sels: []*sel{fld("login")}}}}),
	{note: "repaired: enums named string and json next to a constant clash across enums (A.B_C, AB.C)", build: func() (*schemaDef, *doc, string) {
		s := fixedSchema()
		s.types = append([]*typeDef{
			{kind: "enum", name: "string", values: []string{"x"}},
			{kind: "enum", name: "json", values: []string{"y"}},
			{kind: "enum", name: "A", values: []string{"B_C"}},
			{kind: "enum", name: "AB", values: []string{"C"}},
		}, s.types...)
		for _, d := range s.types {
			s.byName[d.name] = d
		}
		u := s.byName["User"]
		u.fields = append(u.fields, fieldDef{"e1", named("string")}, fieldDef{"e2", named("json")}, fieldDef{"e3", named("A")}, fieldDef{"e4", nonNull(named("AB"))})
		return s, &doc{ops: []*opDef{q("K9", fld("node", fld("__typename"), on("User", fld("e1"), fld("e2"), fld("e3"), fld("e4"))))}}, "repaired: enums named string and json next to a constant clash across enums"
	}},
	{note: "known: an enum named like a sel helper type", build: func() (*schemaDef, *doc, string) {
		s := fixedSchema()
		s.types = append([]*typeDef{{kind: "enum", name: "selNode0", values: []string{"x"}}}, s.types...)
		for _, d := range s.types {
			s.byName[d.name] = d
		}
		u := s.byName["User"]
		u.fields = append(u.fields, fieldDef{"e1", named("selNode0")})
		return s, &doc{ops: []*opDef{q("K8", fld("node", fld("__typename"), on("User", fld("e1"))))}}, "known: an enum named like a sel helper type"
	}},
	fixed("invalid: unknown field", &doc{ops: []*opDef{q("I1", fld("node", fld("nope")))}}),
	fixed("valid but rejected by the generator: fragments on an interface without __typename", &doc{ops: []*opDef{q("I2", fld("node", on("User", fld("name"))))}}),
}
