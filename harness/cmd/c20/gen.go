package main

// Document-level generation: valid in-envelope documents, valid documents that may leave the
// envelope, documents with identifier clashes (known findings), and invalid documents.

import (
	"fmt"
	"strings"

	"verifharness/internal/rng"
)

func newDocGen(r *rng.R, s *schemaDef, loose bool) *docGen {
	return &docGen{r: r, s: s, loose: loose, maxDepth: r.Range(1, 3), stats: map[string]bool{}}
}

func (g *docGen) genOp(name string) *opDef {
	typ, root := "query", g.s.query
	if g.s.mutation != "" && g.r.Chance(1, 3) {
		typ, root = "mutation", g.s.mutation
	}
	var sels []*sel
	for tries := 0; len(sels) == 0 && tries < 10; tries++ {
		sels = g.genSels(root, newScope(), "", 0)
	}
	if len(sels) == 0 {
		sels = []*sel{{kind: 'f', name: "__typename"}}
	}
	return &opDef{typ: typ, name: name, sels: sels}
}

func genValidDoc(r *rng.R, s *schemaDef, loose bool) (*doc, map[string]bool) {
	g := newDocGen(r, s, loose)
	d := &doc{}
	names := pickDistinct(r, opNamePool, 2)
	d.ops = append(d.ops, g.genOp(names[0]))
	if r.Chance(1, 6) {
		d.ops = append(d.ops, g.genOp(names[1]))
	}
	d.frags = g.prune(d.ops)
	// fragment definitions may come before the operations
	return d, g.stats
}

// decorate puts @include / @skip (constant, or driven by a Boolean! variable of the operation) and the
// behaviour-less @tag on selections of a valid document: fields (never __typename, which the
// generated decoders need), fragment spreads and inline fragments; @tag also on operations and
// fragment definitions.  The generator ignores directives; the executor leaves out what is skipped.
// The first selection of every selection set stays unconditional.
func decorate(r *rng.R, d *doc, stats map[string]bool) {
	frags := map[string]*fragDef{}
	for _, f := range d.frags {
		frags[f.name] = f
	}
	// does the selection carry a __typename (the key a generated decoder may switch on)?  A selection
	// that does stays unconditional: were it skipped, the fragments of its selection set would not
	// be decoded - the envelope's "selects __typename" must hold of the operation as executed.
	var carriesTn func(s *sel, depth int) bool
	carriesTn = func(s *sel, depth int) bool {
		if depth > 8 {
			return true
		}
		switch s.kind {
		case 'f':
			if s.name == "__typename" {
				return true
			}
		case 's':
			f := frags[s.name]
			if f == nil {
				return true
			}
			for _, x := range f.sels {
				if carriesTn(x, depth+1) {
					return true
				}
			}
			return false
		}
		for _, x := range s.sels {
			if carriesTn(x, depth+1) {
				return true
			}
		}
		return false
	}
	var walk func(sels []*sel, op *opDef)
	walk = func(sels []*sel, op *opDef) {
		for i, s := range sels {
			// the first selection of a set stays unconditional: a selection set never becomes empty
			if i > 0 && !carriesTn(s, 0) && r.Chance(1, 2) {
				u := &dirUse{skip: r.Bool(), c: r.Bool()}
				if op != nil && r.Bool() {
					if len(op.vars) > 0 && (len(op.vars) >= 3 || r.Bool()) {
						u.v = rng.Pick(r, op.vars)
					} else {
						u.v = fmt.Sprintf("v%d", len(op.vars))
						op.vars = append(op.vars, u.v)
					}
					stats["directive-variable"] = true
				} else {
					stats["directive-constant"] = true
				}
				s.dir = u
				stats[map[byte]string{'f': "directive-on-field", 'i': "directive-on-inline-fragment", 's': "directive-on-spread"}[s.kind]] = true
			}
			if r.Chance(1, 8) {
				s.tag = true
				stats["tag-directive"] = true
			}
			walk(s.sels, op)
		}
	}
	for _, op := range d.ops {
		op.tag = r.Chance(1, 3)
		walk(op.sels, op)
	}
	for _, f := range d.frags {
		f.tag = r.Chance(1, 3)
		walk(f.sels, nil)
	}
}

// ---- walking helpers ----

type selRef struct {
	list *[]*sel
	idx  int
	typ  string // parent type of the selection set (best effort)
}

func (s *schemaDef) walk(sels *[]*sel, typ string, f func(selRef)) {
	for i, x := range *sels {
		f(selRef{sels, i, typ})
		switch x.kind {
		case 'f':
			if d := s.byName[typ]; d != nil && x.name != "__typename" {
				if fd := d.field(x.name); fd != nil {
					s.walk(&x.sels, fd.typ.unwrap(), f)
				}
			}
		case 'i':
			c := typ
			if x.hasCond {
				c = x.cond
			}
			s.walk(&x.sels, c, f)
		}
	}
}

func (s *schemaDef) allRefs(d *doc) []selRef {
	var out []selRef
	for _, op := range d.ops {
		root := s.query
		if op.typ == "mutation" {
			root = s.mutation
		}
		s.walk(&op.sels, root, func(r selRef) { out = append(out, r) })
	}
	for _, fr := range d.frags {
		s.walk(&fr.sels, fr.cond, func(r selRef) { out = append(out, r) })
	}
	return out
}

// ---- invalid documents: one mutation of a valid document ----

func genInvalidDoc(r *rng.R, s *schemaDef) (*doc, string) {
	d, _ := genValidDoc(r, s, false)
	refs := s.allRefs(d)
	pickRef := func(pred func(selRef) bool) *selRef {
		var c []selRef
		for _, x := range refs {
			if pred(x) {
				c = append(c, x)
			}
		}
		if len(c) == 0 {
			return nil
		}
		x := c[r.Intn(len(c))]
		return &x
	}
	at := func(x *selRef) *sel { return (*x.list)[x.idx] }
	for tries := 0; tries < 20; tries++ {
		switch k := r.Intn(14); k {
		case 0: // unknown field
			if x := pickRef(func(x selRef) bool { s := (*x.list)[x.idx]; return s.kind == 'f' && s.name != "__typename" }); x != nil {
				at(x).name = "nope"
				at(x).sels = nil
				return d, "unknown-field"
			}
		case 1: // sub-selection on a leaf
			if x := pickRef(func(x selRef) bool { s := (*x.list)[x.idx]; return s.kind == 'f' && len(s.sels) == 0 }); x != nil {
				at(x).sels = []*sel{{kind: 'f', name: "__typename"}}
				return d, "leaf-with-subselection"
			}
		case 2: // composite without sub-selection
			if x := pickRef(func(x selRef) bool { s := (*x.list)[x.idx]; return s.kind == 'f' && len(s.sels) > 0 }); x != nil {
				at(x).noBrace = true
				return d, "composite-without-subselection"
			}
		case 3: // undefined fragment
			if x := pickRef(func(x selRef) bool { return true }); x != nil {
				*x.list = append(*x.list, &sel{kind: 's', name: "Missing"})
				return d, "undefined-fragment"
			}
		case 4: // fragment on unknown / non-composite type
			if x := pickRef(func(x selRef) bool { return true }); x != nil {
				c := rng.Pick(r, []string{"Nope", "Int", "String"})
				for _, t := range s.types {
					if t.kind == "enum" && r.Bool() {
						c = t.name
					}
				}
				*x.list = append(*x.list, &sel{kind: 'i', hasCond: true, cond: c, sels: []*sel{{kind: 'f', name: "__typename"}}})
				return d, "bad-type-condition"
			}
		case 5: // impossible spread
			if x := pickRef(func(x selRef) bool { return s.isComposite(x.typ) }); x != nil {
				poss := map[string]bool{}
				for _, p := range s.possible(x.typ) {
					poss[p] = true
				}
				for _, t := range s.types {
					if t.kind == "obj" && !poss[t.name] && t.name != s.query && t.name != s.mutation {
						*x.list = append(*x.list, &sel{kind: 'i', hasCond: true, cond: t.name, sels: []*sel{{kind: 'f', name: "__typename"}}})
						return d, "impossible-spread"
					}
				}
			}
		case 6: // fragment cycle
			root := s.query
			d.frags = append(d.frags,
				&fragDef{name: "CycA", cond: root, sels: []*sel{{kind: 'f', name: "__typename"}, {kind: 's', name: "CycB"}}},
				&fragDef{name: "CycB", cond: root, sels: []*sel{{kind: 's', name: "CycA"}}})
			if d.ops[0].typ == "query" {
				d.ops[0].sels = append(d.ops[0].sels, &sel{kind: 's', name: "CycA"})
				return d, "fragment-cycle"
			}
			d.frags = d.frags[:len(d.frags)-2]
		case 7: // self cycle
			root := s.query
			if d.ops[0].typ == "query" {
				d.frags = append(d.frags, &fragDef{name: "Self", cond: root, sels: []*sel{{kind: 'f', name: "__typename"}, {kind: 's', name: "Self"}}})
				d.ops[0].sels = append(d.ops[0].sels, &sel{kind: 's', name: "Self"})
				return d, "fragment-cycle"
			}
		case 8: // unused fragment
			d.frags = append(d.frags, &fragDef{name: "Unused", cond: s.query, sels: []*sel{{kind: 'f', name: "__typename"}}})
			return d, "unused-fragment"
		case 9: // duplicate names
			if len(d.frags) > 0 && r.Bool() {
				f := d.frags[r.Intn(len(d.frags))]
				d.frags = append(d.frags, &fragDef{name: f.name, cond: f.cond, sels: []*sel{{kind: 'f', name: "__typename"}}})
				return d, "duplicate-fragment-name"
			}
			op := d.ops[0]
			d.ops = append(d.ops, &opDef{typ: op.typ, name: op.name, sels: []*sel{{kind: 'f', name: "__typename"}}})
			return d, "duplicate-operation-name"
		case 10: // merge conflict: two different fields under one key
			if x := pickRef(func(x selRef) bool {
				dd := s.byName[x.typ]
				return dd != nil && dd.kind != "union" && len(dd.fields) >= 2
			}); x != nil {
				dd := s.byName[x.typ]
				fs := pickDistinct(r, fieldNames(dd), 2)
				mk := func(fn string) *sel {
					out := &sel{kind: 'f', alias: "clash", name: fn}
					if !s.isLeaf(dd.field(fn).typ.unwrap()) {
						out.sels = []*sel{{kind: 'f', name: "__typename"}}
					}
					return out
				}
				*x.list = append(*x.list, mk(fs[0]), mk(fs[1]))
				return d, "merge-conflict"
			}
		case 11: // syntax error
			d.syntaxError = true
			return d, "syntax-error"
		case 12: // mutation on a schema without mutations
			if s.mutation == "" {
				d.ops = append(d.ops, &opDef{typ: "mutation", name: "Mut", sels: []*sel{{kind: 'f', name: "__typename"}}})
				return d, "unsupported-operation"
			}
		case 13: // anonymous operation next to a named one
			d.ops = append(d.ops, &opDef{typ: "query", name: "", sels: []*sel{{kind: 'f', name: "__typename"}}})
			return d, "anonymous-with-named"
		}
	}
	d.syntaxError = true
	return d, "syntax-error"
}

func fragInfos(fs []*fragDef) []*fragInfo {
	var out []*fragInfo
	for _, f := range fs {
		out = append(out, &fragInfo{def: f})
	}
	return out
}

// ---- identifier clashes (valid, in-envelope documents that hit the known findings) ----

// genClashDoc makes a valid document in which a response key and a fragment (or two generated
// declarations) derive the same Go identifier.
func genClashDoc(r *rng.R, s *schemaDef) (*doc, string) {
	d, _ := genValidDoc(r, s, false)
	refs := s.allRefs(d)
	var c []selRef
	for _, x := range refs {
		dd := s.byName[x.typ]
		if dd != nil && dd.kind != "union" && len(dd.fields) > 0 {
			c = append(c, x)
		}
	}
	if len(c) == 0 {
		return d, "none"
	}
	x := c[r.Intn(len(c))]
	dd := s.byName[x.typ]
	// a leaf field to alias
	var leafField string
	for _, f := range dd.fields {
		if s.isLeaf(f.typ.unwrap()) {
			leafField = f.name
		}
	}
	switch r.Intn(3) {
	case 0: // field aliased to the name of an inline fragment's type (exact or differing in case of the first letter)
		if leafField == "" {
			return d, "none"
		}
		cond := dd.name
		poss := s.possible(dd.name)
		if len(poss) > 0 && r.Bool() {
			cond = poss[r.Intn(len(poss))]
		}
		alias := cond
		if r.Bool() {
			alias = strings.ToLower(cond[:1]) + cond[1:]
			if alias == cond {
				alias = strings.ToUpper(cond[:1]) + cond[1:]
			}
		}
		for _, o := range *x.list {
			if o.kind == 'f' && strings.EqualFold(o.key(), alias) {
				return d, "none"
			}
		}
		add := []*sel{{kind: 'f', alias: alias, name: leafField},
			{kind: 'i', hasCond: true, cond: cond, sels: []*sel{{kind: 'f', alias: fmt.Sprintf("zq%d", r.Intn(1000)), name: "__typename"}}}}
		hasTn := false
		for _, o := range *x.list {
			if o.kind == 'f' && o.name == "__typename" {
				hasTn = true
			}
		}
		if !hasTn {
			add = append(add, &sel{kind: 'f', name: "__typename"})
		}
		*x.list = append(*x.list, add...)
		return d, "field-vs-fragment"
	case 1: // key typename__ next to __typename
		if leafField == "" {
			return d, "none"
		}
		for _, o := range *x.list {
			if o.kind == 'f' && (strings.EqualFold(o.key(), "typename__") || o.key() == "__typename") {
				return d, "none"
			}
		}
		*x.list = append(*x.list, &sel{kind: 'f', name: "__typename"}, &sel{kind: 'f', alias: "typename__", name: leafField})
		return d, "typename-twin"
	default: // two constants of one enum get the same identifier (values that differ only in case / underscores)
		var enumField, enumName string
		for _, f := range dd.fields {
			if e := s.byName[f.typ.unwrap()]; e != nil && e.kind == "enum" {
				enumField, enumName = f.name, e.name
			}
		}
		if enumField == "" {
			return d, "none"
		}
		e := s.byName[enumName]
		v := e.values[r.Intn(len(e.values))]
		var twin string
		switch r.Intn(3) {
		case 0:
			twin = strings.ToLower(v)
			if twin == v {
				twin = strings.ToUpper(v)
			}
		case 1:
			twin = v + "_"
		default:
			twin = strings.ToUpper(v[:1]) + strings.ToLower(v[1:])
			if twin == v {
				twin = strings.ToLower(v)
			}
		}
		for _, o := range e.values {
			if o == twin {
				return d, "none"
			}
		}
		if twin == v {
			return d, "none"
		}
		e.values = append(e.values, twin)
		*x.list = append(*x.list, &sel{kind: 'f', alias: fmt.Sprintf("zq%d", r.Intn(1000)), name: enumField})
		return d, "enum-constant-twin"
	}
}
