// c20: gql-client-gen end to end.
//
// For every case: a generated schema (inside the property's envelope) is built as a real api-fu
// schema, introspected for real (graphql.Execute of introspection.Query) into a JSON file, and the
// REAL gql-client-gen binary, built from $VERIF_REPO, is run on a generated document.  Its output
// is type-checked with go/types and, together with the outputs of all other cases, compiled into
// one decode program ($VERIF_RUNDIR/work/decode) that json.Unmarshals the REAL executor's
// responses (graphql.Execute over a pseudo-random world) into the generated types and dumps the
// decoded leaves by reflection.  What is written per case: schema, document, generator verdict
// (ok / error / panic), compiles?, and per response: the response and the decoded leaves.
package main

import (
	"bytes"
	"context"
	"encoding/json"
	"fmt"
	"go/ast"
	"go/importer"
	"go/parser"
	"go/token"
	"go/types"
	"math"
	"os"
	"os/exec"
	"path/filepath"
	"runtime"
	"strconv"
	"strings"
	"sync"

	"github.com/ccbrown/api-fu/graphql"
	"github.com/ccbrown/api-fu/graphql/schema/introspection"

	"verifharness/internal/hx"
	"verifharness/internal/rng"
	"verifharness/internal/sexp"
)

type runObs struct {
	resp   []byte
	status string // ok | error | panic | exec-error
	leaves sexp.Node
	eff    sexp.Node // the document as selected under this run's variable values (when it has directives)
	hasEff bool
}

type caseData struct {
	idx      int
	pkg      string
	stream   string
	note     string
	schema   *schemaDef
	doc      *doc
	text     string
	opName   string
	gen      string // ok | error | panic
	stdout   []byte
	stderr   string
	compiles string // true | false | na
	typeErr  string
	shape    sexp.Node
	enums    sexp.Node
	runs     []*runObs
	stats    map[string]bool
}

var (
	repo    = envOr("VERIF_REPO", "/repo")
	runDir  = envOr("VERIF_RUNDIR", "")
	workDir string
	genBin  string
)

func envOr(k, d string) string {
	if v := os.Getenv(k); v != "" {
		return v
	}
	return d
}

func must(err error) {
	if err != nil {
		fmt.Fprintln(os.Stderr, "c20 harness:", err)
		os.Exit(2)
	}
}

func goEnv() []string {
	return append(os.Environ(), "GOFLAGS=-mod=mod", "GOPROXY=off", "GOSUMDB=off", "GOTOOLCHAIN=local", "CGO_ENABLED=0")
}

func buildGenerator() {
	genBin = filepath.Join(runDir, "gql-client-gen")
	cmd := exec.Command("go", "build", "-o", genBin, "./cmd/gql-client-gen")
	cmd.Dir = repo
	cmd.Env = goEnv()
	out, err := cmd.CombinedOutput()
	if err != nil {
		must(fmt.Errorf("building gql-client-gen from %s failed: %v\n%s", repo, err, out))
	}
}

// ---- type checking of generated source ----

type lockedImporter struct {
	mu  sync.Mutex
	imp types.Importer
}

func (l *lockedImporter) Import(path string) (*types.Package, error) {
	l.mu.Lock()
	defer l.mu.Unlock()
	return l.imp.Import(path)
}

var theImporter = &lockedImporter{imp: importer.ForCompiler(token.NewFileSet(), "source", nil)}

func typecheck(pkg string, src []byte) (ok bool, msg string, f *ast.File) {
	fset := token.NewFileSet()
	f, err := parser.ParseFile(fset, pkg+".go", src, 0)
	if err != nil {
		return false, "parse: " + err.Error(), nil
	}
	conf := types.Config{Importer: theImporter}
	if _, err := conf.Check(pkg, fset, []*ast.File{f}, nil); err != nil {
		return false, err.Error(), f
	}
	return true, "", f
}

// ---- JSON -> s-expression (numbers canonicalised exactly as the decode program does) ----

func canonNumber(v float64) sexp.Node {
	if v == math.Trunc(v) && math.Abs(v) <= 1<<53 {
		return sexp.T("i", sexp.Int64(int64(v)))
	}
	return sexp.T("f", sexp.Uint64(math.Float64bits(v)))
}

func jsonSexp(dec *json.Decoder) (sexp.Node, error) {
	tok, err := dec.Token()
	if err != nil {
		return sexp.Node{}, err
	}
	switch t := tok.(type) {
	case nil:
		return sexp.Sym("null"), nil
	case bool:
		return sexp.Bool(t), nil
	case string:
		return sexp.T("s", sexp.Str(t)), nil
	case json.Number:
		v, err := strconv.ParseFloat(string(t), 64)
		if err != nil {
			return sexp.Node{}, err
		}
		return canonNumber(v), nil
	case json.Delim:
		switch t {
		case '[':
			items := []sexp.Node{sexp.Sym("a")}
			for dec.More() {
				x, err := jsonSexp(dec)
				if err != nil {
					return sexp.Node{}, err
				}
				items = append(items, x)
			}
			dec.Token()
			return sexp.L(items...), nil
		case '{':
			items := []sexp.Node{sexp.Sym("o")}
			for dec.More() {
				k, err := dec.Token()
				if err != nil {
					return sexp.Node{}, err
				}
				x, err := jsonSexp(dec)
				if err != nil {
					return sexp.Node{}, err
				}
				items = append(items, sexp.L(sexp.Str(k.(string)), x))
			}
			dec.Token()
			return sexp.L(items...), nil
		}
	}
	return sexp.Node{}, fmt.Errorf("unexpected token %v", tok)
}

func jsonToSexp(b []byte) sexp.Node {
	dec := json.NewDecoder(bytes.NewReader(b))
	dec.UseNumber()
	n, err := jsonSexp(dec)
	if err != nil {
		panic(fmt.Sprintf("response is not JSON: %v: %s", err, b))
	}
	return n
}

// ---- one case, up to (not including) the decode program ----

func prepare(i int, r *rng.R, thorough bool) *caseData {
	c := &caseData{idx: i, pkg: fmt.Sprintf("c%06d", i), stats: map[string]bool{}}
	if i < len(corpus) {
		c.stream = "corpus"
		c.schema, c.doc, c.note = corpus[i].build()
	} else {
		c.schema = genSchema(r)
		switch k := r.Intn(20); {
		case k < 11:
			c.stream = "env"
			c.doc, c.stats = genValidDoc(r, c.schema, false)
			if r.Chance(1, 3) {
				decorate(r, c.doc, c.stats)
			}
		case k < 14:
			c.stream = "loose"
			c.doc, c.stats = genValidDoc(r, c.schema, true)
			if r.Chance(1, 3) {
				decorate(r, c.doc, c.stats)
			}
		case k < 15:
			c.stream = "clash"
			c.doc, c.note = genClashDoc(r, c.schema)
		default:
			c.stream = "invalid"
			c.doc, c.note = genInvalidDoc(r, c.schema)
		}
	}
	c.text = c.doc.render()
	if len(c.doc.ops) > 0 {
		c.opName = c.doc.ops[0].name
	}

	real, err := c.schema.build()
	if err != nil {
		panic(fmt.Sprintf("generated schema rejected by schema.New: %v\n%s", err, c.schema.sexp()))
	}
	dir := filepath.Join(workDir, c.pkg)
	must(os.MkdirAll(dir, 0o755))
	intro := graphql.Execute(&graphql.Request{Context: context.Background(), Schema: real, Query: string(introspection.Query)})
	if len(intro.Errors) > 0 {
		panic(fmt.Sprintf("introspection failed: %v", intro.Errors[0].Message))
	}
	ib, err := json.Marshal(intro)
	must(err)
	schemaPath := filepath.Join(dir, "schema.json")
	must(os.WriteFile(schemaPath, ib, 0o644))
	if strings.Contains(c.text, "`") {
		panic("document contains a backquote")
	}
	inPath := filepath.Join(dir, "q.go")
	must(os.WriteFile(inPath, []byte("package q\n\nvar _ = gql(`"+c.text+"`)\n"), 0o644))

	// the real generator
	cmd := exec.Command(genBin, "--pkg", c.pkg, "--schema", schemaPath, "-i", inPath)
	var so, se bytes.Buffer
	cmd.Stdout, cmd.Stderr = &so, &se
	err = cmd.Run()
	c.stdout, c.stderr = so.Bytes(), se.String()
	switch {
	case err == nil:
		c.gen = "ok"
	case strings.Contains(c.stderr, "panic:") || strings.Contains(c.stderr, "goroutine "):
		c.gen = "panic"
	default:
		if _, ok := err.(*exec.ExitError); !ok {
			must(err)
		}
		c.gen = "error"
	}
	c.compiles = "na"
	c.shape = sexp.Sym("na")
	c.enums = sexp.Sym("na")
	if c.gen != "ok" {
		return c
	}
	ok, msg, f := typecheck(c.pkg, c.stdout)
	c.compiles, c.typeErr = strconv.FormatBool(ok), msg
	if f != nil {
		c.shape = shapeOf(f, c.opName+"Data")
		c.enums = enumConsts(f)
	}
	if !ok || c.opName == "" {
		return c
	}
	// the real executor's responses over a few worlds
	root := c.schema.query
	if c.doc.ops[0].typ == "mutation" {
		root = c.schema.mutation
	}
	nWorlds := 3
	if thorough {
		nWorlds = 4
	}
	withDirs := c.doc.hasDirs()
	for w := 0; w < nWorlds; w++ {
		// every Boolean! variable gets a value; the first two worlds take all true / all false so that
		// both outcomes of every variable-driven @include / @skip are executed
		vars := map[string]interface{}{}
		for _, op := range c.doc.ops {
			for _, v := range op.vars {
				switch w {
				case 0:
					vars[v] = true
				case 1:
					vars[v] = false
				default:
					vars[v] = r.Bool()
				}
			}
		}
		resp := graphql.Execute(&graphql.Request{Context: context.Background(), Schema: real, Query: c.text,
			OperationName: c.opName, VariableValues: vars, InitialValue: &wobj{typ: root, seed: r.Uint64()}})
		ro := &runObs{}
		if withDirs {
			// what the operation selects under these values (directives evaluated and dropped)
			ro.eff, ro.hasEff = c.doc.prune(vars).sexp(), true
		}
		if len(resp.Errors) > 0 || resp.Data == nil {
			ro.status = "exec-error"
			ro.resp = []byte("null")
			ro.leaves = sexp.L(sexp.Str(fmt.Sprint(resp.Errors[0].Message)))
		} else {
			b, err := json.Marshal(resp.Data)
			must(err)
			ro.resp = b
		}
		c.runs = append(c.runs, ro)
	}
	// the decode package for this case
	ddir := filepath.Join(workDir, "decode", c.pkg)
	must(os.MkdirAll(ddir, 0o755))
	must(os.WriteFile(filepath.Join(ddir, "gen.go"), c.stdout, 0o644))
	stub := "package " + c.pkg + "\n\nimport stubjson \"encoding/json\"\n\n" +
		"func Decode(b []byte) (interface{}, error) {\n\tvar v " + c.opName + "Data\n\terr := stubjson.Unmarshal(b, &v)\n\treturn &v, err\n}\n"
	must(os.WriteFile(filepath.Join(ddir, "stub.go"), []byte(stub), 0o644))
	return c
}

// ---- the decode program: all compiled cases of a batch in one build ----

func runDecodeBatch(batch int, cases []*caseData) {
	var todo []*caseData
	for _, c := range cases {
		if c.compiles == "true" && len(c.runs) > 0 {
			todo = append(todo, c)
		}
	}
	if len(todo) == 0 {
		return
	}
	ddir := filepath.Join(workDir, "decode")
	var mainSrc strings.Builder
	mainSrc.WriteString("package main\n\nimport (\n\t\"verifdecode/dump\"\n")
	for _, c := range todo {
		fmt.Fprintf(&mainSrc, "\t%q\n", "verifdecode/"+c.pkg)
	}
	mainSrc.WriteString(")\n\nfunc main() {\n\tdump.Main(map[string]func([]byte) (interface{}, error){\n")
	for _, c := range todo {
		fmt.Fprintf(&mainSrc, "\t\t%q: %s.Decode,\n", c.pkg, c.pkg)
	}
	mainSrc.WriteString("\t})\n}\n")
	mdir := filepath.Join(ddir, fmt.Sprintf("main%d", batch))
	must(os.MkdirAll(mdir, 0o755))
	must(os.WriteFile(filepath.Join(mdir, "main.go"), []byte(mainSrc.String()), 0o644))
	bin := filepath.Join(ddir, fmt.Sprintf("decode%d.bin", batch))
	cmd := exec.Command("go", "build", "-o", bin, "./"+filepath.Base(mdir))
	cmd.Dir = ddir
	cmd.Env = goEnv()
	if out, err := cmd.CombinedOutput(); err != nil {
		must(fmt.Errorf("decode program does not build although every part type-checked: %v\n%s", err, out))
	}
	// input: one line per run: <pkg> <run index> <response json>
	var in bytes.Buffer
	for _, c := range todo {
		for k, ro := range c.runs {
			if ro.status == "" {
				fmt.Fprintf(&in, "%s %d %s\n", c.pkg, k, ro.resp)
			}
		}
	}
	run := exec.Command(bin)
	run.Stdin = &in
	var out, errb bytes.Buffer
	run.Stdout, run.Stderr = &out, &errb
	if err := run.Run(); err != nil {
		must(fmt.Errorf("decode program failed: %v\n%s", err, errb.String()))
	}
	byPkg := map[string]*caseData{}
	for _, c := range todo {
		byPkg[c.pkg] = c
	}
	for _, line := range strings.Split(out.String(), "\n") {
		if line == "" {
			continue
		}
		parts := strings.SplitN(line, " ", 4)
		c := byPkg[parts[0]]
		k, _ := strconv.Atoi(parts[1])
		c.runs[k].status = parts[2]
		n, err := sexp.Parse(parts[3])
		if err != nil {
			must(fmt.Errorf("bad dump line %q: %v", line, err))
		}
		c.runs[k].leaves = n
	}
	for _, c := range todo {
		for _, ro := range c.runs {
			if ro.status == "" {
				must(fmt.Errorf("decode program gave no answer for %s", c.pkg))
			}
		}
	}
}

func (c *caseData) sexp() sexp.Node {
	var runs []sexp.Node
	for _, ro := range c.runs {
		if ro.status == "exec-error" {
			runs = append(runs, sexp.T("run", sexp.Sym("null"), sexp.Sym("exec-error"), ro.leaves))
			continue
		}
		if ro.hasEff {
			runs = append(runs, sexp.T("run", jsonToSexp(ro.resp), sexp.Sym(ro.status), ro.leaves, ro.eff))
			continue
		}
		runs = append(runs, sexp.T("run", jsonToSexp(ro.resp), sexp.Sym(ro.status), ro.leaves))
	}
	var stats []sexp.Node
	for _, k := range sortedKeys(c.stats) {
		stats = append(stats, sexp.Sym(k))
	}
	return sexp.T("case",
		sexp.T("id", sexp.Int(c.idx)),
		sexp.T("stream", sexp.Sym(c.stream), sexp.Str(c.note)),
		sexp.T("gstats", stats...),
		sexp.T("text", sexp.Str(c.text)),
		sexp.T("schema", c.schema.sexp()),
		sexp.T("deprecations", c.schema.deprecationsSexp()),
		sexp.T("doc", c.doc.sexp()),
		sexp.T("opname", sexp.Str(c.opName)),
		sexp.T("impl",
			sexp.T("gen", sexp.Sym(c.gen)),
			sexp.T("stdout-empty", sexp.Bool(len(c.stdout) == 0)),
			sexp.T("compiles", sexp.Sym(c.compiles)),
			sexp.T("type-error", sexp.Str(c.typeErr)),
			sexp.T("shape", c.shape),
			sexp.T("enums", c.enums),
			sexp.T("runs", runs...)))
}

func main() {
	hx.Main(func(h *hx.H) {
		if runDir == "" {
			d, err := os.MkdirTemp("", "c20run")
			must(err)
			runDir = d
		}
		workDir = filepath.Join(runDir, "work")
		os.RemoveAll(workDir)
		must(os.MkdirAll(workDir, 0o755))
		buildGenerator()

		n := len(corpus) + 2500
		batchSize := 350
		if h.Thorough() {
			n = len(corpus) + 20000
			batchSize = 400
		}
		var indices []int
		if h.Only >= 0 {
			if h.Only < n {
				indices = []int{h.Only}
			}
		} else {
			for i := 0; i < n; i++ {
				indices = append(indices, i)
			}
		}
		root, _ := rng.FromEnv()
		cases := make(map[int]*caseData, len(indices))
		var mu sync.Mutex
		var wg sync.WaitGroup
		sem := make(chan struct{}, runtime.NumCPU())
		panics := map[int]string{}
		for _, i := range indices {
			i := i
			wg.Add(1)
			sem <- struct{}{}
			go func() {
				defer wg.Done()
				defer func() { <-sem }()
				defer func() {
					if e := recover(); e != nil {
						mu.Lock()
						panics[i] = fmt.Sprint(e)
						mu.Unlock()
					}
				}()
				c := prepare(i, root.Fork(uint64(i)), h.Thorough())
				mu.Lock()
				cases[i] = c
				mu.Unlock()
			}()
		}
		wg.Wait()
		// decode programs, a few builds in parallel (module file and helper package written once)
		ddir := filepath.Join(workDir, "decode")
		must(os.MkdirAll(filepath.Join(ddir, "dump"), 0o755))
		must(os.WriteFile(filepath.Join(ddir, "go.mod"), []byte("module verifdecode\n\ngo 1.18\n"), 0o644))
		must(os.WriteFile(filepath.Join(ddir, "dump", "dump.go"), []byte(dumpSource), 0o644))
		var batches [][]*caseData
		var cur []*caseData
		for _, i := range indices {
			if c := cases[i]; c != nil {
				cur = append(cur, c)
				if len(cur) == batchSize {
					batches = append(batches, cur)
					cur = nil
				}
			}
		}
		if len(cur) > 0 {
			batches = append(batches, cur)
		}
		bsem := make(chan struct{}, 4)
		for b, batch := range batches {
			b, batch := b, batch
			wg.Add(1)
			bsem <- struct{}{}
			go func() {
				defer wg.Done()
				defer func() { <-bsem }()
				runDecodeBatch(b, batch)
			}()
		}
		wg.Wait()
		for i := 0; i < n; i++ {
			i := i
			h.Case(func(_ *rng.R) sexp.Node {
				if p, ok := panics[i]; ok {
					panic(p)
				}
				return cases[i].sexp()
			})
		}
	})
}
