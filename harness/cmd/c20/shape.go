package main

// shapeOf turns the generated Go source into the abstract type the model speaks about
// (informational: the check counts how often it equals the model's, it is never a verdict).
//
//	type  := string | int | float64 | bool | iface | (enum "N") | (ptr T) | (slice T)
//	       | (struct F*) | (sel (struct F*) (steps S*)) | (ref "XFragment") | (named "X")
//	F     := ("GoName" none|dash|(key "k")|(tags "raw") T)
//	S     := (always "Field") | (switch "TypenameField" ("A" ...) "Field")
//	shape := (shape (def "QData" forward? T) ...)      only the ...Data / ...Fragment declarations;
//	                                                   sel types are expanded where referenced

import (
	"go/ast"
	"go/token"
	"reflect"
	"strconv"
	"strings"

	"verifharness/internal/sexp"
)

type shaper struct {
	decls   map[string]ast.Expr
	methods map[string]*ast.FuncDecl
}

func shapeOf(f *ast.File, _ string) sexp.Node {
	sh := &shaper{decls: map[string]ast.Expr{}, methods: map[string]*ast.FuncDecl{}}
	var order []string
	for _, d := range f.Decls {
		switch d := d.(type) {
		case *ast.GenDecl:
			if d.Tok != token.TYPE {
				continue
			}
			for _, sp := range d.Specs {
				ts := sp.(*ast.TypeSpec)
				sh.decls[ts.Name.Name] = ts.Type
				order = append(order, ts.Name.Name)
			}
		case *ast.FuncDecl:
			if d.Recv != nil && d.Name.Name == "UnmarshalJSON" && len(d.Recv.List) == 1 {
				if st, ok := d.Recv.List[0].Type.(*ast.StarExpr); ok {
					if id, ok := st.X.(*ast.Ident); ok {
						sh.methods[id.Name] = d
					}
				}
			}
		}
	}
	var defs []sexp.Node
	for _, name := range order {
		if strings.HasSuffix(name, "Data") || strings.HasSuffix(name, "Fragment") {
			if strings.HasPrefix(name, "sel") {
				continue
			}
			_, fwd := sh.methods[name]
			defs = append(defs, sexp.T("def", sexp.Str(name), sexp.Bool(fwd), sh.typ(sh.decls[name], 0)))
		}
	}
	return sexp.T("shape", defs...)
}

func (sh *shaper) typ(e ast.Expr, depth int) sexp.Node {
	if depth > 50 {
		return sexp.Sym("deep")
	}
	switch e := e.(type) {
	case *ast.StarExpr:
		return sexp.T("ptr", sh.typ(e.X, depth+1))
	case *ast.ArrayType:
		return sexp.T("slice", sh.typ(e.Elt, depth+1))
	case *ast.InterfaceType:
		return sexp.Sym("iface")
	case *ast.StructType:
		return sh.structOf(e, depth)
	case *ast.Ident:
		switch e.Name {
		case "string", "int", "float64", "bool":
			return sexp.Sym(e.Name)
		}
		decl, ok := sh.decls[e.Name]
		if !ok {
			return sexp.T("named", sexp.Str(e.Name))
		}
		if id, ok := decl.(*ast.Ident); ok && id.Name == "string" {
			return sexp.T("enum", sexp.Str(e.Name))
		}
		if st, ok := decl.(*ast.StructType); ok {
			if m, ok := sh.methods[e.Name]; ok {
				return sexp.T("sel", sh.structOf(st, depth), sexp.T("steps", sh.steps(m)...))
			}
		}
		if strings.HasSuffix(e.Name, "Fragment") {
			return sexp.T("ref", sexp.Str(e.Name))
		}
		return sexp.T("named", sexp.Str(e.Name))
	}
	return sexp.T("other", sexp.Str(reflect.TypeOf(e).String()))
}

func (sh *shaper) structOf(st *ast.StructType, depth int) sexp.Node {
	var fs []sexp.Node
	for _, f := range st.Fields.List {
		tag := sexp.Sym("none")
		if f.Tag != nil {
			raw, _ := strconv.Unquote(f.Tag.Value)
			v, ok := reflect.StructTag(raw).Lookup("json")
			switch {
			case !ok:
				tag = sexp.T("tags", sexp.Str(raw))
			case v == "-":
				tag = sexp.Sym("dash")
			default:
				tag = sexp.T("key", sexp.Str(v))
			}
		}
		for _, n := range f.Names {
			fs = append(fs, sexp.L(sexp.Str(n.Name), tag, sh.typ(f.Type, depth+1)))
		}
	}
	return sexp.T("struct", fs...)
}

func unmarshalTarget(s ast.Stmt) (string, bool) {
	ifs, ok := s.(*ast.IfStmt)
	if !ok || ifs.Init == nil {
		return "", false
	}
	as, ok := ifs.Init.(*ast.AssignStmt)
	if !ok || len(as.Rhs) != 1 {
		return "", false
	}
	call, ok := as.Rhs[0].(*ast.CallExpr)
	if !ok || len(call.Args) != 2 {
		return "", false
	}
	u, ok := call.Args[1].(*ast.UnaryExpr)
	if !ok || u.Op != token.AND {
		return "", false
	}
	se, ok := u.X.(*ast.SelectorExpr)
	if !ok {
		return "", false
	}
	if id, ok := se.X.(*ast.Ident); !ok || id.Name != "s" {
		return "", false
	}
	return se.Sel.Name, true
}

func (sh *shaper) steps(m *ast.FuncDecl) []sexp.Node {
	var out []sexp.Node
	for _, s := range m.Body.List {
		if f, ok := unmarshalTarget(s); ok {
			out = append(out, sexp.T("always", sexp.Str(f)))
			continue
		}
		sw, ok := s.(*ast.SwitchStmt)
		if !ok {
			continue
		}
		tagField := ""
		if se, ok := sw.Tag.(*ast.SelectorExpr); ok {
			tagField = se.Sel.Name
		}
		for _, c := range sw.Body.List {
			cc := c.(*ast.CaseClause)
			var oks []sexp.Node
			for _, e := range cc.List {
				if bl, ok := e.(*ast.BasicLit); ok {
					v, _ := strconv.Unquote(bl.Value)
					oks = append(oks, sexp.Str(v))
				}
			}
			for _, b := range cc.Body {
				if f, ok := unmarshalTarget(b); ok {
					out = append(out, sexp.T("switch", sexp.Str(tagField), sexp.L(oks...), sexp.Str(f)))
				}
			}
		}
	}
	return out
}

// enumConsts reads the enum constants off the generated source: for every `const ( X T = "v" ... )`
// block the list of values, as (("v" ...) ...).
func enumConsts(f *ast.File) sexp.Node {
	var out []sexp.Node
	for _, d := range f.Decls {
		gd, ok := d.(*ast.GenDecl)
		if !ok || gd.Tok != token.CONST {
			continue
		}
		var vals []sexp.Node
		for _, sp := range gd.Specs {
			vs, ok := sp.(*ast.ValueSpec)
			if !ok {
				continue
			}
			for _, v := range vs.Values {
				if lit, ok := v.(*ast.BasicLit); ok && lit.Kind == token.STRING {
					if u, err := strconv.Unquote(lit.Value); err == nil {
						vals = append(vals, sexp.Str(u))
					}
				}
			}
		}
		out = append(out, sexp.L(vals...))
	}
	return sexp.L(out...)
}
